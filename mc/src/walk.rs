//! Stateless exhaustive walkers over operation histories of the *real* coders.
//! Every edge of the walk is a call of the real `encode_symbol` / `decode_symbol`.

use crate::models::{to_u128, Cfg, Letter};
use crate::refs::{RefAns, RefRange};
use constriction::stream::queue::{EncoderSituation, RangeCoderState, RangeEncoder};
use constriction::stream::stack::AnsCoder;
use constriction::stream::Code;
use constriction::Pos;
use rayon::prelude::*;

// ------------------------------------------------------------------------------------------
// Range encoder: all symbol sequences over an alphabet up to a depth.

pub struct RangeNode<'a, C: Cfg> {
    pub enc: &'a RangeEncoder<C::W, C::S>,
    pub hist: &'a [Letter],
    pub rf: &'a RefRange,
    /// `pos()` of the encoder at every symbol boundary 0..=hist.len()
    pub snaps: &'a [(usize, RangeCoderState<C::W, C::S>)],
    /// whether the encoder was in the inverted situation at that boundary
    pub inverted: &'a [bool],
    /// the encoder before the last symbol was encoded
    pub parent: Option<&'a RangeEncoder<C::W, C::S>>,
}

pub fn range_is_inverted<C: Cfg>(e: &RangeEncoder<C::W, C::S>) -> Option<usize> {
    let (_, _, sit) = e.clone().into_raw_parts();
    match sit {
        EncoderSituation::Normal => None,
        EncoderSituation::Inverted(n, _) => Some(n.get()),
    }
}

struct RangeCtx<'a, C: Cfg, A, V> {
    alphabet: &'a [Letter],
    visit: &'a V,
    _ph: core::marker::PhantomData<fn() -> (C, A)>,
}

fn range_rec<C: Cfg, A, V: Fn(&RangeNode<C>, &mut A)>(
    ctx: &RangeCtx<C, A, V>,
    enc: &RangeEncoder<C::W, C::S>,
    rf: &RefRange,
    hist: &mut Vec<Letter>,
    snaps: &mut Vec<(usize, RangeCoderState<C::W, C::S>)>,
    inverted: &mut Vec<bool>,
    depth_left: usize,
    parent: Option<&RangeEncoder<C::W, C::S>>,
    acc: &mut A,
    counts: &mut (u64, u64),
) {
    counts.0 += 1;
    (ctx.visit)(&RangeNode { enc, hist, rf, snaps, inverted, parent }, acc);
    if depth_left == 0 {
        return;
    }
    for &l in ctx.alphabet {
        let mut e2 = enc.clone();
        C::range_encode(&mut e2, l).expect("HARNESS: encoding a well-formed letter into a Vec cannot fail");
        counts.1 += 1;
        let mut r2 = rf.clone();
        r2.push(l);
        hist.push(l);
        snaps.push(e2.pos());
        inverted.push(range_is_inverted::<C>(&e2).is_some());
        range_rec(ctx, &e2, &r2, hist, snaps, inverted, depth_left - 1, Some(enc), acc, counts);
        inverted.pop();
        snaps.pop();
        hist.pop();
    }
}

/// Visits every symbol sequence of length 0..=depth over `alphabet` (each exactly once).
/// Returns per-task accumulators and (nodes, transitions).
pub fn range_walk<C: Cfg, A: Default + Send, V: Fn(&RangeNode<C>, &mut A) + Sync>(
    alphabet: &[Letter],
    depth: usize,
    visit: V,
) -> (Vec<A>, u64, u64) {
    let split = depth.min(2);
    // sequential part: nodes of depth < split (+ all if depth < split)
    let ctx = RangeCtx::<C, A, V> { alphabet, visit: &visit, _ph: Default::default() };
    let mut accs = vec![];
    let mut counts = (0u64, 0u64);
    {
        let mut acc = A::default();
        let enc = RangeEncoder::<C::W, C::S>::new();
        let rf = RefRange::new(C::WBITS, C::SBITS);
        let mut snaps = vec![enc.pos()];
        let mut inv = vec![false];
        // visit nodes at depth < split only: run with depth split-1 (if split>0)
        if split == 0 {
            range_rec(&ctx, &enc, &rf, &mut vec![], &mut snaps, &mut inv, 0, None, &mut acc, &mut counts);
        } else {
            range_rec(&ctx, &enc, &rf, &mut vec![], &mut snaps, &mut inv, split - 1, None, &mut acc, &mut counts);
        }
        accs.push(acc);
    }
    if split > 0 {
        let mut prefixes: Vec<Vec<Letter>> = vec![vec![]];
        for _ in 0..split {
            prefixes = prefixes
                .into_iter()
                .flat_map(|p| alphabet.iter().map(move |&l| { let mut q = p.clone(); q.push(l); q }))
                .collect();
        }
        let results: Vec<(A, (u64, u64))> = prefixes
            .par_iter()
            .map(|prefix| {
                let mut acc = A::default();
                let mut counts = (0u64, 0u64);
                let mut enc = RangeEncoder::<C::W, C::S>::new();
                let mut rf = RefRange::new(C::WBITS, C::SBITS);
                let mut snaps = vec![enc.pos()];
                let mut inv = vec![false];
                let mut hist = vec![];
                let mut parent = None;
                for &l in prefix {
                    parent = Some(enc.clone());
                    C::range_encode(&mut enc, l).expect("HARNESS: encode into Vec");
                    rf.push(l);
                    hist.push(l);
                    snaps.push(enc.pos());
                    inv.push(range_is_inverted::<C>(&enc).is_some());
                }
                // the last edge of the prefix is counted here; earlier ones by the sequential part
                counts.1 += 1;
                range_rec(&ctx, &enc, &rf, &mut hist, &mut snaps, &mut inv, depth - split, parent.as_ref(), &mut acc, &mut counts);
                (acc, counts)
            })
            .collect();
        // sequential part counted edges to depth split-1; prefix tasks count their last edge.
        for (a, c) in results {
            accs.push(a);
            counts.0 += c.0;
            counts.1 += c.1;
        }
    }
    (accs, counts.0, counts.1)
}

// ------------------------------------------------------------------------------------------
// ANS coder: all histories over {encode(letter), decode(matching model)} up to a depth,
// from a given initial word string.

#[derive(Clone, Copy, Debug, PartialEq, Eq)]
pub enum AnsOp {
    Enc(Letter),
    /// pop the most recent not-yet-decoded symbol with its own model
    Dec,
}

pub struct AnsNode<'a, C: Cfg> {
    pub coder: &'a AnsCoder<C::W, C::S>,
    /// reference stack of not-yet-decoded letters
    pub stack: &'a [Letter],
    /// exports[k] = words exported when the reference stack had k entries (k = 0..=stack.len())
    pub exports: &'a [Vec<u128>],
    pub rf: &'a RefAns,
    pub ops: &'a [AnsOp],
    /// result of the decode that led here (if the last op was Dec): returned part index
    pub last_dec: Option<u8>,
    /// (bulk len, state) of the parent, for flush/refill event counting
    pub parent: Option<(usize, u128)>,
}

pub fn ans_export<C: Cfg>(c: &AnsCoder<C::W, C::S>) -> Vec<u128> {
    to_u128(&c.clone().into_compressed().expect("HARNESS: Vec backend is infallible"))
}

struct AnsCtx<'a, C: Cfg, A, V> {
    alphabet: &'a [Letter],
    visit: &'a V,
    with_dec: bool,
    _ph: core::marker::PhantomData<fn() -> (C, A)>,
}

#[allow(clippy::too_many_arguments)]
fn ans_rec<C: Cfg, A, V: Fn(&AnsNode<C>, &mut A)>(
    ctx: &AnsCtx<C, A, V>,
    coder: &AnsCoder<C::W, C::S>,
    rf: &RefAns,
    stack: &mut Vec<Letter>,
    exports: &mut Vec<Vec<u128>>,
    ops: &mut Vec<AnsOp>,
    last_dec: Option<u8>,
    parent: Option<(usize, u128)>,
    depth_left: usize,
    acc: &mut A,
    counts: &mut (u64, u64),
) {
    counts.0 += 1;
    (ctx.visit)(&AnsNode { coder, stack, exports, rf, ops, last_dec, parent }, acc);
    if depth_left == 0 {
        return;
    }
    let me = Some((coder.bulk().len(), coder.state().into()));
    for &l in ctx.alphabet {
        let mut c2 = coder.clone();
        C::ans_encode(&mut c2, l).expect("HARNESS: encoding a well-formed letter into a Vec cannot fail");
        counts.1 += 1;
        let mut r2 = rf.clone();
        r2.push(l);
        stack.push(l);
        exports.push(ans_export::<C>(&c2));
        ops.push(AnsOp::Enc(l));
        ans_rec(ctx, &c2, &r2, stack, exports, ops, None, me, depth_left - 1, acc, counts);
        ops.pop();
        exports.pop();
        stack.pop();
    }
    if ctx.with_dec {
        if let Some(&top) = stack.last() {
            let mut c2 = coder.clone();
            let k = C::ans_decode(&mut c2, top).expect("HARNESS: Vec backend is infallible");
            counts.1 += 1;
            let mut r2 = rf.clone();
            r2.pop(top);
            let l = stack.pop().unwrap();
            let e = exports.pop().unwrap();
            ops.push(AnsOp::Dec);
            ans_rec(ctx, &c2, &r2, stack, exports, ops, Some(k), me, depth_left - 1, acc, counts);
            ops.pop();
            exports.push(e);
            stack.push(l);
        }
    }
}

/// Visits every history of length 0..=depth over {Enc(l) for l in alphabet} ∪ {Dec}, starting
/// from each initial word string in `inits` (must be valid `from_compressed` input).
pub fn ans_walk<C: Cfg, A: Default + Send, V: Fn(&AnsNode<C>, &mut A) + Sync>(
    inits: &[Vec<u128>],
    alphabet: &[Letter],
    depth: usize,
    with_dec: bool,
    visit: V,
) -> (Vec<A>, u64, u64) {
    // tasks: (init, first letter) pairs; the root of each init is visited by the task of its first letter
    let ctx = AnsCtx::<C, A, V> { alphabet, visit: &visit, with_dec, _ph: Default::default() };
    let mut tasks: Vec<(usize, Option<usize>)> = vec![];
    for i in 0..inits.len() {
        tasks.push((i, None));
        if depth > 0 {
            for j in 0..alphabet.len() {
                tasks.push((i, Some(j)));
            }
        }
    }
    let results: Vec<(A, (u64, u64))> = tasks
        .par_iter()
        .map(|&(i, j)| {
            let mut acc = A::default();
            let mut counts = (0u64, 0u64);
            let words: Vec<C::W> = inits[i].iter().map(|&w| C::w(w)).collect();
            // an initial word string that ends in the marker word 1 is raw binary data followed by its marker:
            // such coders are loaded through `from_binary` (the other initial strings through `from_compressed`),
            // so that both import paths are starting points of the histories
            let coder = if words.last().map(|&w| w.into()) == Some(1u128) && words.len() >= 2 {
                AnsCoder::<C::W, C::S>::from_binary(words[..words.len() - 1].to_vec()).expect("HARNESS: Vec backend")
            } else {
                AnsCoder::<C::W, C::S>::from_compressed(words)
                    .expect("HARNESS: initial word string must be valid for from_compressed")
            };
            let rf = RefAns::import(C::WBITS, C::SBITS, &inits[i]);
            let mut stack = vec![];
            let mut exports = vec![ans_export::<C>(&coder)];
            let mut ops = vec![];
            match j {
                None => {
                    // root only
                    let c0 = AnsCtx::<C, A, V> { alphabet: &[], visit: &visit, with_dec: false, _ph: Default::default() };
                    ans_rec(&c0, &coder, &rf, &mut stack, &mut exports, &mut ops, None, None, 0, &mut acc, &mut counts);
                }
                Some(j) => {
                    let l = alphabet[j];
                    let me = Some((coder.bulk().len(), coder.state().into()));
                    let mut c2 = coder.clone();
                    C::ans_encode(&mut c2, l).expect("HARNESS: encode into Vec");
                    counts.1 += 1;
                    let mut r2 = rf.clone();
                    r2.push(l);
                    stack.push(l);
                    exports.push(ans_export::<C>(&c2));
                    ops.push(AnsOp::Enc(l));
                    ans_rec(&ctx, &c2, &r2, &mut stack, &mut exports, &mut ops, None, me, depth - 1, &mut acc, &mut counts);
                }
            }
            (acc, counts)
        })
        .collect();
    let mut accs = vec![];
    let mut counts = (0u64, 0u64);
    for (a, c) in results {
        accs.push(a);
        counts.0 += c.0;
        counts.1 += c.1;
    }
    (accs, counts.0, counts.1)
}

/// Generic accumulator used by most property modules.
#[derive(Default)]
pub struct Acc {
    pub c: [u64; 24],
    /// identity -> (count, first violation)
    pub viol: std::collections::BTreeMap<String, (u64, crate::report::Violation)>,
    pub samples: Vec<serde_json::Value>,
    pub max: [f64; 4],
}

impl Acc {
    pub fn violation(&mut self, identity: impl Into<String>, detail: impl Into<String>, case: serde_json::Value) {
        let identity: String = identity.into();
        match self.viol.get_mut(&identity) {
            Some(e) => e.0 += 1,
            None => {
                let v = crate::report::Violation { identity: identity.clone(), detail: detail.into(), case };
                self.viol.insert(identity, (1, v));
            }
        }
    }
}

pub fn merge_accs(report: &crate::report::Report, accs: Vec<Acc>, names: &[&str]) -> [f64; 4] {
    let mut max = [f64::NEG_INFINITY; 4];
    let mut nsamples = 0;
    for a in accs {
        for (i, n) in names.iter().enumerate() {
            if !n.is_empty() && a.c[i] > 0 {
                report.count(n, a.c[i]);
            }
        }
        for (_, (n, v)) in a.viol {
            report.violation_n(v, n);
        }
        for s in a.samples {
            if nsamples < 6 {
                report.sample(s);
                nsamples += 1;
            }
        }
        for i in 0..4 {
            if a.max[i] > max[i] {
                max[i] = a.max[i];
            }
        }
    }
    max
}


// ------------------------------------------------------------------------------------------
// Histories with inspections are histories too. The walkers of C01 / C02 / C06 / C12 call these at every
// node: a temporary view or temporary decoder that is dropped again must leave the coder exactly as it was
// (so every continuation of the inspected coder is a continuation of the uninspected one), and what the view
// shows must be what finishing the coder at that moment returns.

pub fn range_inspection_changes<C: Cfg>(enc: &RangeEncoder<C::W, C::S>) -> Option<String> {
    use constriction::NonZeroBitArray;
    let sealed = to_u128(&enc.clone().into_compressed().expect("HARNESS: Vec backend"));
    let mut t = enc.clone();
    let view = to_u128(&t.get_compressed());
    if view != sealed {
        return Some(format!("get_compressed() shows {:x?} but finishing the encoder returns {:x?}", view, sealed));
    }
    {
        let _d = t.decoder();
    }
    let (b1, s1, sit1) = t.into_raw_parts();
    let (b0, s0, sit0) = enc.clone().into_raw_parts();
    let sit = |s: &EncoderSituation<C::W>| match s { EncoderSituation::Normal => (0usize, 0u128), EncoderSituation::Inverted(n, w) => (n.get(), (*w).into()) };
    if to_u128(&b1) != to_u128(&b0) || s1.lower().into() != s0.lower().into() || s1.range().get().into() != s0.range().get().into() || sit(&sit1) != sit(&sit0) {
        return Some(format!("after get_compressed() + decoder() the encoder is (bulk {:x?}, lower {:#x}, range {:#x}, situation {:?}) instead of (bulk {:x?}, lower {:#x}, range {:#x}, situation {:?})",
            to_u128(&b1), s1.lower().into(), s1.range().get().into(), sit(&sit1), to_u128(&b0), s0.lower().into(), s0.range().get().into(), sit(&sit0)));
    }
    None
}

pub fn ans_inspection_changes<C: Cfg>(c: &AnsCoder<C::W, C::S>) -> Option<String> {
    let finished = ans_export::<C>(c);
    let mut t = c.clone();
    let view = to_u128(&t.get_compressed().expect("HARNESS: Vec backend"));
    if view != finished {
        return Some(format!("get_compressed() shows {:x?} but finishing the coder returns {:x?}", view, finished));
    }
    let it: Vec<C::W> = t.iter_compressed().collect();
    if to_u128(&it) != finished {
        return Some(format!("iter_compressed() yields {:x?} but finishing the coder returns {:x?}", to_u128(&it), finished));
    }
    let _ = t.get_binary().map(|g| g.len());
    if to_u128(t.bulk()) != to_u128(c.bulk()) || t.state().into() != c.state().into() {
        return Some(format!("after get_compressed() + get_binary() the coder is (bulk {:x?}, state {:#x}) instead of (bulk {:x?}, state {:#x})",
            to_u128(t.bulk()), t.state().into(), to_u128(c.bulk()), c.state().into()));
    }
    None
}
