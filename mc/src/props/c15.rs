//! C15 — Huffman codebooks are prefix-free, complete, optimal and mutually consistent.
//!
//! Every weight vector of the stated lengths over a small weight alphabet (integers, and the same
//! values as f32/f64 plus tiny/zero/equal weights). Oracles: prefix-freeness, Kraft equality in
//! integer arithmetic, optimal total weighted length by brute force over all full binary trees
//! (n <= 6) / by an independent cost-only merge, tie-breaking identical to a reference Huffman
//! construction with key (weight, index), prefix bits == reversed suffix bits, every codeword
//! decodes to its symbol consuming exactly its bits, out-of-alphabet symbols are rejected,
//! encoder and decoder tree agree.

use crate::report::{Report, Tier, Violation};
use constriction::symbol::huffman::{DecoderHuffmanTree, EncoderHuffmanTree};
use constriction::symbol::{DecoderCodebook, EncoderCodebook};
use rayon::prelude::*;
use serde_json::json;
use std::convert::Infallible;

/// both trees from float weights; a list of non-negative, non-NaN weights must be accepted
fn trees64(w: &[f64]) -> Result<(EncoderHuffmanTree, DecoderHuffmanTree), (String, String)> {
    match (EncoderHuffmanTree::from_float_probabilities::<f64, _>(w), DecoderHuffmanTree::from_float_probabilities::<f64, _>(w)) {
        (Ok(e), Ok(d)) => Ok((e, d)),
        (e, d) => Err(("Huffman | non-negative, non-NaN float weights rejected".to_string(), format!("weights {:?} (f64): encoder tree {}, decoder tree {}", w, if e.is_ok() { "built" } else { "refused" }, if d.is_ok() { "built" } else { "refused" }))),
    }
}
fn trees32(w: &[f32]) -> Result<(EncoderHuffmanTree, DecoderHuffmanTree), (String, String)> {
    match (EncoderHuffmanTree::from_float_probabilities::<f32, _>(w), DecoderHuffmanTree::from_float_probabilities::<f32, _>(w)) {
        (Ok(e), Ok(d)) => Ok((e, d)),
        (e, d) => Err(("Huffman | non-negative, non-NaN float weights rejected".to_string(), format!("weights {:?} (f32): encoder tree {}, decoder tree {}", w, if e.is_ok() { "built" } else { "refused" }, if d.is_ok() { "built" } else { "refused" }))),
    }
}

fn cw_prefix(t: &EncoderHuffmanTree, s: usize) -> Option<Vec<bool>> {
    let mut v = vec![];
    t.encode_symbol_prefix(s, |b| { v.push(b); Ok::<(), Infallible>(()) }).ok()?;
    Some(v)
}
fn cw_suffix(t: &EncoderHuffmanTree, s: usize) -> Option<Vec<bool>> {
    let mut v = vec![];
    t.encode_symbol_suffix(s, |b| { v.push(b); Ok::<(), Infallible>(()) }).ok()?;
    Some(v)
}

/// all multisets of leaf depths of full binary trees with n leaves
fn depth_multisets(n: usize) -> Vec<Vec<u64>> {
    fn rec(open: usize, depth: u64, lens: &mut Vec<u64>, n: usize, out: &mut Vec<Vec<u64>>) {
        if open == 0 {
            if lens.len() == n { out.push(lens.clone()); }
            return;
        }
        for k in 0..=open {
            let internal = open - k;
            if lens.len() + k + 2 * internal > n || (internal == 0 && lens.len() + k != n) {
                continue;
            }
            for _ in 0..k { lens.push(depth); }
            rec(2 * internal, depth + 1, lens, n, out);
            for _ in 0..k { lens.pop(); }
        }
    }
    let mut out = vec![];
    rec(1, 0, &mut vec![], n, &mut out);
    out
}

fn brute_opt(w: &[u64], multisets: &[Vec<u64>]) -> u64 {
    if w.len() == 1 { return 0; }
    let mut ws = w.to_vec();
    ws.sort_unstable_by(|a, b| b.cmp(a));
    multisets.iter().map(|lens| {
        let mut l = lens.clone();
        l.sort_unstable();
        ws.iter().zip(&l).map(|(w, l)| w * l).sum::<u64>()
    }).min().unwrap()
}

/// independent cost-only Huffman merge (sum of all internal node weights)
fn merge_cost(w: &[u64]) -> u64 {
    let mut v = w.to_vec();
    let mut cost = 0;
    while v.len() > 1 {
        v.sort_unstable();
        let s = v[0] + v[1];
        cost += s;
        v.drain(0..2);
        v.push(s);
    }
    cost
}

/// reference Huffman with key (weight, index): returns root-to-leaf codewords
fn reference_codewords<P: PartialOrd + Copy + core::ops::Add<Output = P>>(w: &[P]) -> Vec<Vec<bool>> {
    let n = w.len();
    let mut live: Vec<(P, usize)> = w.iter().copied().enumerate().map(|(i, p)| (p, i)).collect();
    let mut parent: Vec<Option<(usize, bool)>> = vec![None; 2 * n - 1];
    let mut next = n;
    while live.len() > 1 {
        // pick the two smallest by (weight, index)
        let pick = |live: &Vec<(P, usize)>| -> usize {
            let mut best = 0;
            for k in 1..live.len() {
                let (a, b) = (live[k], live[best]);
                if a.0 < b.0 || (a.0 == b.0 && a.1 < b.1) { best = k; }
            }
            best
        };
        let a = live.remove(pick(&live));
        let b = live.remove(pick(&live));
        parent[a.1] = Some((next, false));
        parent[b.1] = Some((next, true));
        live.push((a.0 + b.0, next));
        next += 1;
    }
    (0..n).map(|s| {
        let mut bits = vec![];
        let mut node = s;
        while let Some((p, b)) = parent[node] { bits.push(b); node = p; }
        bits.reverse();
        bits
    }).collect()
}

fn check_trees(w_desc: &str, n: usize, enc: &EncoderHuffmanTree, dec: &DecoderHuffmanTree, ref_cw: &[Vec<bool>], int_weights: Option<(&[u64], &[Vec<u64>])>) -> Vec<(String, String)> {
    let mut bad = vec![];
    let mut fail = |what: &str, detail: String| bad.push((format!("Huffman | {what}"), format!("weights {w_desc}: {detail}")));
    if enc.num_symbols() != n || dec.num_symbols() != n {
        fail("num_symbols wrong", format!("{} / {}", enc.num_symbols(), dec.num_symbols()));
    }
    let cws: Vec<Vec<bool>> = match (0..n).map(|s| cw_prefix(enc, s)).collect::<Option<Vec<_>>>() {
        Some(c) => c,
        None => { fail("in-alphabet symbol rejected", String::new()); return bad; }
    };
    for s in 0..n {
        match cw_suffix(enc, s) {
            Some(mut suf) => { suf.reverse(); if suf != cws[s] { fail("prefix bits differ from reversed suffix bits", format!("symbol {s}: {:?} vs {:?}", cws[s], suf)); } }
            None => fail("in-alphabet symbol rejected", format!("symbol {s} (suffix form)")),
        }
    }
    for a in 0..n {
        for b in 0..n {
            if a != b && cws[b].len() >= cws[a].len() && cws[b][..cws[a].len()] == cws[a][..] {
                fail("code is not prefix-free", format!("codeword {a} {:?} is a prefix of codeword {b} {:?}", cws[a], cws[b]));
            }
        }
    }
    if n >= 2 {
        // exact Kraft equality for any code length: pair up leaves level by level
        let maxl = cws.iter().map(|c| c.len()).max().unwrap();
        let mut counts = vec![0u64; maxl + 1];
        for c in &cws { counts[c.len()] += 1; }
        let mut ok = true;
        for l in (1..=maxl).rev() {
            if counts[l] % 2 != 0 { ok = false; break; }
            counts[l - 1] += counts[l] / 2;
        }
        if !ok || counts[0] != 1 { fail("Kraft sum is not exactly 1", format!("lengths {:?}", cws.iter().map(|c| c.len()).collect::<Vec<_>>())); }
    } else if !cws[0].is_empty() {
        fail("single symbol has a non-empty codeword", format!("{:?}", cws[0]));
    }
    if let Some((w, multisets)) = int_weights {
        let cost: u64 = cws.iter().zip(w).map(|(c, w)| c.len() as u64 * w).sum();
        let opt = if n <= 6 { brute_opt(w, multisets) } else { merge_cost(w) };
        if cost != opt {
            fail("total weighted length is not minimal", format!("cost {cost}, optimum {opt}, lengths {:?}", cws.iter().map(|c| c.len()).collect::<Vec<_>>()));
        }
        if merge_cost(w) != opt && n >= 2 {
            panic!("HARNESS: the two optimum computations disagree for {:?}", w);
        }
    }
    if cws != ref_cw {
        fail("tie-breaking differs from the reference construction with key (weight, index)", format!("codewords {:?}, reference {:?}", cws, ref_cw));
    }
    for s in 0..n {
        let mut it = cws[s].iter().map(|&b| Ok::<bool, Infallible>(b));
        match dec.decode_symbol(&mut it) {
            Ok(d) if d == s && it.next().is_none() => {}
            other => fail("decoder tree does not decode a codeword back to its symbol", format!("symbol {s} codeword {:?} -> {:?}", cws[s], other.map_err(|_| "err"))),
        }
        // truncated codeword: out of data, never a wrong symbol
        if !cws[s].is_empty() {
            let mut it = cws[s][..cws[s].len() - 1].iter().map(|&b| Ok::<bool, Infallible>(b));
            if dec.decode_symbol(&mut it).is_ok() {
                fail("truncated codeword decodes to a symbol", format!("symbol {s}"));
            }
        }
    }
    let mut outside: Vec<usize> = (n..=(2 * n + 2).min(n + 40)).collect();
    outside.extend([2 * n.saturating_sub(1), 2 * n, 2 * n + 1, usize::MAX, usize::MAX / 2, 1 << 32, (1 << 32) + 1]);
    outside.retain(|&s| s >= n);
    for s in outside {
        if cw_prefix(enc, s).is_some() || cw_suffix(enc, s).is_some() {
            fail("symbol outside the alphabet accepted", format!("symbol {s}"));
        }
    }
    bad
}

fn sweep(report: &Report, letters: &[u64], max_len: usize, label: &str) {
    let t = std::time::Instant::now();
    let multisets: Vec<Vec<Vec<u64>>> = (0..=6).map(|n| if n >= 2 { depth_multisets(n) } else { vec![] }).collect();
    let mut total = 0u64;
    let mut distinct_codes = std::collections::HashSet::new();
    for len in 1..=max_len {
        let n = letters.len().pow(len as u32);
        let res: Vec<(Vec<(String, String)>, Vec<usize>)> = (0..n).into_par_iter().map(|idx| {
            let w: Vec<u64> = (0..len).map(|i| letters[idx / letters.len().pow(i as u32) % letters.len()]).collect();
            let mut bad = vec![];
            let ms: &[Vec<u64>] = if len <= 6 { &multisets[len] } else { &[] };
            // integers
            let w32: Vec<u32> = w.iter().map(|&x| x as u32).collect();
            let enc = EncoderHuffmanTree::from_probabilities::<u32, _>(&w32);
            let dec = DecoderHuffmanTree::from_probabilities::<u32, _>(&w32);
            let rc = reference_codewords(&w);
            bad.extend(check_trees(&format!("{:?} (u32)", w), len, &enc, &dec, &rc, Some((&w, ms))));
            let lens: Vec<usize> = rc.iter().map(|c| c.len()).collect();
            // floats (same values scaled by a non-representable factor, so sums round)
            let wf64: Vec<f64> = w.iter().map(|&x| x as f64 * 0.1).collect();
            match trees64(&wf64) {
                Ok((enc, dec)) => bad.extend(check_trees(&format!("{:?} (f64)", wf64), len, &enc, &dec, &reference_codewords(&wf64), None)),
                Err(e) => bad.push(e),
            }
            let wf32: Vec<f32> = w.iter().map(|&x| x as f32 * 0.1).collect();
            match trees32(&wf32) {
                Ok((enc, dec)) => bad.extend(check_trees(&format!("{:?} (f32)", wf32), len, &enc, &dec, &reference_codewords(&wf32), None)),
                Err(e) => bad.push(e),
            }
            (bad, lens)
        }).collect();
        total += n as u64;
        for (bad, lens) in res {
            distinct_codes.insert(lens);
            for (i, d) in bad {
                report.violation(Violation { identity: i, detail: d, case: json!({"kind": "none"}) });
            }
        }
    }
    report.add_states(total);
    report.add_transitions(total * 6);
    report.add_traces(total * 3);
    report.count("weight_vectors", total);
    report.count("distinct_code_length_profiles", distinct_codes.len() as u64);
    report.section(json!({"weights_over": letters, "max_len": max_len, "label": label, "weight_vectors": total, "as_types": ["u32", "f64 (x0.1)", "f32 (x0.1)"],
        "distinct_code_length_profiles": distinct_codes.len(), "wall_s": t.elapsed().as_secs_f64()}));
}

fn specials(report: &Report) {
    let mut n = 0u64;
    let mut fail = |what: &str, d: String| report.violation(Violation { identity: format!("Huffman | {what}"), detail: d, case: json!({"kind": "none"}) });
    // NaN weights are refused cleanly
    for v in [vec![0.5f64, f64::NAN], vec![f64::NAN], vec![1.0, 2.0, f64::NAN, 3.0]] {
        n += 1;
        if EncoderHuffmanTree::from_float_probabilities::<f64, _>(&v).is_ok() || DecoderHuffmanTree::from_float_probabilities::<f64, _>(&v).is_ok() {
            fail("NaN weight accepted", format!("{:?}", v));
        }
    }
    // tiny / zero / equal / huge floats
    for v in [vec![0.0f64; 5], vec![5e-324; 4], vec![1e-300, 1e300, 1e-300], vec![0.25; 8], vec![1e308, 1e308, 1e308], vec![0.0, 0.0, 1.0], vec![f64::INFINITY, 1.0, 2.0]] {
        n += 1;
        let (enc, dec) = match trees64(&v) { Ok(t) => t, Err((i, d)) => { report.violation(Violation { identity: i, detail: d, case: json!({"kind": "none"}) }); continue; } };
        for (i, d) in check_trees(&format!("{:?}", v), v.len(), &enc, &dec, &reference_codewords(&v), None) {
            report.violation(Violation { identity: i, detail: d, case: json!({"kind": "none"}) });
        }
    }
    // signed zeros: +0.0 and -0.0 are the same weight (they compare equal), so ties among them are broken by index as well
    for len in 2..=4usize {
        for code in 0..4usize.pow(len as u32) {
            let v: Vec<f64> = (0..len).map(|i| [0.0f64, -0.0, 1.0, 3.0][code / 4usize.pow(i as u32) % 4]).collect();
            if !v.iter().any(|x| *x == 0.0 && x.is_sign_negative()) { continue; }
            n += 1;
            let (enc, dec) = match trees64(&v) { Ok(t) => t, Err((i, d)) => { report.violation(Violation { identity: i, detail: d, case: json!({"kind": "none"}) }); continue; } };
            for (i, d) in check_trees(&format!("{:?}", v), v.len(), &enc, &dec, &reference_codewords(&v), None) {
                report.violation(Violation { identity: i, detail: d, case: json!({"kind": "none"}) });
            }
        }
    }
    // many symbols: 200 equal weights and a geometric sequence (deep tree)
    let eq = vec![1u64; 200];
    let geo: Vec<u64> = (0..40).map(|i| 1u64 << i).collect();
    for w in [eq, geo] {
        n += 1;
        let enc = EncoderHuffmanTree::from_probabilities::<u64, _>(&w);
        let dec = DecoderHuffmanTree::from_probabilities::<u64, _>(&w);
        for (i, d) in check_trees(&format!("{} weights starting {:?}", w.len(), &w[..3]), w.len(), &enc, &dec, &reference_codewords(&w), Some((&w, &[]))) {
            report.violation(Violation { identity: i, detail: d, case: json!({"kind": "none"}) });
        }
    }
    // very deep trees: codewords longer than 64 and 128 bits (weights wider than u32 are needed for those)
    let mut longest = 0usize;
    {
        let fib: Vec<u64> = { let mut v = vec![1u64, 1]; while v.len() < 90 { let k = v.len(); v.push(v[k - 1] + v[k - 2]); } v };
        let geo63: Vec<u64> = (0..63).map(|i| 1u64 << i).collect();
        for w in [fib, geo63] {
            n += 1;
            let enc = EncoderHuffmanTree::from_probabilities::<u64, _>(&w);
            let dec = DecoderHuffmanTree::from_probabilities::<u64, _>(&w);
            longest = longest.max((0..w.len()).filter_map(|s| cw_suffix(&enc, s)).map(|c| c.len()).max().unwrap_or(0));
            for (i, d) in check_trees(&format!("{} u64 weights starting {:?}", w.len(), &w[..3]), w.len(), &enc, &dec, &reference_codewords(&w), None) {
                report.violation(Violation { identity: i, detail: d, case: json!({"kind": "none"}) });
            }
        }
        for len in [66usize, 80, 127] {
            n += 1;
            let w: Vec<u128> = (0..len).map(|i| 1u128 << i).collect();
            let enc = EncoderHuffmanTree::from_probabilities::<u128, _>(&w);
            let dec = DecoderHuffmanTree::from_probabilities::<u128, _>(&w);
            longest = longest.max((0..w.len()).filter_map(|s| cw_suffix(&enc, s)).map(|c| c.len()).max().unwrap_or(0));
            for (i, d) in check_trees(&format!("{len} u128 weights 2^i"), w.len(), &enc, &dec, &reference_codewords(&w), None) {
                report.violation(Violation { identity: i, detail: d, case: json!({"kind": "none"}) });
            }
        }
        for (len, rev) in [(70usize, false), (140, false), (200, true)] {
            n += 1;
            let mut w: Vec<f64> = (0..len).map(|i| (2.0f64).powi(i as i32 - 60)).collect();
            if rev { w.reverse(); }
            let (enc, dec) = match trees64(&w) { Ok(t) => t, Err((i, d)) => { report.violation(Violation { identity: i, detail: d, case: json!({"kind": "none"}) }); continue; } };
            longest = longest.max((0..w.len()).filter_map(|s| cw_suffix(&enc, s)).map(|c| c.len()).max().unwrap_or(0));
            for (i, d) in check_trees(&format!("{len} f64 weights 2^(i-60){}", if rev { " reversed" } else { "" }), w.len(), &enc, &dec, &reference_codewords(&w), None) {
                report.violation(Violation { identity: i, detail: d, case: json!({"kind": "none"}) });
            }
        }
    }
    report.count("longest_codeword_bits", longest as u64);
    if longest < 190 && report.violation_count() == 0 { panic!("HARNESS: the deep-tree vectors must reach codewords of >= 190 bits, got {longest}"); }
    report.count("special_weight_vectors", n);
    report.add_traces(n);
}

pub fn run(report: &Report) {
    let q = report.tier == Tier::Quick;
    report.bound("all weight vectors of length 1..=L over the listed weight alphabets, each as u32, f64 and f32; special vectors (NaN, zeros, denormals, huge, 200 equal, geometric and Fibonacci weights as u64/u128/f64 giving codewords of up to 199 bits)");
    report.assume("optimality oracle: brute force over all full binary trees for n <= 6, an independent cost-only merge above (asserted equal to the brute force where both run)");
    report.require("weight_vectors");
    report.sample(json!({"weights": [3, 1, 2, 0, 5], "checked": ["prefix-free", "Kraft == 1", "cost == brute-force optimum", "codewords == reference (weight,index)", "prefix == reversed suffix", "decode(codeword) == symbol", "symbols >= n rejected"]}));
    sweep(report, &[0, 1, 2, 3, 5], if q { 6 } else { 7 }, "5 weights incl. zero and repeated");
    sweep(report, &[0, 1, 2, 3], if q { 7 } else { 9 }, "4 weights");
    sweep(report, &[1, 1, 2], if q { 8 } else { 10 }, "heavily tied weights");
    specials(report);
    super::pyfront::sweep(report, "symbol", if q { 3 } else { 4 },
        "Python EncoderHuffmanTree / DecoderHuffmanTree from every weight vector up to the listed length over 9 weights (incl. negative, NaN, inf: refusal or a complete code) as f32 and f64: Kraft sum, optimal cost, stack/queue agreement on codeword lengths",
        &["Huffman"], &[]);
}

pub fn replay(_case: &serde_json::Value) -> Result<String, String> {
    Err("C15 violations carry the failing weight vector in 'detail'; re-run ./check C15 (deterministic sweep)".into())
}
