//! C12 — compressed size stays within a proven overhead of the information content.
//!
//! The bound is derived analytically, so it must hold at EVERY node or the implementation is
//! wrong. Notation: W, S word/state bits, P precision of a symbol, info = P - log2(prob).
//!
//! ANS. Potential  Phi = W*|bulk| + log2(state+1).  One encode with x = state (no flush) or
//! x = state >> W (flush) gives state' <= (x/p)*2^P + 2^P - 1, hence
//!     log2(state'+1) <= log2(x+p) + info.
//! * flush happens only if state >= p*2^(S-P):  Phi'-Phi <= info + log2(1 + p*2^W/state)
//!                                                        <= info + log2(1+2^-(S-W-P));
//! * no flush and state >= 2^(S-W) (the documented invariant regime):
//!                                               Phi'-Phi <= info + log2(1 + p/state)
//!                                                        <  info + log2(1+2^-(S-W-P)).
//! * before the regime is reached the bulk is empty and Phi <= S-W.
//! Therefore  num_valid_bits <= Phi <= sum(info) + sum(eps) + (S-W+1),  num_bits <= ... + S + W,
//! and every encode writes at most one word (words <= n + S/W).
//!
//! Range coder. Potential Psi = W*k - log2(range), k = words emitted or held back.
//! range' = (range>>P)*p >= range*p/2^P*(1-2^-(S-W-P)) because range >= 2^(S-W); renormalising
//! leaves Psi unchanged. So Psi'-Psi <= info - log2(1-2^-(S-W-P)) =: info + eps_q, Psi_0 ~ -S,
//! W*k <= Psi + S, and sealing adds at most S/W words (two for State == 2 Words):
//!     num_bits <= sum(info+eps_q) + S   (+ one word per symbol bound where S-W-P = 0).

use super::common::*;
use crate::models::{Cfg, Letter};
use crate::report::{Report, Tier, Violation};
use crate::walk::{ans_walk, merge_accs, range_is_inverted, range_walk, Acc, AnsNode, AnsOp, RangeNode};
use crate::dispatch_cfg;
use constriction::stream::queue::RangeEncoder;
use constriction::stream::stack::AnsCoder;
use constriction::stream::Code;
use serde_json::json;

pub const NAMES: [&str; 10] = [
    "ans_nodes",
    "ans_steps_in_regime_checked",
    "ans_steps_with_flush",
    "ans_nodes_with_zero_headroom_precision",
    "range_nodes",
    "range_steps_checked",
    "range_steps_with_renormalisation",
    "range_nodes_bit_bound_skipped_because_S-W-P_is_0",
    "range_nodes_above_two_word_constant",
    "",
];

const TOL: f64 = 1e-6;

fn log2_u128(x: u128) -> f64 {
    // exact enough: split to keep 64 bit mantissa parts
    if x == 0 {
        return f64::NEG_INFINITY;
    }
    let lz = x.leading_zeros();
    let bits = 128 - lz;
    if bits <= 53 {
        (x as f64).log2()
    } else {
        let shift = bits - 53;
        ((x >> shift) as f64).log2() + shift as f64
    }
}
/// log2(x+1) without overflow at u128::MAX
fn log2p1(x: u128) -> f64 {
    if x == u128::MAX { 128.0 } else { log2_u128(x + 1) }
}

fn eps_ans<C: Cfg>(l: &Letter) -> f64 {
    let h = C::SBITS as i32 - C::WBITS as i32 - l.prec as i32;
    (1.0 + (2.0f64).powi(-h)).log2()
}
fn eps_range<C: Cfg>(l: &Letter) -> f64 {
    let h = C::SBITS as i32 - C::WBITS as i32 - l.prec as i32;
    if h == 0 { f64::INFINITY } else { -(1.0 - (2.0f64).powi(-h)).log2() }
}

fn ans_node<C: Cfg>(coder: &AnsCoder<C::W, C::S>, stack: &[Letter], parent: Option<(usize, u128)>, acc: Option<&mut Acc>) -> Vec<(String, String)> {
    let mut out = vec![];
    let n = stack.len();
    let st: u128 = coder.state().into();
    let blen = coder.bulk().len();
    let sum_info: f64 = stack.iter().map(|l| l.info()).sum();
    let sum_eps: f64 = stack.iter().map(|l| eps_ans::<C>(l)).sum();
    let (s, w) = (C::SBITS as f64, C::WBITS as f64);
    let valid = coder.num_valid_bits() as f64;
    let bits = coder.num_bits() as f64;
    let words = coder.num_words();
    // an inspection in between must not leave anything behind that would count towards the size
    if let Some(d) = crate::walk::ans_inspection_changes::<C>(coder) {
        out.push((format!("AnsCoder size bound | {} | a coder inspected between symbols does not stay the coder the bound was derived for", C::NAME), format!("letters {:?}: {d}", stack)));
    }
    if n > 0 && valid > sum_info + sum_eps + (s - w + 1.0) + TOL {
        out.push((format!("AnsCoder size bound | {} | num_valid_bits exceeds sum(info)+sum(eps)+S-W+1", C::NAME),
            format!("letters {:?}: num_valid_bits {valid} > {} + {} + {}", stack, sum_info, sum_eps, s - w + 1.0)));
    }
    if n > 0 && bits > sum_info + sum_eps + s + w + TOL {
        out.push((format!("AnsCoder size bound | {} | num_bits exceeds sum(info)+sum(eps)+S+W", C::NAME),
            format!("letters {:?}: num_bits {bits} > {} + {} + {}", stack, sum_info, sum_eps, s + w)));
    }
    if words > n + (C::SBITS / C::WBITS) as usize {
        out.push((format!("AnsCoder size bound | {} | more than n + S/W words", C::NAME), format!("letters {:?}: {words} words", stack)));
    }
    let mut flushed = false;
    let mut regime = false;
    if let (Some((plen, pstate)), Some(l)) = (parent, stack.last()) {
        if blen > plen + 1 {
            out.push((format!("AnsCoder::encode_symbol | {} | wrote more than one word", C::NAME), format!("letters {:?}", stack)));
        }
        flushed = blen > plen;
        // inductive step of the proof: in the regime state >= 2^(S-W) or when a word was flushed
        if pstate >= 1u128 << (C::SBITS - C::WBITS) || flushed {
            regime = true;
            let dphi = w * (blen as f64 - plen as f64) + log2p1(st) - log2p1(pstate);
            let allowed = l.info() + eps_ans::<C>(l);
            if dphi > allowed + TOL {
                out.push((format!("AnsCoder::encode_symbol | {} | one step grows the coder by more than info + log2(1+2^-(S-W-P)) bits", C::NAME),
                    format!("letters {:?}: parent (|bulk| {plen}, state {pstate:#x}) -> (|bulk| {blen}, state {st:#x}): growth {dphi:.6} bit > {allowed:.6} (flushed: {flushed})", stack)));
            }
        }
    }
    if let Some(acc) = acc {
        acc.c[0] += 1;
        if regime { acc.c[1] += 1; }
        if flushed { acc.c[2] += 1; }
        if stack.last().map_or(false, |l| C::SBITS - C::WBITS == l.prec as u32) { acc.c[3] += 1; }
        if n > 0 {
            let slack = valid - sum_info - sum_eps;
            if slack > acc.max[0] { acc.max[0] = slack; }
        }
    }
    out
}

fn range_node<C: Cfg>(enc: &RangeEncoder<C::W, C::S>, hist: &[Letter], parent: Option<&RangeEncoder<C::W, C::S>>, acc: Option<&mut Acc>) -> Vec<(String, String)> {
    let mut out = vec![];
    let n = hist.len();
    let (s, w) = (C::SBITS as f64, C::WBITS as f64);
    let sum_info: f64 = hist.iter().map(|l| l.info()).sum();
    let sum_eps: f64 = hist.iter().map(|l| eps_range::<C>(l)).sum();
    let words = enc.num_words();
    let bits = enc.num_bits() as f64;
    if let Some(d) = crate::walk::range_inspection_changes::<C>(enc) {
        out.push((format!("RangeEncoder size bound | {} | an encoder inspected between symbols does not stay the encoder the bound was derived for", C::NAME), format!("letters {:?}: {d}", hist)));
    }
    if words > n + (C::SBITS / C::WBITS) as usize {
        out.push((format!("RangeEncoder size bound | {} | more than n + S/W words", C::NAME), format!("letters {:?}: {words} words", hist)));
    }
    let mut skipped = false;
    if n > 0 {
        if sum_eps.is_finite() {
            if bits > sum_info + sum_eps + s + TOL {
                out.push((format!("RangeEncoder size bound | {} | num_bits exceeds sum(info+eps_q)+S", C::NAME),
                    format!("letters {:?}: num_bits {bits} > {} + {} + {}", hist, sum_info, sum_eps, s)));
            }
        } else {
            skipped = true;
        }
    }
    let k = |e: &RangeEncoder<C::W, C::S>| e.bulk().len() + range_is_inverted::<C>(e).unwrap_or(0);
    let rng = |e: &RangeEncoder<C::W, C::S>| -> u128 { use constriction::NonZeroBitArray; e.clone().into_raw_parts().1.range().get().into() };
    let mut renorm = false;
    if let (Some(p), Some(l)) = (parent, hist.last()) {
        let (k0, k1) = (k(p), k(enc));
        if k1 > k0 + 1 {
            out.push((format!("RangeEncoder::encode_symbol | {} | emitted or held back more than one word", C::NAME), format!("letters {:?}", hist)));
        }
        renorm = k1 > k0;
        let e = eps_range::<C>(l);
        if e.is_finite() {
            let dpsi = w * (k1 as f64 - k0 as f64) - log2_u128(rng(enc)) + log2_u128(rng(p));
            if dpsi > l.info() + e + TOL {
                out.push((format!("RangeEncoder::encode_symbol | {} | one step shrinks the interval by more than info + eps_q bits", C::NAME),
                    format!("letters {:?}: growth {dpsi:.6} bit > {:.6}", hist, l.info() + e)));
            }
        }
    }
    if let Some(acc) = acc {
        acc.c[4] += 1;
        if parent.is_some() { acc.c[5] += 1; }
        if renorm { acc.c[6] += 1; }
        if skipped { acc.c[7] += 1; }
        if n > 0 && sum_eps.is_finite() {
            let slack = bits - sum_info - sum_eps;
            if slack > 2.0 * w + TOL { acc.c[8] += 1; }
            if slack > acc.max[1] { acc.max[1] = slack; }
        }
    }
    out
}

fn explore_ans<C: Cfg>(report: &Report, alphabet: &[Letter], depth: usize, label: &str) {
    let t = std::time::Instant::now();
    let empty: Vec<Vec<u128>> = vec![vec![]];
    let (accs, nodes, trans) = ans_walk::<C, Acc, _>(&empty, alphabet, depth, false, |n: &AnsNode<C>, acc: &mut Acc| {
        for (i, d) in ans_node::<C>(n.coder, n.stack, n.parent, Some(acc)) {
            acc.violation(i, d, json!({"kind": "ans_letters", "cfg": C::NAME, "letters": letters_json(n.stack)}));
        }
        if acc.samples.is_empty() && n.ops.len() >= 4 {
            let letters: Vec<Letter> = n.ops.iter().filter_map(|o| if let AnsOp::Enc(l) = o { Some(*l) } else { None }).collect();
            acc.samples.push(json!({"coder": "ans", "cfg": C::NAME, "letters": letters_json(&letters), "num_valid_bits": n.coder.num_valid_bits(),
                "sum_info": letters.iter().map(|l| l.info()).sum::<f64>()}));
        }
    });
    report.add_states(nodes);
    report.add_transitions(trans);
    report.add_traces(nodes);
    let max = merge_accs(report, accs, &NAMES);
    report.section(json!({"coder": "ans", "cfg": C::NAME, "alphabet": label, "alphabet_size": alphabet.len(), "depth": depth, "nodes": nodes,
        "max_observed_num_valid_bits_minus_sum_info_minus_sum_eps": max[0], "constant_allowed": C::SBITS - C::WBITS + 1, "wall_s": t.elapsed().as_secs_f64()}));
}

fn explore_range<C: Cfg>(report: &Report, alphabet: &[Letter], depth: usize, label: &str) {
    let t = std::time::Instant::now();
    let (accs, nodes, trans) = range_walk::<C, Acc, _>(alphabet, depth, |n: &RangeNode<C>, acc: &mut Acc| {
        for (i, d) in range_node::<C>(n.enc, n.hist, n.parent, Some(acc)) {
            acc.violation(i, d, json!({"kind": "range_history", "cfg": C::NAME, "letters": letters_json(n.hist)}));
        }
        if acc.samples.is_empty() && n.hist.len() >= 4 {
            acc.samples.push(json!({"coder": "range", "cfg": C::NAME, "letters": letters_json(n.hist), "num_bits": n.enc.num_bits(),
                "sum_info": n.hist.iter().map(|l| l.info()).sum::<f64>()}));
        }
    });
    report.add_states(nodes);
    report.add_transitions(trans);
    report.add_traces(nodes);
    let max = merge_accs(report, accs, &NAMES);
    report.section(json!({"coder": "range", "cfg": C::NAME, "alphabet": label, "alphabet_size": alphabet.len(), "depth": depth, "nodes": nodes,
        "max_observed_num_bits_minus_sum_info_minus_sum_eps": max[1], "constant_allowed": C::SBITS, "wall_s": t.elapsed().as_secs_f64()}));
}

pub fn run(report: &Report) {
    use crate::models::*;
    let q = report.tier == Tier::Quick;
    report.bound("every node of the encode-only ANS walk from the empty coder and of the range-coder sequence walk up to the listed depths; the global bound AND the inductive per-step inequality of its proof are evaluated at every node/edge");
    report.assume("bounds evaluated in f64 with 1e-6 bit tolerance");
    for n in ["ans_steps_in_regime_checked", "ans_steps_with_flush", "ans_nodes_with_zero_headroom_precision", "range_steps_with_renormalisation"] {
        report.require(n);
    }
    // advertised near-optimality of the default presets: per-symbol rounding term < 0.006 bit
    let e_ans = (1.0 + 2f64.powi(-(64 - 32 - 24))).log2();
    let e_rng = -(1.0 - 2f64.powi(-(64 - 32 - 24))).log2();
    report.count("preset_constant_checks", 2);
    if !(e_ans < 0.006 && e_rng < 0.006) {
        report.violation(Violation { identity: "default presets | per-symbol term >= 0.006 bit".into(), detail: format!("{e_ans} {e_rng}"), case: json!({"kind": "none"}) });
    }
    report.section(json!({"default_preset_per_symbol_term_bits": {"ans": e_ans, "range": e_rng}}));
    explore_ans::<U8U16>(report, &small_alphabet::<U8U16>(), if q { 6 } else { 7 }, "mixed-precision-14");
    explore_ans::<U8U16>(report, &pairs_alphabet::<U8U16>(), if q { 3 } else { 4 }, "all-pairs P<=3 + extremes");
    explore_ans::<U8U32>(report, &small_alphabet::<U8U32>(), if q { 6 } else { 7 }, "mixed-precision-14");
    explore_ans::<U8U32>(report, &range_alphabet12::<U8U32>(), if q { 6 } else { 7 }, "a12@P8");
    explore_ans::<U8U64>(report, &small_alphabet::<U8U64>(), if q { 5 } else { 6 }, "mixed-precision-14");
    explore_ans::<U16U32>(report, &small_alphabet::<U16U32>(), if q { 5 } else { 6 }, "mixed-precision-14");
    explore_ans::<U16U32>(report, &range_alphabet12::<U16U32>(), if q { 5 } else { 6 }, "a12@P16");
    explore_ans::<U16U64>(report, &small_alphabet::<U16U64>(), if q { 4 } else { 5 }, "mixed-precision-14");
    explore_ans::<U32U64>(report, &small_alphabet::<U32U64>(), if q { 5 } else { 6 }, "mixed-precision-14");
    explore_ans::<U32U64>(report, &range_alphabet12::<U32U64>(), if q { 5 } else { 6 }, "a12@P32");
    explore_ans::<U64U128>(report, &small_alphabet::<U64U128>(), if q { 4 } else { 5 }, "mixed-precision-14");
    explore_range::<U8U16>(report, &small_alphabet::<U8U16>(), if q { 5 } else { 6 }, "mixed-precision-14");
    explore_range::<U8U16>(report, &range_alphabet12::<U8U16>(), if q { 6 } else { 7 }, "a12@P8 (S-W-P = 0: word bound only)");
    explore_range::<U8U32>(report, &small_alphabet::<U8U32>(), if q { 5 } else { 6 }, "mixed-precision-14");
    explore_range::<U8U32>(report, &range_alphabet12::<U8U32>(), if q { 6 } else { 7 }, "a12@P8");
    explore_range::<U8U32>(report, &range_alphabet5::<U8U32>(), if q { 9 } else { 10 }, "a5@P8");
    explore_range::<U8U64>(report, &range_alphabet12::<U8U64>(), if q { 5 } else { 6 }, "a12@P8");
    explore_range::<U16U32>(report, &small_alphabet::<U16U32>(), if q { 5 } else { 6 }, "mixed-precision-14");
    explore_range::<U16U64>(report, &range_alphabet12::<U16U64>(), if q { 4 } else { 5 }, "a12@P16");
    explore_range::<U32U64>(report, &small_alphabet::<U32U64>(), if q { 5 } else { 6 }, "mixed-precision-14");
    explore_range::<U64U128>(report, &small_alphabet::<U64U128>(), if q { 4 } else { 5 }, "mixed-precision-14");
    super::pyfront::sweep(report, "bounds", if q { 0 } else { 1 },
        "Python AnsCoder / RangeEncoder: messages of 1, 5, 40, 300 (thorough 2000) symbols under 10 models whose fixed-point probabilities are known (Uniform of 6 sizes, Bernoulli(0.5), a dyadic categorical table, a two-symbol Gaussian) in the three call forms and with the coder looked at after every symbol: num_valid_bits / num_bits within information content + n * log2(1 + 2^-8) + 64 (+ one / two words)",
        &[], &[]);
}

fn replay_ans<C: Cfg>(letters: &[Letter]) -> Result<String, String> {
    let mut c = AnsCoder::<C::W, C::S>::new();
    let mut bad = vec![];
    for (i, &l) in letters.iter().enumerate() {
        let parent = Some((c.bulk().len(), c.state().into()));
        C::ans_encode(&mut c, l).map_err(|e| format!("{e:?}"))?;
        bad.extend(ans_node::<C>(&c, &letters[..=i], parent, None));
    }
    if bad.is_empty() { Ok("bound holds at every step".into()) } else { Err(bad.into_iter().map(|(i, d)| format!("[{i}] {d}")).collect::<Vec<_>>().join("\n")) }
}
fn replay_range<C: Cfg>(letters: &[Letter]) -> Result<String, String> {
    let mut e = RangeEncoder::<C::W, C::S>::new();
    let mut bad = vec![];
    for (i, &l) in letters.iter().enumerate() {
        let parent = e.clone();
        C::range_encode(&mut e, l).map_err(|e| format!("{e:?}"))?;
        bad.extend(range_node::<C>(&e, &letters[..=i], Some(&parent), None));
    }
    if bad.is_empty() { Ok("bound holds at every step".into()) } else { Err(bad.into_iter().map(|(i, d)| format!("[{i}] {d}")).collect::<Vec<_>>().join("\n")) }
}

pub fn replay(case: &serde_json::Value) -> Result<String, String> {
    let cfg = case["cfg"].as_str().ok_or("cfg")?;
    let letters = letters_from_json(&case["letters"])?;
    match case["kind"].as_str() {
        Some("ans_letters") => dispatch_cfg!(cfg, replay_ans, &letters),
        Some("range_history") => dispatch_cfg!(cfg, replay_range, &letters),
        _ => Err("unknown case kind".into()),
    }
}
