//! C14 — chain coder decoding is local (implemented next to C13 in c13.rs, which shares the
//! per-(Word,State,PRECISION) instantiations).
pub fn run(report: &crate::report::Report) {
    super::c13::run_c14(report)
}
pub fn replay(case: &serde_json::Value) -> Result<String, String> {
    super::c13::replay(case)
}
