//! C16 — bit-level stack and queue coders are faithful LIFO/FIFO containers.
//!
//! (1) explicit-state BFS over the real `StackCoder<Word>`: canonical key = the coder's complete
//!     Debug representation (backend words, current word, mask) — nothing abstracted, so merged
//!     states have identical futures; states are rebuilt by re-executing their (shortest)
//!     history because the coder is not `Clone`. Ops: write 0/1, read, export->re-import,
//!     inspection (once / twice). Bounded by the bit length; the frontier empties (fixed point).
//!     Reference: `Vec<bool>`.
//! (2) queue encoder: every bit string up to the bound; FIFO read-back, views, padding.
//! (3) Exp-Golomb: every u8 pair and every u16 value, boundary values of u32/u64.
//! (4) symbol codes interleaved with raw bits.

use crate::report::{Report, Tier, Violation};
use constriction::symbol::exp_golomb::ExpGolomb;
use constriction::symbol::huffman::{DecoderHuffmanTree, EncoderHuffmanTree};
use constriction::symbol::{QueueDecoder, QueueEncoder, ReadBitStream, StackCoder, WriteBitStream};
use constriction::{BitArray, UnwrapInfallible};
use rayon::prelude::*;
use serde_json::json;
use std::collections::{HashMap, VecDeque};

#[derive(Clone, Copy, Debug, PartialEq, Eq, Hash)]
pub enum Op {
    W0,
    W1,
    R,
    Reimport,
    Inspect,
    Inspect2,
}
const OPS: [Op; 6] = [Op::W0, Op::W1, Op::R, Op::Reimport, Op::Inspect, Op::Inspect2];

fn op_name(o: Op) -> &'static str {
    match o {
        Op::W0 => "w0",
        Op::W1 => "w1",
        Op::R => "r",
        Op::Reimport => "reimport",
        Op::Inspect => "inspect",
        Op::Inspect2 => "inspect2",
    }
}
fn ops_json(ops: &[Op]) -> serde_json::Value {
    json!(ops.iter().map(|&o| op_name(o)).collect::<Vec<_>>())
}
fn ops_from_json(v: &serde_json::Value) -> Result<Vec<Op>, String> {
    v.as_array().ok_or("ops")?.iter().map(|x| match x.as_str() {
        Some("w0") => Ok(Op::W0),
        Some("w1") => Ok(Op::W1),
        Some("r") => Ok(Op::R),
        Some("reimport") => Ok(Op::Reimport),
        Some("inspect") => Ok(Op::Inspect),
        Some("inspect2") => Ok(Op::Inspect2),
        _ => Err("bad op".to_string()),
    }).collect()
}

/// reference packing: bits fill a word from the least significant end; `terminator` appends a 1 bit
fn pack<W: BitArray>(bits: &[bool], terminator: bool) -> Vec<W> {
    let mut out = vec![];
    let mut cur = W::zero();
    let mut n = 0usize;
    let mut push = |b: bool, out: &mut Vec<W>| {
        if b {
            cur = cur | (W::one() << n);
        }
        n += 1;
        if n == W::BITS {
            out.push(cur);
            cur = W::zero();
            n = 0;
        }
    };
    for &b in bits {
        push(b, &mut out);
    }
    if terminator {
        push(true, &mut out);
    }
    if n != 0 {
        out.push(cur);
    }
    out
}

type Bad = Vec<(String, String)>;

/// Applies one op to the real stack coder and the reference; returns violations.
fn stack_step<W: BitArray>(c: StackCoder<W>, r: &mut Vec<bool>, op: Op, hist: &[Op], bad: &mut Bad) -> Option<StackCoder<W>> {
    let wn = core::any::type_name::<W>();
    let mut c = c;
    match op {
        Op::W0 | Op::W1 => {
            let b = op == Op::W1;
            c.write_bit(b).unwrap_infallible();
            r.push(b);
        }
        Op::R => {
            let got = c.read_bit().unwrap_infallible();
            let exp = r.pop();
            if got != exp {
                bad.push((format!("StackCoder::read_bit | {wn} | returns a different bit than the most recent unread write"), format!("ops {:?}: read {:?}, expected {:?}", hist, got, exp)));
                return None;
            }
        }
        Op::Reimport => {
            let words = c.into_compressed().unwrap_infallible();
            let exp: Vec<W> = pack(r, true);
            if words != exp {
                bad.push((format!("StackCoder::into_compressed | {wn} | exported words differ from the documented packing"), format!("ops {:?}: {:x?}, expected {:x?}", hist, words, exp)));
            }
            match StackCoder::<W>::from_compressed(words.clone()) {
                Ok(c2) => c = c2,
                Err(_) => {
                    bad.push((format!("StackCoder::from_compressed | {wn} | own export rejected"), format!("ops {:?}: words {:x?}", hist, words)));
                    return None;
                }
            }
        }
        Op::Inspect | Op::Inspect2 => {
            // Observational oracle: the view is right, and the coder afterwards still holds exactly the
            // reference content (`len`/`is_empty` below, LIFO drain in `stack_node`); the state reached is
            // a BFS state of its own whose complete future is explored against the reference. (The
            // internal representation may legitimately change: a full pending word can move to the backend.)
            for _ in 0..(if op == Op::Inspect { 1 } else { 2 }) {
                let view = c.get_compressed().to_vec();
                let exp: Vec<W> = pack(r, true);
                if view != exp {
                    bad.push((format!("StackCoder::get_compressed | {wn} | view differs from into_compressed() at that moment"), format!("ops {:?}: view {:x?}, expected {:x?}", hist, view, exp)));
                }
            }
            let mut d = c.as_decoder();
            let mut ok = true;
            for &b in r.iter().rev() {
                if d.read_bit().unwrap_infallible() != Some(b) {
                    ok = false;
                    break;
                }
            }
            if !ok || d.read_bit().unwrap_infallible().is_some() {
                bad.push((format!("StackCoder::get_compressed | {wn} | content changed by the inspection"), format!("ops {:?}: coder now {:?}", hist, c)));
            }
        }
    }
    if c.len() != r.len() {
        bad.push((format!("StackCoder::len | {wn} | reported bit length is not exact"),
            format!("ops {:?} (last {:?}): len {} expected {}", hist, op, c.len(), r.len())));
    }
    if c.is_empty() != r.is_empty() {
        bad.push((format!("StackCoder::is_empty | {wn} | wrong"), format!("ops {:?}: is_empty {} but {} bits", hist, c.is_empty(), r.len())));
    }
    Some(c)
}

fn stack_run<W: BitArray>(hist: &[Op], bad: &mut Bad) -> Option<(StackCoder<W>, Vec<bool>)> {
    let mut c = StackCoder::<W>::new();
    let mut r = vec![];
    for (i, &op) in hist.iter().enumerate() {
        c = stack_step(c, &mut r, op, &hist[..=i], bad)?;
    }
    Some((c, r))
}

/// node checks on a freshly built state: LIFO drain through a temporary decoder, fused end
fn stack_node<W: BitArray>(c: &StackCoder<W>, r: &[bool], hist: &[Op], bad: &mut Bad) {
    let wn = core::any::type_name::<W>();
    let mut d = c.as_decoder();
    for (k, &b) in r.iter().enumerate().rev() {
        let got = d.read_bit().unwrap_infallible();
        if got != Some(b) {
            bad.push((format!("StackCoder::read_bit | {wn} | content differs from the written bits (LIFO order)"), format!("ops {:?}: bit #{k} read as {:?}, expected {b}", hist, got)));
            return;
        }
    }
    for _ in 0..2 {
        if d.read_bit().unwrap_infallible().is_some() {
            bad.push((format!("StackCoder::read_bit | {wn} | yields bits beyond the bottom of the stack"), format!("ops {:?}", hist)));
            return;
        }
    }
    let it: Vec<bool> = c.iter().map(|b| b.unwrap_infallible()).collect();
    let mut exp = r.to_vec();
    exp.reverse();
    if it != exp {
        bad.push((format!("StackCoder::iter | {wn} | differs from the written bits in reverse"), format!("ops {:?}", hist)));
    }
}

struct BfsResult {
    states: u64,
    transitions: u64,
    max_depth: usize,
    fixed_point: bool,
    reimports: u64,
    reimports_with_one_bits_below_terminator: u64,
    inspections_at_word_boundary: u64,
    inspections: u64,
    bad: Bad,
    sample: Option<serde_json::Value>,
    first_bad_hist: HashMap<String, Vec<Op>>,
}

fn stack_bfs<W: BitArray>(max_bits: usize, wbits: usize) -> BfsResult {
    let mut seen: HashMap<String, ()> = HashMap::new();
    let mut q: VecDeque<Vec<Op>> = VecDeque::new();
    let mut res = BfsResult { states: 0, transitions: 0, max_depth: 0, fixed_point: false, reimports: 0, reimports_with_one_bits_below_terminator: 0,
        inspections_at_word_boundary: 0, inspections: 0, bad: vec![], sample: None, first_bad_hist: HashMap::new() };
    let key = |c: &StackCoder<W>, r: &[bool]| format!("{:?}|{}", c, r.iter().map(|&b| if b { '1' } else { '0' }).collect::<String>());
    {
        let c = StackCoder::<W>::new();
        seen.insert(key(&c, &[]), ());
        q.push_back(vec![]);
    }
    while let Some(hist) = q.pop_front() {
        if res.states >= 3_000_000 || res.bad.len() > 10_000 {
            // hard cap (never reached on a correct tree: the state space is bounded by the bit length)
            return res;
        }
        res.states += 1;
        res.max_depth = res.max_depth.max(hist.len());
        let mut bad = vec![];
        let Some((c, r)) = stack_run::<W>(&hist, &mut bad) else {
            panic!("HARNESS: a state that was reachable is no longer reachable: {:?} {:?}", hist, bad);
        };
        stack_node(&c, &r, &hist, &mut bad);
        if res.sample.is_none() && r.len() > wbits + 2 && hist.contains(&Op::Reimport) {
            res.sample = Some(json!({"word_bits": wbits, "ops": ops_json(&hist), "content_bits": r.iter().map(|&b| b as u8).collect::<Vec<_>>(), "coder": format!("{:?}", c)}));
        }
        drop(c);
        for &op in &OPS {
            if matches!(op, Op::W0 | Op::W1) && r.len() >= max_bits {
                continue;
            }
            let mut h2 = hist.clone();
            h2.push(op);
            let mut b2 = vec![];
            // re-execute (the coder is not Clone)
            let Some((c0, mut r2)) = stack_run::<W>(&hist, &mut vec![]) else { unreachable!() };
            res.transitions += 1;
            match op {
                Op::Reimport => {
                    res.reimports += 1;
                    let top = r2.len() % wbits;
                    if r2[r2.len() - top..].iter().any(|&b| b) {
                        res.reimports_with_one_bits_below_terminator += 1;
                    }
                }
                Op::Inspect | Op::Inspect2 => {
                    res.inspections += 1;
                    if r2.len() % wbits == 0 || (r2.len() + 1) % wbits == 0 {
                        res.inspections_at_word_boundary += 1;
                    }
                }
                _ => {}
            }
            let c2 = stack_step(c0, &mut r2, op, &h2, &mut b2);
            // never expand beyond a violating transition (the reference and the coder have diverged)
            let c2 = if b2.is_empty() { c2 } else { None };
            for (i, d) in b2 {
                res.first_bad_hist.entry(i.clone()).or_insert_with(|| h2.clone());
                res.bad.push((i, d));
            }
            if let Some(c2) = c2 {
                let k = key(&c2, &r2);
                if !seen.contains_key(&k) {
                    seen.insert(k, ());
                    q.push_back(h2);
                }
            }
        }
        for (i, d) in bad {
            res.first_bad_hist.entry(i.clone()).or_insert_with(|| hist.clone());
            res.bad.push((i, d));
        }
    }
    res.fixed_point = true;
    res
}

fn report_bfs<W: BitArray>(report: &Report, max_bits: usize, only_inspection: bool) {
    report_bfs_f::<W>(report, max_bits, if only_inspection { 1 } else { 0 })
}
/// filter: 0 = everything (C16), 1 = inspection identities (C08), 2 = size / emptiness / exhaustion queries (C18)
fn keep(identity: &str, filter: u8) -> bool {
    match filter {
        0 => true,
        1 => identity.contains("get_compressed") || identity.contains("as_decoder"),
        _ => identity.contains("maybe_exhausted") || identity.contains("::len") || identity.contains("is_empty"),
    }
}
fn report_bfs_f<W: BitArray>(report: &Report, max_bits: usize, filter: u8) {
    let wbits = W::BITS;
    let t = std::time::Instant::now();
    let r = stack_bfs::<W>(max_bits, wbits);
    report.add_states(r.states);
    report.add_transitions(r.transitions);
    report.add_traces(r.states);
    if !r.fixed_point {
        report.cap_hit(format!("StackCoder BFS ({} bit words) stopped at {} states / {} violations before reaching a fixed point", wbits, r.states, r.bad.len()));
    }
    report.count("stack_reimports", r.reimports);
    report.count("stack_reimports_with_one_bits_below_terminator", r.reimports_with_one_bits_below_terminator);
    report.count("bit_coder_inspections", r.inspections);
    report.count("bit_coder_inspections_at_word_boundary", r.inspections_at_word_boundary);
    if let Some(s) = r.sample {
        report.sample(s);
    }
    for (i, d) in r.bad {
        if !keep(&i, filter) {
            // C08 only judges inspections; other defects of the bit coders are C16's verdict
            report.count("non_inspection_anomalies_left_to_C16", 1);
            continue;
        }
        let h = r.first_bad_hist.get(&i).cloned().unwrap_or_default();
        report.violation(Violation { identity: i, detail: d, case: json!({"kind": "bit_ops", "coder": "stack", "word_bits": wbits, "ops": ops_json(&h)}) });
    }
    report.section(json!({"part": "StackCoder explicit-state BFS", "word_bits": wbits, "max_content_bits": max_bits, "distinct_states": r.states,
        "transitions": r.transitions, "max_depth": r.max_depth, "fixed_point_reached": r.fixed_point, "wall_s": t.elapsed().as_secs_f64()}));
}

// ------------------------------------------------------------------------------------------
// queue

fn queue_case<W: BitArray>(bits: &[bool], bad: &mut Bad, counters: &mut [u64; 4]) {
    let wn = core::any::type_name::<W>();
    let mut c = QueueEncoder::<W>::new();
    for (i, &b) in bits.iter().enumerate() {
        c.write_bit(b).unwrap_infallible();
        if c.len() != i + 1 {
            bad.push((format!("QueueEncoder::len | {wn} | reported bit length is not exact"), format!("bits {:?}: after {} writes len {}", bits, i + 1, c.len())));
        }
    }
    if c.len() != bits.len() || c.is_empty() != bits.is_empty() {
        bad.push((format!("QueueEncoder::len | {wn} | reported bit length is not exact"), format!("bits {:?}: len {} is_empty {}", bits, c.len(), c.is_empty())));
    }
    let exp: Vec<W> = pack(bits, false);
    let before = format!("{:?}", c);
    for _ in 0..2 {
        let view = c.get_compressed().to_vec();
        counters[0] += 1;
        if bits.len() % W::BITS == 0 {
            counters[1] += 1;
        }
        if view != exp {
            bad.push((format!("QueueEncoder::get_compressed | {wn} | view differs from into_compressed() at that moment"), format!("bits {:?}: view {:x?} expected {:x?}", bits, view, exp)));
        }
    }
    if format!("{:?}", c) != before {
        counters[3] += 1; // representation changed (not a violation by itself; futures are compared below)
    }
    // continue after the inspection with every continuation of up to 3 bits and one of W::BITS bits; compare with an uninspected twin
    for cont in 0..15u32 {
        let (clen, cbits) = match cont { 0..=1 => (1, cont), 2..=5 => (2, cont - 2), 6..=13 => (3, cont - 6), _ => (W::BITS, 0x5555_5555) };
        let mut twin = QueueEncoder::<W>::new();
        let mut c2 = QueueEncoder::<W>::new();
        for &b in bits {
            twin.write_bit(b).unwrap_infallible();
            c2.write_bit(b).unwrap_infallible();
        }
        let _ = c2.get_compressed().len();
        let _ = c2.get_compressed().len();
        for i in 0..clen {
            let b = cbits >> (i % 32) & 1 == 1;
            twin.write_bit(b).unwrap_infallible();
            c2.write_bit(b).unwrap_infallible();
        }
        if c2.len() != twin.len() || c2.into_compressed().unwrap_infallible() != twin.into_compressed().unwrap_infallible() {
            bad.push((format!("QueueEncoder::get_compressed | {wn} | final output differs from the uninspected twin"), format!("bits {:?} continuation #{cont}", bits)));
        }
    }
    let words = {
        let mut c3 = QueueEncoder::<W>::new();
        for &b in bits {
            c3.write_bit(b).unwrap_infallible();
        }
        c3.into_compressed().unwrap_infallible()
    };
    if words != exp {
        bad.push((format!("QueueEncoder::into_compressed | {wn} | exported words differ from the documented packing"), format!("bits {:?}: {:x?} expected {:x?}", bits, words, exp)));
    }
    let mut d = c.into_decoder().unwrap_infallible();
    for (k, &b) in bits.iter().enumerate() {
        // with at least one whole unread word left the decoder must not claim exhaustion
        // (words the decoder has not pulled from its source yet = all words - words touched by the k bits read)
        if (bits.len() + W::BITS - 1) / W::BITS > (k + W::BITS - 1) / W::BITS && d.maybe_exhausted() {
            bad.push((format!("QueueDecoder::maybe_exhausted | {wn} | true although whole words are unread"), format!("bits {:?} at {k}", bits)));
        }
        let got = d.read_bit().unwrap_infallible();
        if got != Some(b) {
            bad.push((format!("QueueDecoder::read_bit | {wn} | bits come back in a different order than written"), format!("bits {:?}: bit #{k} read as {:?}", bits, got)));
            return;
        }
    }
    counters[2] += 1;
    if !d.maybe_exhausted() {
        bad.push((format!("QueueDecoder::maybe_exhausted | {wn} | false after consuming exactly the written bits"), format!("bits {:?}", bits)));
    }
    // zero padding up to the word boundary, then end (fused)
    let mut pad = 0;
    while let Some(b) = d.read_bit().unwrap_infallible() {
        pad += 1;
        if b {
            bad.push((format!("QueueEncoder::into_compressed | {wn} | non-zero padding"), format!("bits {:?}", bits)));
        }
        if pad > W::BITS {
            bad.push((format!("QueueDecoder::read_bit | {wn} | more padding than one word"), format!("bits {:?}", bits)));
            break;
        }
    }
    if d.read_bit().unwrap_infallible().is_some() {
        bad.push((format!("QueueDecoder::read_bit | {wn} | not fused after the end"), format!("bits {:?}", bits)));
    }
    // a decoder constructed directly over the words
    let mut d2 = QueueDecoder::<W, _>::from_compressed(constriction::backends::Cursor::new_at_write_beginning(words.clone()));
    for (k, &b) in bits.iter().enumerate() {
        if d2.read_bit().unwrap_infallible() != Some(b) {
            bad.push((format!("QueueDecoder::read_bit | {wn} | bits come back in a different order than written"), format!("bits {:?}: bit #{k} (decoder over words)", bits)));
            break;
        }
    }
    // ... and over an iterator-backed source, which keeps the trait's default `maybe_exhausted()` ("maybe": always true)
    let mut d3 = QueueDecoder::<W, _>::from_compressed(constriction::backends::FallibleIteratorReadWords::new(words.iter().map(|&w| Ok::<W, core::convert::Infallible>(w))));
    for (k, &b) in bits.iter().enumerate() {
        if d3.read_bit().ok().flatten() != Some(b) {
            bad.push((format!("QueueDecoder::read_bit | {wn} | over an iterator-backed source bits do not come back as written"), format!("bits {:?}: bit #{k}", bits)));
            break;
        }
    }
}

fn queue_enum<W: BitArray>(report: &Report, max_bits: usize, only_inspection: bool) {
    queue_enum_f::<W>(report, max_bits, if only_inspection { 1 } else { 0 })
}
fn queue_enum_f<W: BitArray>(report: &Report, max_bits: usize, filter: u8) {
    let t = std::time::Instant::now();
    let results: Vec<(Bad, [u64; 4], u64)> = (0..=max_bits)
        .into_par_iter()
        .flat_map(|len| {
            let chunks: Vec<(usize, u64, u64)> = if len <= 10 { vec![(len, 0, 1u64 << len)] } else {
                let n = 1u64 << len;
                let step = n / 64;
                (0..64).map(|i| (len, i * step, (i + 1) * step)).collect()
            };
            chunks
        })
        .map(|(len, from, to)| {
            let mut bad = vec![];
            let mut counters = [0u64; 4];
            let mut n = 0;
            for v in from..to {
                let bits: Vec<bool> = (0..len).map(|i| v >> i & 1 == 1).collect();
                queue_case::<W>(&bits, &mut bad, &mut counters);
                n += 1;
                if bad.len() > 20 {
                    break;
                }
            }
            (bad, counters, n)
        })
        .collect();
    let mut total = 0;
    for (bad, c, n) in results {
        total += n;
        report.count("bit_coder_inspections", c[0]);
        report.count("bit_coder_inspections_at_word_boundary", c[1]);
        report.count("queue_full_readbacks", c[2]);
        for (i, d) in bad {
            if !keep(&i, filter) {
                report.count("non_inspection_anomalies_left_to_C16", 1);
                continue;
            }
            report.violation(Violation { identity: i, detail: d, case: json!({"kind": "none"}) });
        }
    }
    report.add_states(total);
    report.add_transitions(total * 3);
    report.add_traces(total);
    report.section(json!({"part": "QueueEncoder/QueueDecoder: all bit strings", "word_bits": W::BITS, "max_bits": max_bits, "bit_strings": total, "wall_s": t.elapsed().as_secs_f64()}));
}

// ------------------------------------------------------------------------------------------
// Exp-Golomb

fn eg_reference(v: u128, bits: u32) -> Vec<bool> {
    // order-0 Exp-Golomb of v for a `bits`-wide unsigned type: n+1 in binary preceded by len zeros
    let max = if bits == 128 { u128::MAX } else { (1u128 << bits) - 1 };
    if v == max {
        let mut o = vec![false; bits as usize];
        o.push(true);
        o.extend(vec![false; bits as usize]);
        return o;
    }
    let n1 = v + 1;
    let len = 127 - n1.leading_zeros();
    let mut o = vec![false; len as usize];
    for i in (0..=len).rev() {
        o.push(n1 >> i & 1 == 1);
    }
    o
}

macro_rules! eg_checks {
    ($report:expr, $N:ty, $values:expr, $W:ty, $label:expr) => {{
        let cb = ExpGolomb::<$N>::new();
        let values: Vec<$N> = $values;
        let bad: Vec<(String, String)> = values.par_iter().flat_map(|&v| {
            let mut bad = vec![];
            let wn = concat!("ExpGolomb<", stringify!($N), "> over ", stringify!($W), " words");
            let other: $N = v ^ (<$N>::MAX / 3);
            // queue: prefix form, FIFO
            let mut q = QueueEncoder::<$W>::new();
            q.encode_symbol(v, &cb).unwrap();
            q.encode_symbol(other, &cb).unwrap();
            let mut exp = eg_reference(v as u128, <$N>::BITS);
            exp.extend(eg_reference(other as u128, <$N>::BITS));
            if q.len() != exp.len() {
                bad.push((format!("{wn} | code length differs from order-0 Exp-Golomb"), format!("value {v}: {} bits expected {}", q.len(), exp.len())));
            }
            let words = { let mut q2 = QueueEncoder::<$W>::new(); q2.encode_symbol(v, &cb).unwrap(); q2.encode_symbol(other, &cb).unwrap(); q2.into_compressed().unwrap_infallible() };
            if words != pack::<$W>(&exp, false) {
                bad.push((format!("{wn} | code bits differ from order-0 Exp-Golomb"), format!("value {v}")));
            }
            let mut d = q.into_decoder().unwrap_infallible();
            let a = d.decode_symbol(&cb).ok();
            let b = d.decode_symbol(&cb).ok();
            if a != Some(v) || b != Some(other) {
                bad.push((format!("{wn} | queue round trip"), format!("values ({v},{other}) decoded as ({:?},{:?})", a, b)));
            }
            // stack: suffix form, LIFO
            let mut s = StackCoder::<$W>::new();
            s.encode_symbol(v, &cb).unwrap();
            s.encode_symbol(other, &cb).unwrap();
            let words = { let mut s2 = StackCoder::<$W>::new(); s2.encode_symbol(v, &cb).unwrap(); s2.encode_symbol(other, &cb).unwrap(); s2.into_compressed().unwrap_infallible() };
            let mut s3 = match StackCoder::<$W>::from_compressed(words) { Ok(s3) => s3, Err(_) => { bad.push((format!("{wn} | stack export rejected"), format!("value {v}"))); return bad; } };
            for st in [&mut s, &mut s3] {
                let a = st.decode_symbol(&cb).ok();
                let b = st.decode_symbol(&cb).ok();
                if a != Some(other) || b != Some(v) || !st.is_empty() {
                    bad.push((format!("{wn} | stack round trip"), format!("values ({v},{other}) decoded as ({:?},{:?}), empty {}", a, b, st.is_empty())));
                }
            }
            bad
        }).collect();
        $report.count("exp_golomb_values", values.len() as u64);
        $report.add_traces(values.len() as u64);
        $report.add_transitions(values.len() as u64 * 8);
        for (i, d) in bad {
            $report.violation(Violation { identity: i, detail: d, case: json!({"kind": "none"}) });
        }
        $report.section(json!({"part": "Exp-Golomb", "type": stringify!($N), "word": stringify!($W), "values": values.len(), "which": $label}));
    }};
}

// ------------------------------------------------------------------------------------------
// symbol codes interleaved with raw bits

#[derive(Clone, Copy, Debug, PartialEq)]
enum Item {
    Bit(bool),
    Eg(u8),
    Huff(usize),
}

/// long symbol-code words through both coders: codebooks whose codewords are longer than a word, than 64 and
/// than 128 bits (Fibonacci / geometric weights), every symbol encoded into a stack and a queue over u8, u32
/// and u64 words and decoded back — in reverse order from the stack, in order from the queue
fn long_codewords(report: &Report) {
    let mut bad: Bad = vec![];
    let mut n = 0u64;
    let mut longest = 0usize;
    let books: Vec<(String, EncoderHuffmanTree, DecoderHuffmanTree, usize)> = {
        let fib: Vec<u64> = { let mut v = vec![1u64, 1]; while v.len() < 90 { let k = v.len(); v.push(v[k - 1] + v[k - 2]); } v };
        let geo: Vec<u128> = (0..120).map(|i| 1u128 << i).collect();
        let fl: Vec<f64> = (0..200).map(|i| (2.0f64).powi(i - 60)).collect();
        vec![
            ("90 Fibonacci weights (u64)".into(), EncoderHuffmanTree::from_probabilities::<u64, _>(&fib), DecoderHuffmanTree::from_probabilities::<u64, _>(&fib), 90),
            ("120 weights 2^i (u128)".into(), EncoderHuffmanTree::from_probabilities::<u128, _>(&geo), DecoderHuffmanTree::from_probabilities::<u128, _>(&geo), 120),
            ("200 weights 2^(i-60) (f64)".into(), EncoderHuffmanTree::from_float_probabilities::<f64, _>(&fl).unwrap(), DecoderHuffmanTree::from_float_probabilities::<f64, _>(&fl).unwrap(), 200),
        ]
    };
    macro_rules! go {
        ($W:ty) => {{
            for (name, enc, dec, nsym) in &books {
                let wn = stringify!($W);
                // all symbols in one stream, deepest leaves first and last
                let order: Vec<usize> = (0..*nsym).chain((0..*nsym).rev().step_by(7)).collect();
                let mut st = StackCoder::<$W>::new();
                let mut qe = QueueEncoder::<$W>::new();
                let mut bits = 0usize;
                for &s in &order {
                    let b0 = st.len();
                    if st.encode_symbol(s, enc).is_err() || qe.encode_symbol(s, enc).is_err() {
                        bad.push((format!("{wn} | symbol of the codebook refused"), format!("{name}: symbol {s}")));
                    }
                    // (a coder whose length SHRINKS on a write is judged by the order checks below, not by a harness overflow)
                    longest = longest.max(st.len().saturating_sub(b0));
                    bits += st.len().saturating_sub(b0);
                    n += 2;
                }
                if st.len() != bits || qe.len() != bits {
                    bad.push((format!("StackCoder/QueueEncoder::len | {wn} | reported bit length is not exact"), format!("{name}: stack {} queue {} written {bits}", st.len(), qe.len())));
                }
                let back: Vec<Option<usize>> = order.iter().rev().map(|_| st.decode_symbol(dec).ok()).collect();
                if back != order.iter().rev().map(|&s| Some(s)).collect::<Vec<_>>() || !st.is_empty() {
                    let k = back.iter().zip(order.iter().rev()).position(|(a, b)| *a != Some(*b));
                    bad.push((format!("StackCoder | {wn} | long symbol-code words do not come back in reverse order"), format!("{name}: first difference at read #{:?}", k)));
                }
                let mut qd = qe.into_decoder().unwrap_infallible();
                let fwd: Vec<Option<usize>> = order.iter().map(|_| qd.decode_symbol(dec).ok()).collect();
                if fwd != order.iter().map(|&s| Some(s)).collect::<Vec<_>>() {
                    let k = fwd.iter().zip(order.iter()).position(|(a, b)| *a != Some(*b));
                    bad.push((format!("QueueEncoder | {wn} | long symbol-code words do not come back in order"), format!("{name}: first difference at read #{:?}", k)));
                }
            }
        }};
    }
    go!(u8);
    go!(u32);
    go!(u64);
    report.count("long_codeword_symbols_through_bit_coders", n);
    report.count("longest_codeword_bits_through_bit_coders", longest as u64);
    report.add_transitions(n);
    if longest < 150 && bad.is_empty() { panic!("HARNESS: the long-codeword books must exceed 150 bits, got {longest}"); }
    for (i, d) in bad { report.violation(Violation { identity: i, detail: d, case: json!({"kind": "none"}) }); }
}

/// the convenience constructors and iterators are the same containers: `with_bit_capacity`, `into_iterator`,
/// `iter`, `into_overshooting_iter` on every bit string of length <= `max_bits`
fn wrapper_apis<W: BitArray>(report: &Report, max_bits: usize) {
    let wn = core::any::type_name::<W>();
    let mut bad: Bad = vec![];
    let mut n = 0u64;
    for len in 0..=max_bits {
        for v in 0..(1u64 << len) {
            let bits: Vec<bool> = (0..len).map(|i| v >> i & 1 == 1).collect();
            n += 1;
            let mut a = StackCoder::<W>::new();
            let mut b = StackCoder::<W>::with_bit_capacity(len / 2);
            let mut qa = QueueEncoder::<W>::new();
            let mut qb = QueueEncoder::<W>::with_bit_capacity(len / 2);
            for &x in &bits { a.write_bit(x).unwrap_infallible(); b.write_bit(x).unwrap_infallible(); qa.write_bit(x).unwrap_infallible(); qb.write_bit(x).unwrap_infallible(); }
            if a.len() != b.len() || qa.len() != qb.len() {
                bad.push((format!("with_bit_capacity | {wn} | coder differs from one made with new()"), format!("bits {:?}", bits)));
            }
            let rev: Vec<bool> = bits.iter().rev().cloned().collect();
            let it: Vec<bool> = b.iter().map(|x| x.unwrap_infallible()).collect();
            let owned: Vec<bool> = b.into_iterator().map(|x| x.unwrap_infallible()).collect();
            if it != rev || owned != rev {
                bad.push((format!("StackCoder::iter / into_iterator | {wn} | bits do not come back in reverse order"), format!("bits {:?}: iter {:?} into_iterator {:?}", bits, it, owned)));
            }
            if a.into_compressed().unwrap_infallible() != { let mut t = StackCoder::<W>::with_bit_capacity(3); for &x in &bits { t.write_bit(x).unwrap_infallible(); } t.into_compressed().unwrap_infallible() } {
                bad.push((format!("with_bit_capacity | {wn} | exported words differ from a coder made with new()"), format!("bits {:?}", bits)));
            }
            let words_a = qa.into_compressed().unwrap_infallible();
            let over: Vec<bool> = match qb.into_overshooting_iter() { Ok(i) => i.map(|x| x.unwrap_infallible()).collect(), Err(_) => vec![] };
            let padded = (len + W::BITS - 1) / W::BITS * W::BITS;
            if over.len() != padded || over[..len] != bits[..] || over[len..].iter().any(|&x| x) || words_a.len() * W::BITS != padded {
                bad.push((format!("QueueEncoder::into_overshooting_iter | {wn} | does not yield the written bits followed by zero padding up to the word boundary"), format!("bits {:?}: got {:?}", bits, over)));
            }
            if bad.len() > 10 { break; }
        }
    }
    report.count("wrapper_api_bit_strings", n);
    report.add_transitions(n * 4);
    for (i, d) in bad { report.violation(Violation { identity: i, detail: d, case: json!({"kind": "none"}) }); }
}

fn mixed_sequences(report: &Report, depth: usize) {
    let items = [Item::Bit(false), Item::Bit(true), Item::Eg(0), Item::Eg(4), Item::Eg(255), Item::Huff(0), Item::Huff(2)];
    let henc = EncoderHuffmanTree::from_probabilities::<u32, _>(&[3u32, 1, 2]);
    let hdec = DecoderHuffmanTree::from_probabilities::<u32, _>(&[3u32, 1, 2]);
    let eg = ExpGolomb::<u8>::new();
    let mut total = 0u64;
    let mut bad: Bad = vec![];
    for len in 0..=depth {
        let n = items.len().pow(len as u32);
        let res: Vec<Bad> = (0..n).into_par_iter().map(|idx| {
            let seq: Vec<Item> = (0..len).map(|i| items[idx / items.len().pow(i as u32) % items.len()]).collect();
            let mut bad = vec![];
            // stack: write all, export/re-import in the middle, read back in reverse
            let mut s = StackCoder::<u8>::new();
            for (i, it) in seq.iter().enumerate() {
                match *it {
                    Item::Bit(b) => s.write_bit(b).unwrap_infallible(),
                    Item::Eg(v) => s.encode_symbol(v, &eg).unwrap(),
                    Item::Huff(k) => s.encode_symbol(k, &henc).unwrap(),
                }
                if i == len / 2 {
                    let w = s.into_compressed().unwrap_infallible();
                    s = match StackCoder::<u8>::from_compressed(w) { Ok(s) => s, Err(_) => { bad.push(("StackCoder::from_compressed | u8 | own export rejected".to_string(), format!("items {:?}", seq))); return bad; } };
                }
            }
            for it in seq.iter().rev() {
                let ok = match *it {
                    Item::Bit(b) => s.read_bit().unwrap_infallible() == Some(b),
                    Item::Eg(v) => s.decode_symbol(&eg).ok() == Some(v),
                    Item::Huff(k) => s.decode_symbol(&hdec).ok() == Some(k),
                };
                if !ok {
                    bad.push(("StackCoder | u8 | symbol codes interleaved with bits do not come back in reverse order".to_string(), format!("items {:?} at {:?}", seq, it)));
                    break;
                }
            }
            if bad.is_empty() && !s.is_empty() {
                bad.push(("StackCoder | u8 | not empty after reading everything back".to_string(), format!("items {:?}", seq)));
            }
            // queue
            let mut q = QueueEncoder::<u8>::new();
            for it in &seq {
                match *it {
                    Item::Bit(b) => q.write_bit(b).unwrap_infallible(),
                    Item::Eg(v) => q.encode_symbol(v, &eg).unwrap(),
                    Item::Huff(k) => q.encode_symbol(k, &henc).unwrap(),
                }
            }
            let mut d = q.into_decoder().unwrap_infallible();
            for it in &seq {
                let ok = match *it {
                    Item::Bit(b) => d.read_bit().unwrap_infallible() == Some(b),
                    Item::Eg(v) => d.decode_symbol(&eg).ok() == Some(v),
                    Item::Huff(k) => d.decode_symbol(&hdec).ok() == Some(k),
                };
                if !ok {
                    bad.push(("QueueEncoder | u8 | symbol codes interleaved with bits do not come back in order".to_string(), format!("items {:?} at {:?}", seq, it)));
                    break;
                }
            }
            bad
        }).collect();
        total += n as u64;
        for b in res {
            bad.extend(b);
        }
    }
    report.count("mixed_item_sequences", total);
    report.add_traces(total);
    report.add_transitions(total * depth as u64);
    for (i, d) in bad {
        report.violation(Violation { identity: i, detail: d, case: json!({"kind": "none"}) });
    }
    report.section(json!({"part": "raw bits interleaved with Exp-Golomb and Huffman code words (stack with re-import in the middle, and queue)", "items": 7, "max_len": depth, "sequences": total}));
}

/// A word sink / source whose k-th write fails once (a full disk, a dropped connection) and works again afterwards.
#[derive(Clone, Debug, Default)]
struct FailOnce<W> { buf: Vec<W>, writes: usize, k: usize }
impl<W: Clone> constriction::backends::WriteWords<W> for FailOnce<W> {
    type WriteError = ();
    fn write(&mut self, word: W) -> Result<(), ()> {
        self.writes += 1;
        if self.writes - 1 == self.k { Err(()) } else { self.buf.push(word); Ok(()) }
    }
}
impl<W: Clone> constriction::backends::ReadWords<W, constriction::Stack> for FailOnce<W> {
    type ReadError = core::convert::Infallible;
    fn read(&mut self) -> Result<Option<W>, Self::ReadError> { Ok(self.buf.pop()) }
}

/// a queue encoder started on words that are already there (`from_compressed`), looked at before and between its own bits:
/// the view shows the words plus what was written, and the final export is the words followed by the bits
fn prefilled_queue<W: BitArray>(report: &Report) where u64: num_traits::AsPrimitive<W> {
    let wn = core::any::type_name::<W>();
    let mut bad: Bad = vec![];
    let mut n = 0u64;
    let w = |x: u64| -> W { num_traits::AsPrimitive::<W>::as_(x) };
    for prefix_len in 1..=3usize {
        let prefix: Vec<W> = (0..prefix_len).map(|i| w([0xabu64, 0, 0xd5][i])).collect();
        for nbits in 0..=(W::BITS + 2) {
            for pattern in 0..3u32 {
                n += 1;
                let bit = |i: usize| match pattern { 0 => false, 1 => true, _ => i % 3 == 0 };
                let mut plain = QueueEncoder::<W>::from_compressed(prefix.clone());
                let mut looked = QueueEncoder::<W>::from_compressed(prefix.clone());
                let first: Vec<W> = looked.get_compressed().to_vec();
                if first != prefix {
                    bad.push((format!("QueueEncoder::get_compressed | {wn} | a view taken before the first bit of an encoder started on existing words does not show exactly those words"), format!("{} words: {:?}", prefix_len, first.len())));
                }
                for i in 0..nbits {
                    plain.write_bit(bit(i)).unwrap_infallible();
                    looked.write_bit(bit(i)).unwrap_infallible();
                    let _ = looked.get_compressed().len();
                }
                let (a, b) = (plain.into_compressed().unwrap_infallible(), looked.into_compressed().unwrap_infallible());
                if a != b || a.len() < prefix_len || a[..prefix_len] != prefix[..] {
                    bad.push((format!("QueueEncoder | {wn} | an encoder started on existing words and looked at on the way exports something else than the words followed by its bits"), format!("{prefix_len} words, {nbits} bits of pattern {pattern}: {} vs {} words", b.len(), a.len())));
                }
            }
        }
    }
    report.add_transitions(n);
    report.count("queue_encoders_started_on_existing_words", n);
    for (i, d) in bad { report.violation(Violation { identity: i, detail: d, case: json!({"kind": "none"}) }); }
}

/// bits ACCEPTED by a coder (write_bit returned Ok) come back in order also when some writes in between were refused
/// because the sink failed: a refused bit is retried once; nothing that was accepted may be lost or doubled
fn accepted_bits_survive_sink_errors<W: BitArray>(report: &Report) {
    let wn = core::any::type_name::<W>();
    let mut bad: Bad = vec![];
    let mut n = 0u64;
    let nbits = 3 * W::BITS + 5;
    for k in 0..4usize {
        for pattern in 0..4u32 {
            let bit = |i: usize| match pattern { 0 => false, 1 => true, 2 => i % 2 == 0, _ => (i * 7 + 3) % 5 < 2 };
            // queue
            let mut q = QueueEncoder::<W, FailOnce<W>>::from_compressed(FailOnce { buf: vec![], writes: 0, k });
            let mut accepted: Vec<bool> = vec![];
            let mut refused = 0;
            for i in 0..nbits {
                n += 1;
                match q.write_bit(bit(i)) {
                    Ok(()) => accepted.push(bit(i)),
                    Err(_) => { refused += 1; if q.write_bit(bit(i)).is_ok() { accepted.push(bit(i)); } else { refused += 1; } }
                }
            }
            if let Ok(sink) = q.into_compressed().or_else(|_| Err(())) {
                let mut d = QueueDecoder::<W, _>::from_compressed(constriction::backends::Cursor::new_at_write_beginning(sink.buf));
                let back: Vec<bool> = (0..accepted.len()).map_while(|_| d.read_bit().ok().flatten()).collect();
                if back != accepted {
                    let at = back.iter().zip(&accepted).position(|(a, b)| a != b);
                    bad.push((format!("QueueEncoder | {wn} | bits accepted around a refused write (sink error) do not come back in order"), format!("sink fails at write #{k}, pattern {pattern}, {refused} refused writes: first difference at bit {:?} of {}", at, accepted.len())));
                }
            }
            // stack
            let mut st = match StackCoder::<W, FailOnce<W>>::from_compressed(FailOnce { buf: vec![], writes: 0, k }) { Ok(s) => s, Err(_) => continue };
            let mut accepted: Vec<bool> = vec![];
            for i in 0..nbits {
                n += 1;
                match st.write_bit(bit(i)) {
                    Ok(()) => accepted.push(bit(i)),
                    Err(_) => { if st.write_bit(bit(i)).is_ok() { accepted.push(bit(i)); } }
                }
            }
            let back: Vec<bool> = (0..accepted.len()).map_while(|_| st.read_bit().ok().flatten()).collect();
            if back != accepted.iter().rev().cloned().collect::<Vec<_>>() {
                bad.push((format!("StackCoder | {wn} | bits accepted around a refused write (sink error) do not come back in reverse order"), format!("sink fails at write #{k}, pattern {pattern}")));
            }
        }
    }
    report.add_transitions(n);
    report.count("bit_writes_around_sink_errors", n);
    for (i, d) in bad { report.violation(Violation { identity: i, detail: d, case: json!({"kind": "none"}) }); }
}

pub fn run(report: &Report) {
    let q = report.tier == Tier::Quick;
    report.bound("StackCoder: all reachable states with at most the listed number of content bits under {write 0, write 1, read, export->re-import, inspect x1/x2} (fixed point); QueueEncoder: every bit string up to the listed length; Exp-Golomb: all u8 pairs (v, v^85), all u16 values, boundary values of u32/u64");
    report.assume("canonical state key is the coder's full Debug representation plus the reference content: nothing is abstracted");
    for n in ["stack_reimports_with_one_bits_below_terminator", "bit_coder_inspections_at_word_boundary", "queue_full_readbacks", "exp_golomb_values"] {
        report.require(n);
    }
    report_bfs::<u8>(report, if q { 13 } else { 18 }, false);
    report_bfs::<u16>(report, if q { 10 } else { 17 }, false);
    report_bfs::<u32>(report, if q { 8 } else { 12 }, false);
    queue_enum::<u8>(report, if q { 14 } else { 18 }, false);
    queue_enum::<u16>(report, if q { 12 } else { 18 }, false);
    queue_enum::<u32>(report, if q { 10 } else { 14 }, false);
    eg_checks!(report, u8, (0..=255u8).collect(), u8, "all values");
    eg_checks!(report, u8, (0..=255u8).collect(), u32, "all values");
    eg_checks!(report, u16, (0..=u16::MAX).collect(), u8, "all values");
    eg_checks!(report, u16, (0..=u16::MAX).step_by(if q { 7 } else { 1 }).collect(), u16, "all values (quick: every 7th)");
    let b32: Vec<u32> = { let mut v = vec![0u32, 1, 2, u32::MAX, u32::MAX - 1]; for k in 1..32 { v.extend([(1u32 << k) - 2, (1u32 << k) - 1, 1u32 << k]); } v.sort(); v.dedup(); v };
    let b64: Vec<u64> = { let mut v = vec![0u64, 1, 2, u64::MAX, u64::MAX - 1]; for k in 1..64 { v.extend([(1u64 << k) - 2, (1u64 << k) - 1, 1u64 << k]); } v.sort(); v.dedup(); v };
    eg_checks!(report, u32, b32.clone(), u8, "boundary values 2^k-2..2^k, MAX");
    eg_checks!(report, u32, b32, u32, "boundary values 2^k-2..2^k, MAX");
    eg_checks!(report, u64, b64.clone(), u32, "boundary values 2^k-2..2^k, MAX");
    eg_checks!(report, u64, b64, u16, "boundary values 2^k-2..2^k, MAX");
    mixed_sequences(report, if q { 5 } else { 7 });
    long_codewords(report);
    wrapper_apis::<u8>(report, if q { 11 } else { 15 });
    wrapper_apis::<u32>(report, if q { 9 } else { 13 });
    prefilled_queue::<u8>(report);
    prefilled_queue::<u32>(report);
    accepted_bits_survive_sink_errors::<u8>(report);
    accepted_bits_survive_sink_errors::<u32>(report);
    super::pyfront::sweep(report, "views", if q { 3 } else { 4 }, "every constructor that takes compressed words (8) on every word string up to the listed length over 6 words, and every call form that takes symbol / parameter arrays (3 coders x 2 forms) on every message up to length 4: a negative-stride view, a stride-2 view and an interior slice must be read like a contiguous copy", &["symbol."], &[]);
    super::pyfront::sweep(report, "symbol", if q { 3 } else { 4 },
        "Python StackCoder / QueueEncoder / QueueDecoder with every Huffman book of the sweep: every message up to 3 symbols comes back reversed from the exported and re-imported stack and in order from both queue decoders; bit rate == sum of codeword lengths; symbols outside the alphabet are refused without changing the coder",
        &[], &["Huffman", "inspections"]);
}

/// The bit-coder part of C08 (inspection never changes the output): same BFS / enumeration,
/// only the inspection-related identities are relevant there.
pub fn inspection_checks(report: &Report) {
    let q = report.tier == Tier::Quick;
    report_bfs::<u8>(report, if q { 11 } else { 17 }, true);
    report_bfs::<u16>(report, if q { 9 } else { 17 }, true);
    queue_enum::<u8>(report, if q { 12 } else { 17 }, true);
    queue_enum::<u16>(report, if q { 10 } else { 17 }, true);
}

/// C18's share: `len` / `is_empty` of the bit stack at every state of the BFS and `maybe_exhausted` of the bit
/// queue decoder after every bit of every bit string
pub fn size_query_checks(report: &Report) {
    let q = report.tier == Tier::Quick;
    report_bfs_f::<u8>(report, if q { 12 } else { 16 }, 2);
    queue_enum_f::<u8>(report, if q { 12 } else { 17 }, 2);
    queue_enum_f::<u16>(report, if q { 10 } else { 17 }, 2);
}

pub fn replay(case: &serde_json::Value) -> Result<String, String> {
    if case["kind"] != "bit_ops" {
        return Err("this violation class has no stand-alone replay; the failing input is in 'detail'".into());
    }
    let ops = ops_from_json(&case["ops"])?;
    let mut bad = vec![];
    let wb = case["word_bits"].as_u64().ok_or("word_bits")?;
    macro_rules! go { ($W:ty) => {{
        if let Some((c, r)) = stack_run::<$W>(&ops, &mut bad) { stack_node(&c, &r, &ops, &mut bad); }
    }}}
    match wb { 8 => go!(u8), 16 => go!(u16), 32 => go!(u32), _ => return Err("word_bits".into()) }
    if bad.is_empty() { Ok(format!("ops {:?}: stack coder agrees with the Vec<bool> reference", ops)) } else { Err(bad.into_iter().map(|(i, d)| format!("[{i}] {d}")).collect::<Vec<_>>().join("\n")) }
}
