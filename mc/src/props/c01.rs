//! C01 — the ANS coder is a lossless stack under any history of pushes, pops and reloads.
//!
//! (1) history DFS over {encode(letter), decode(matching model)} from the empty coder and from
//!     imported word strings; at every node: decode returned the pushed symbol, the export after
//!     popping back to depth k equals the export recorded at depth k, re-import of the export
//!     reproduces (bulk, state) bit for bit, clone is identical, the documented state invariant
//!     holds; batch forms equal the per-symbol loop.
//! (2) single-step induction over ALL head values of AnsCoder<u8,u16>.

use super::common::*;
use crate::dispatch_cfg;
use crate::models::{all_pairs, extremes, part_interval, to_u128, Cfg, Letter, Part, Raw, U8U16};
use crate::report::{Report, Tier};
use crate::walk::{ans_export, ans_walk, merge_accs, Acc, AnsNode, AnsOp};
use constriction::stream::stack::AnsCoder;
use constriction::stream::{Code, Decode, Encode};
use rayon::prelude::*;
use serde_json::json;

pub const NAMES: [&str; 10] = [
    "encode_flushed_a_word",
    "decode_refilled_a_word",
    "decodes_checked",
    "reimports_checked",
    "nodes_with_nonempty_bulk",
    "letters_at_max_precision",
    "head_exactly_at_threshold",
    "mixed_precision_histories",
    "pops_back_to_initial_export",
    "nodes_started_from_imported_words",
];

fn ops_json(ops: &[AnsOp]) -> serde_json::Value {
    serde_json::Value::Array(
        ops.iter()
            .map(|o| match o {
                AnsOp::Enc(l) => json!(["enc", l.prec, l.c, l.p]),
                AnsOp::Dec => json!(["dec"]),
            })
            .collect(),
    )
}

fn ops_from_json(v: &serde_json::Value) -> Result<Vec<AnsOp>, String> {
    v.as_array()
        .ok_or("ops")?
        .iter()
        .map(|o| {
            let a = o.as_array().ok_or("op")?;
            match a[0].as_str() {
                Some("enc") => Ok(AnsOp::Enc(Letter::new(
                    a[1].as_u64().ok_or("prec")? as u8,
                    a[2].as_u64().ok_or("c")?,
                    a[3].as_u64().ok_or("p")?,
                ))),
                Some("dec") => Ok(AnsOp::Dec),
                _ => Err("op kind".to_string()),
            }
        })
        .collect()
}

/// node-level checks shared by explorer and replay
fn node_checks<C: Cfg>(n: &AnsNode<C>) -> Vec<(String, String)> {
    let mut out = vec![];
    let export = n.exports.last().unwrap();
    if let Some(d) = crate::walk::ans_inspection_changes::<C>(n.coder) {
        out.push((format!("AnsCoder | {} | a coder inspected between operations does not continue like the uninspected one", C::NAME), format!("init {:x?} ops {:?}: {d}", n.exports[0], n.ops)));
    }
    if let Some(k) = n.last_dec {
        // the decode that led here must have returned the pushed symbol (part 1 of its model)
        if k != 1 {
            out.push((
                format!("AnsCoder::decode_symbol | {} | pop returns a different symbol than was pushed", C::NAME),
                format!("ops {:?}: decode returned part {k}, expected 1", n.ops),
            ));
        }
        let now = ans_export::<C>(n.coder);
        if &now != export {
            out.push((
                format!("AnsCoder::decode_symbol | {} | export after pop differs from export before the push", C::NAME),
                format!("ops {:?}: export {:x?}, expected {:x?}", n.ops, now, export),
            ));
        }
    }
    // invariant: state >= 2^(S-W) unless bulk empty
    let st: u128 = n.coder.state().into();
    if !n.coder.bulk().is_empty() && st < 1u128 << (C::SBITS - C::WBITS) {
        out.push((
            format!("AnsCoder | {} | state invariant broken", C::NAME),
            format!("ops {:?}: bulk non-empty but state {:x} < 2^(S-W)", n.ops, st),
        ));
    }
    // re-import
    let words = n.coder.clone().into_compressed().unwrap();
    match AnsCoder::<C::W, C::S>::from_compressed(words.clone()) {
        Ok(c2) => {
            if c2.bulk() != n.coder.bulk() || c2.state() != n.coder.state() {
                out.push((
                    format!("AnsCoder::from_compressed | {} | re-import of the export changes the coder", C::NAME),
                    format!(
                        "ops {:?}: (bulk {:x?}, state {:x}) re-imported as (bulk {:x?}, state {:x})",
                        n.ops, to_u128(n.coder.bulk()), st, to_u128(c2.bulk()), c2.state().into()
                    ),
                ));
            }
        }
        Err(_) => out.push((
            format!("AnsCoder::from_compressed | {} | export rejected on re-import", C::NAME),
            format!("ops {:?}: export {:x?} rejected", n.ops, to_u128(&words)),
        )),
    }
    if words.last().map_or(false, |w| Into::<u128>::into(*w) == 0) {
        out.push((
            format!("AnsCoder::into_compressed | {} | export ends in a zero word", C::NAME),
            format!("ops {:?}: export {:x?}", n.ops, to_u128(&words)),
        ));
    }
    out
}

fn visit<C: Cfg>(n: &AnsNode<C>, acc: &mut Acc) {
    let st: u128 = n.coder.state().into();
    let blen = n.coder.bulk().len();
    if let Some((plen, _)) = n.parent {
        if blen > plen {
            acc.c[0] += 1;
        }
        if blen < plen {
            acc.c[1] += 1;
        }
    }
    if n.last_dec.is_some() {
        acc.c[2] += 1;
        if n.stack.is_empty() {
            acc.c[8] += 1;
        }
    }
    acc.c[3] += 1;
    if blen > 0 {
        acc.c[4] += 1;
    }
    if let Some(AnsOp::Enc(l)) = n.ops.last() {
        if l.prec == max_prec::<C>() {
            acc.c[5] += 1;
        }
    }
    if st == 1u128 << (C::SBITS - C::WBITS) {
        acc.c[6] += 1;
    }
    if n.stack.windows(2).any(|w| w[0].prec != w[1].prec) {
        acc.c[7] += 1;
    }
    if !n.exports[0].is_empty() {
        acc.c[9] += 1;
    }
    for (identity, detail) in node_checks::<C>(n) {
        acc.violation(identity, detail, json!({"kind": "ans_history", "cfg": C::NAME, "init": words_json(&n.exports[0]), "ops": ops_json(n.ops)}));
    }
    if acc.samples.is_empty() && n.ops.len() >= 4 && n.last_dec.is_some() && blen > 0 {
        acc.samples.push(json!({"cfg": C::NAME, "init_words": words_json(&n.exports[0]), "ops": ops_json(n.ops),
            "export_now": words_json(n.exports.last().unwrap())}));
    }
}

pub fn import_inits<C: Cfg>() -> Vec<Vec<u128>> {
    let m = if C::WBITS >= 128 { u128::MAX } else { (1u128 << C::WBITS) - 1 };
    let mut inits: Vec<Vec<u128>> = vec![vec![]];
    for a in [1u128, m / 2 + 1, m, 0x5a & m] {
        inits.push(vec![a]);
        for b in [0u128, 1, m] {
            inits.push(vec![b, a]);
            inits.push(vec![b, b, a]);
            inits.push(vec![m, 0, b, a]);
        }
    }
    inits
}

fn explore<C: Cfg>(report: &Report, inits: &[Vec<u128>], alphabet: &[Letter], depth: usize, label: &str) {
    let t = std::time::Instant::now();
    let (accs, nodes, trans) = ans_walk::<C, Acc, _>(inits, alphabet, depth, true, visit::<C>);
    report.add_states(nodes);
    report.add_transitions(trans);
    report.add_traces(nodes);
    let before = report.violation_count();
    merge_accs(report, accs, &NAMES);
    report.section(json!({"cfg": C::NAME, "alphabet": label, "alphabet_size": alphabet.len(), "initial_word_strings": inits.len(),
        "depth": depth, "nodes": nodes, "encode_decode_calls": trans, "violations": report.violation_count() - before,
        "wall_s": t.elapsed().as_secs_f64()}));
}

// ------------------------------------------------------------------------------------------
// batch forms == per-symbol loop

pub fn batch_forms<C: Cfg>(report: &Report, depth: usize)
where
    u64: num_traits::AsPrimitive<C::Pr>,
{
    // same-precision runs (PRECISION is a const generic of the batch call): P = 2 pairs
    const P: usize = 2;
    let letters = all_pairs(P as u8);
    let starts = import_inits::<C>();
    let mut seqs: Vec<Vec<Letter>> = vec![vec![]];
    let mut frontier = seqs.clone();
    for _ in 0..depth {
        frontier = frontier.iter().flat_map(|s| letters.iter().map(move |&l| { let mut q = s.clone(); q.push(l); q })).collect();
        seqs.extend(frontier.iter().cloned());
    }
    let results: Vec<(u64, Vec<(String, String, serde_json::Value)>)> = starts
        .par_iter()
        .map(|init| {
            let mut n = 0u64;
            let mut bad = vec![];
            let words: Vec<C::W> = init.iter().map(|&w| C::w(w)).collect();
            let base = AnsCoder::<C::W, C::S>::from_compressed(words).expect("HARNESS: init");
            for s in &seqs {
                let mk = |l: &Letter| Raw::<C::Pr, P> { c: num_traits::AsPrimitive::as_(l.c), p: num_traits::AsPrimitive::as_(l.p) };
                // reference: per-symbol loop
                let mut a = base.clone();
                for l in s {
                    a.encode_symbol((), mk(l)).unwrap();
                }
                let want = (to_u128(a.bulk()), a.state().into());
                let mut forms: Vec<(&str, AnsCoder<C::W, C::S>)> = vec![];
                let mut b = base.clone();
                b.encode_symbols(s.iter().map(|l| ((), mk(l)))).unwrap();
                forms.push(("encode_symbols", b));
                let mut b = base.clone();
                b.encode_symbols_reverse(s.iter().rev().map(|l| ((), mk(l))).collect::<Vec<_>>()).unwrap();
                forms.push(("encode_symbols_reverse", b));
                let mut b = base.clone();
                b.try_encode_symbols(s.iter().map(|l| Ok::<_, ()>(((), mk(l))))).unwrap();
                forms.push(("try_encode_symbols", b));
                let mut b = base.clone();
                b.try_encode_symbols_reverse(s.iter().rev().map(|l| Ok::<_, ()>(((), mk(l)))).collect::<Vec<_>>()).unwrap();
                forms.push(("try_encode_symbols_reverse", b));
                if s.windows(2).all(|w| w[0] == w[1]) && !s.is_empty() {
                    let mut b = base.clone();
                    b.encode_iid_symbols(s.iter().map(|_| ()), mk(&s[0])).unwrap();
                    forms.push(("encode_iid_symbols", b));
                    let mut b = base.clone();
                    b.encode_iid_symbols_reverse(s.iter().map(|_| ()).collect::<Vec<_>>(), mk(&s[0])).unwrap();
                    forms.push(("encode_iid_symbols_reverse", b));
                }
                for (name, b) in forms {
                    n += 1;
                    let got: (Vec<u128>, u128) = (to_u128(b.bulk()), b.state().into());
                    if got != want {
                        bad.push((format!("AnsCoder::{name} | {} | differs from the per-symbol loop", C::NAME),
                            format!("init {:x?} letters {:?}: {:x?} vs loop {:x?}", init, s, got, want),
                            json!({"kind": "none", "cfg": C::NAME, "init": words_json(init), "letters": letters_json(s), "form": name})));
                    }
                }
                // a try_ form that fails in the middle must have encoded exactly the items before the error
                if s.len() >= 2 {
                    let k = s.len() / 2;
                    let mut b = base.clone();
                    let r = b.try_encode_symbols(s.iter().enumerate().map(|(i, l)| if i == k { Err(()) } else { Ok(((), mk(l))) }));
                    let mut c = base.clone();
                    for l in &s[..k] { c.encode_symbol((), mk(l)).unwrap(); }
                    n += 1;
                    if r.is_ok() || b.bulk() != c.bulk() || b.state() != c.state() {
                        bad.push((format!("AnsCoder::try_encode_symbols | {} | wrong state after a model error in the middle", C::NAME),
                            format!("init {:x?} letters {:?} error at {k}", init, s), json!({"kind": "none"})));
                    }
                }
                // a batch that contains an IMPOSSIBLE symbol at position k must equal the per-symbol loop as well:
                // the items before it are on the stack, the error is reported, nothing else has changed
                if !s.is_empty() {
                    let mko = |l: &Letter| crate::models::OptRaw::<C::Pr, P> { c: num_traits::AsPrimitive::as_(l.c), p: num_traits::AsPrimitive::as_(l.p) };
                    for k in 0..s.len() {
                        let items: Vec<(bool, crate::models::OptRaw<C::Pr, P>)> = s.iter().enumerate().map(|(i, l)| (i != k, mko(l))).collect();
                        let mut c = base.clone();
                        for (sym, m) in &items[..k] { c.encode_symbol(*sym, *m).unwrap(); }
                        let want_fail = (to_u128(c.bulk()), c.state().into());
                        let mut forms: Vec<(&str, bool, AnsCoder<C::W, C::S>)> = vec![];
                        let mut b = base.clone();
                        let r = b.encode_symbols(items.iter().cloned());
                        forms.push(("encode_symbols", r.is_err(), b));
                        let mut b = base.clone();
                        let r = b.encode_symbols_reverse(items.iter().rev().cloned().collect::<Vec<_>>());
                        forms.push(("encode_symbols_reverse", r.is_err(), b));
                        let mut b = base.clone();
                        let r = b.try_encode_symbols(items.iter().cloned().map(Ok::<_, ()>));
                        forms.push(("try_encode_symbols", r.is_err(), b));
                        let mut b = base.clone();
                        let r = b.try_encode_symbols_reverse(items.iter().rev().cloned().map(Ok::<_, ()>).collect::<Vec<_>>());
                        forms.push(("try_encode_symbols_reverse", r.is_err(), b));
                        if s.windows(2).all(|w| w[0] == w[1]) {
                            let mut b = base.clone();
                            let r = b.encode_iid_symbols(items.iter().map(|x| x.0), mko(&s[0]));
                            forms.push(("encode_iid_symbols", r.is_err(), b));
                            let mut b = base.clone();
                            let r = b.encode_iid_symbols_reverse(items.iter().rev().map(|x| x.0).collect::<Vec<_>>(), mko(&s[0]));
                            forms.push(("encode_iid_symbols_reverse", r.is_err(), b));
                        }
                        for (name, failed, b) in forms {
                            n += 1;
                            let got: (Vec<u128>, u128) = (to_u128(b.bulk()), b.state().into());
                            // (either the items in front of the impossible one are on the stack, as with the per-symbol loop, or the
                            // whole batch was rolled back: the property does not say which; anything else is a corrupted coder)
                            let rolled_back: (Vec<u128>, u128) = (to_u128(base.bulk()), base.state().into());
                            if !failed || (got != want_fail && got != rolled_back) {
                                bad.push((format!("AnsCoder::{name} | {} | a batch with an impossible symbol differs from the per-symbol loop", C::NAME),
                                    format!("init {:x?} letters {:?} impossible symbol at {k}: error reported: {failed}, coder {:x?} vs loop {:x?}", init, s, got, want_fail), json!({"kind": "none"})));
                            }
                        }
                    }
                }
                // decode side: decode_symbols / try_decode_symbols / decode_iid_symbols == loop
                let mkd = |l: &Letter| Part::<C::Pr, P> { c: num_traits::AsPrimitive::as_(l.c), p: num_traits::AsPrimitive::as_(l.p) };
                let mut d0 = a.clone();
                let want_syms: Vec<u8> = s.iter().rev().map(|l| d0.decode_symbol(mkd(l)).unwrap()).collect();
                let mut d1 = a.clone();
                let got1: Vec<u8> = d1.decode_symbols(s.iter().rev().map(|l| mkd(l))).map(|r| r.unwrap()).collect();
                let mut d2 = a.clone();
                let got2: Vec<u8> = d2.try_decode_symbols(s.iter().rev().map(|l| Ok::<_, ()>(mkd(l)))).map(|r| r.unwrap()).collect();
                n += 2;
                if got1 != want_syms || d1.bulk() != d0.bulk() || d1.state() != d0.state() {
                    bad.push((format!("AnsCoder::decode_symbols | {} | differs from the per-symbol loop", C::NAME), format!("init {:x?} letters {:?}", init, s), json!({"kind": "none"})));
                }
                if got2 != want_syms || d2.bulk() != d0.bulk() || d2.state() != d0.state() {
                    bad.push((format!("AnsCoder::try_decode_symbols | {} | differs from the per-symbol loop", C::NAME), format!("init {:x?} letters {:?}", init, s), json!({"kind": "none"})));
                }
                if want_syms.iter().any(|&k| k != 1) || d0.bulk() != base.bulk() || d0.state() != base.state() {
                    bad.push((format!("AnsCoder::decode_symbol | {} | pop returns a different symbol than was pushed", C::NAME), format!("batch run: init {:x?} letters {:?} decoded {:?}", init, s, want_syms), json!({"kind": "none"})));
                }
                if s.windows(2).all(|w| w[0] == w[1]) && !s.is_empty() {
                    let mut d3 = a.clone();
                    let got3: Vec<u8> = d3.decode_iid_symbols(s.len(), mkd(&s[0])).map(|r| r.unwrap()).collect();
                    n += 1;
                    if got3 != want_syms || d3.bulk() != d0.bulk() || d3.state() != d0.state() {
                        bad.push((format!("AnsCoder::decode_iid_symbols | {} | differs from the per-symbol loop", C::NAME), format!("init {:x?} letters {:?}", init, s), json!({"kind": "none"})));
                    }
                }
            }
            (n, bad)
        })
        .collect();
    let mut total = 0;
    for (n, bad) in results {
        total += n;
        for (i, d, c) in bad {
            report.violation(crate::report::Violation { identity: i, detail: d, case: c });
        }
    }
    report.count("batch_form_comparisons", total);
    report.add_transitions(total);
    report.section(json!({"cfg": C::NAME, "part": "batch/reverse/fallible forms vs per-symbol loop", "start_states": starts.len(),
        "sequences": seqs.len(), "max_len": depth, "comparisons": total}));
}

// ------------------------------------------------------------------------------------------
// single-step induction over all states of AnsCoder<u8,u16>

fn single_step_all_states(report: &Report, tier: Tier) {
    type C = U8U16;
    let tops: Vec<Option<u8>> = match tier {
        Tier::Quick => vec![None, Some(0x00), Some(0x01), Some(0x5a), Some(0xff)],
        Tier::Thorough => {
            let mut v: Vec<Option<u8>> = vec![None];
            v.extend((0..=255u8).step_by(5).map(Some));
            v.push(Some(0xff));
            v
        }
    };
    let mut letters: Vec<Letter> = vec![];
    for p in [1u8, 2, 3] {
        letters.extend(all_pairs(p));
    }
    match tier {
        Tier::Quick => {
            letters.extend(extremes(8));
            letters.extend(extremes(7));
            letters.extend(all_pairs(4).into_iter().step_by(7));
        }
        Tier::Thorough => {
            letters.extend(all_pairs(4));
            letters.extend(all_pairs(7).into_iter().step_by(61));
            letters.extend(all_pairs(8).into_iter().step_by(251));
            letters.extend(extremes(8));
            letters.extend(extremes(7));
        }
    }
    letters.sort();
    letters.dedup();
    let results: Vec<(u64, u64, u64, u64, Vec<(String, String, serde_json::Value)>)> = (0u32..=0xffff)
        .into_par_iter()
        .map(|s| {
            let s = s as u16;
            let (mut steps, mut flushes, mut refills, mut states) = (0u64, 0u64, 0u64, 0u64);
            let mut bad = vec![];
            for top in &tops {
                // documented invariant: state >= 2^(S-W) unless bulk empty
                if top.is_some() && s < 256 {
                    continue;
                }
                states += 1;
                let bulk: Vec<u8> = match top { Some(w) => vec![0x33, *w], None => vec![] };
                let base = AnsCoder::<u8, u16>::from_raw_parts(bulk.clone(), s);
                for &l in &letters {
                    // push then pop
                    let mut c = base.clone();
                    C::ans_encode(&mut c, l).unwrap();
                    if c.bulk().len() > bulk.len() { flushes += 1; }
                    let inv_ok = c.bulk().is_empty() || c.state() >= 256;
                    let k = C::ans_decode(&mut c, l).unwrap();
                    steps += 2;
                    if k != 1 || c.bulk() != &bulk || c.state() != s || !inv_ok {
                        bad.push((
                            "AnsCoder single step | u8/u16 | decode(encode(state)) != state".to_string(),
                            format!("state {s:#x} bulk {:x?} letter {:?}: decoded part {k}, back at (bulk {:x?}, state {:#x}), invariant after push {inv_ok}", bulk, l, c.bulk(), c.state()),
                            json!({"kind": "ans_single_step", "state": s, "bulk": bulk, "letter": [l.prec, l.c, l.p], "dir": "push_pop"}),
                        ));
                    }
                    // pop (with the 3-part partition around l) then push the popped part back
                    let mut c = base.clone();
                    let k = C::ans_decode(&mut c, l).unwrap();
                    if c.bulk().len() < bulk.len() { refills += 1; }
                    let inv_ok = c.bulk().is_empty() || c.state() >= 256;
                    let (pc, pp) = part_interval(l.prec, l.c, l.p, k);
                    C::ans_encode(&mut c, Letter::new(l.prec, pc, pp)).unwrap();
                    steps += 2;
                    if c.bulk() != &bulk || c.state() != s || !inv_ok || pp == 0 {
                        bad.push((
                            "AnsCoder single step | u8/u16 | encode(decode(state)) != state".to_string(),
                            format!("state {s:#x} bulk {:x?} letter {:?}: popped part {k}, after re-push (bulk {:x?}, state {:#x}), invariant after pop {inv_ok}", bulk, l, c.bulk(), c.state()),
                            json!({"kind": "ans_single_step", "state": s, "bulk": bulk, "letter": [l.prec, l.c, l.p], "dir": "pop_push"}),
                        ));
                    }
                }
            }
            (steps, flushes, refills, states, bad)
        })
        .collect();
    let (mut steps, mut fl, mut rf, mut states) = (0, 0, 0, 0);
    for (a, b, c, d, bad) in results {
        steps += a;
        fl += b;
        rf += c;
        states += d;
        for (i, d, c) in bad.into_iter().take(3) {
            report.violation(crate::report::Violation { identity: i, detail: d, case: c });
        }
    }
    report.add_states(states);
    report.add_transitions(steps);
    report.add_traces(steps / 2);
    report.count("single_step_flushes", fl);
    report.count("single_step_refills", rf);
    report.sample(json!({"single_step_example": {"state": "0x0100", "bulk": ["33", "ff"], "letter_[prec,cum,prob]": [8, 255, 1], "checked": "decode(encode(s)) == s and encode(decode(s)) == s"}}));
    report.section(json!({"cfg": "u8/u16", "part": "single-step induction over all head values", "head_values": 65536, "bulk_tops": tops.len(),
        "letters": letters.len(), "states_satisfying_invariant": states, "real_encode_decode_calls": steps, "flushes": fl, "refills": rf}));
}

/// every way of importing words into an ANS coder gives the SAME coder: `from_compressed`,
/// `from_compressed_slice`, `from_reversed_compressed`, `from_reversed_compressed_iter` (and, for data followed
/// by its marker word, `from_binary`, `from_binary_slice`, `from_reversed_binary`, `from_reversed_binary_iter`)
/// must decode the same symbols, report the same sizes and — where the backend can be written — continue
/// encoding to the same words. Start states: the import strings of the walks plus the exports of all letter
/// sequences of length <= `depth`.
fn import_forms<C: Cfg>(report: &Report, depth: usize) {
    use constriction::backends::Cursor;
    let letters = small_alphabet::<C>();
    let mut starts: Vec<Vec<u128>> = import_inits::<C>();
    {
        let mut frontier: Vec<AnsCoder<C::W, C::S>> = vec![AnsCoder::new()];
        for _ in 0..depth {
            let mut next = vec![];
            for c in &frontier {
                for &l in letters.iter().step_by(2) {
                    let mut d = c.clone();
                    C::ans_encode(&mut d, l).unwrap();
                    starts.push(ans_export::<C>(&d));
                    next.push(d);
                }
            }
            frontier = next;
        }
    }
    starts.sort();
    starts.dedup();
    let probes: Vec<Letter> = vec![letters[0], letters[4], letters[letters.len() - 1], letters[2], letters[7]];
    let mut n = 0u64;
    let mut bad: Vec<(String, String)> = vec![];
    for w in &starts {
        let words: Vec<C::W> = w.iter().map(|&x| C::w(x)).collect();
        let rev: Vec<C::W> = words.iter().rev().cloned().collect();
        let Ok(base) = AnsCoder::<C::W, C::S>::from_compressed(words.clone()) else { continue };
        let expect: Vec<u8> = { let mut c = base.clone(); probes.iter().map(|&l| C::ans_decode(&mut c, l).unwrap()).collect() };
        let sizes = (base.num_words(), base.num_bits(), base.is_empty());
        macro_rules! same { ($name:literal, $coder:expr) => {{
            n += 1;
            match $coder {
                Some(mut c) => {
                    let got_sizes = (c.num_words(), c.num_bits(), c.is_empty());
                    let got: Vec<Option<u8>> = probes.iter().map(|&l| C::ans_decode(&mut c, l).ok()).collect();
                    if got != expect.iter().map(|&k| Some(k)).collect::<Vec<_>>() || got_sizes != sizes {
                        bad.push((format!("AnsCoder::{} | {} | differs from from_compressed on the same words", $name, C::NAME), format!("words {:x?}: decodes {:?} (sizes {:?}), from_compressed decodes {:?} (sizes {:?})", w, got, got_sizes, expect, sizes)));
                    }
                }
                None => bad.push((format!("AnsCoder::{} | {} | refuses words that from_compressed accepts", $name, C::NAME), format!("words {:x?}", w))),
            }
        }}; }
        same!("from_compressed_slice", AnsCoder::<C::W, C::S, _>::from_compressed_slice(&words[..]).ok());
        same!("from_reversed_compressed", AnsCoder::<C::W, C::S, _>::from_reversed_compressed(rev.clone()).ok());
        same!("from_reversed_compressed_iter", AnsCoder::<C::W, C::S, _>::from_reversed_compressed_iter(words.iter().rev().map(|&x| Ok::<C::W, core::convert::Infallible>(x))).ok());
        same!("from_compressed(Cursor)", AnsCoder::<C::W, C::S, _>::from_compressed(Cursor::new_at_write_end(words.clone())).ok());
        if w.last() == Some(&1) {
            let data = &words[..words.len() - 1];
            let drev: Vec<C::W> = data.iter().rev().cloned().collect();
            same!("from_binary", AnsCoder::<C::W, C::S>::from_binary(data.to_vec()).ok());
            same!("from_binary_slice", Some(AnsCoder::<C::W, C::S, _>::from_binary_slice(data)));
            same!("from_reversed_binary", Some(AnsCoder::<C::W, C::S, _>::from_reversed_binary(drev.clone())));
            same!("from_reversed_binary_iter", AnsCoder::<C::W, C::S, _>::from_reversed_binary_iter(data.iter().rev().map(|&x| Ok::<C::W, core::convert::Infallible>(x))).ok());
        }
        // exporting a coder that lives on a WRITABLE cursor (owned buffer and borrowed mutable slice with spare room)
        {
            n += 2;
            let finished = to_u128(&base.clone().into_compressed().unwrap());
            let mut buf: Vec<C::W> = base.bulk().clone();
            let pos = buf.len();
            buf.extend(std::iter::repeat(C::w(0x77)).take(C::SBITS as usize / C::WBITS as usize + 2));
            let c1 = AnsCoder::<C::W, C::S, Cursor<C::W, Vec<C::W>>>::from_raw_parts(Cursor::new_at_pos(buf.clone(), pos).unwrap(), base.state());
            match c1.into_compressed() {
                Ok(cur) => { let p2 = constriction::Pos::pos(&cur); if to_u128(&cur.buf()[..p2]) != finished { bad.push((format!("AnsCoder::into_compressed on a Cursor backend | {} | differs from the Vec backend", C::NAME), format!("words {:x?}: cursor holds {:x?}, expected {:x?}", w, to_u128(&cur.buf()[..p2]), finished))); } }
                Err(_) => bad.push((format!("AnsCoder::into_compressed on a Cursor backend | {} | fails although there is room", C::NAME), format!("words {:x?}", w))),
            }
            let mut buf2 = buf.clone();
            let mut c2 = AnsCoder::<C::W, C::S, Cursor<C::W, &mut [C::W]>>::from_raw_parts(Cursor::new_at_pos_mut(&mut buf2[..], pos).unwrap(), base.state());
            let view: Option<Vec<u128>> = c2.get_compressed().ok().map(|g| { let p2 = constriction::Pos::pos(&*g); to_u128(&g.buf()[..p2]) });
            if view.as_ref() != Some(&finished) {
                bad.push((format!("AnsCoder::get_compressed on a Cursor<&mut [Word]> backend | {} | differs from the Vec backend", C::NAME), format!("words {:x?}: view {:x?}, expected {:x?}", w, view, finished)));
            }
        }
        // a reversed import keeps encoding to the same words (read back through into_compressed of the twin)
        {
            n += 1;
            if let Ok(mut r) = AnsCoder::<C::W, C::S, _>::from_reversed_compressed(rev.clone()) {
                // decode two symbols and push them back: the reversed backend is written in place
                let a = C::ans_decode(&mut r, probes[0]).unwrap();
                let b = C::ans_decode(&mut r, probes[1]).unwrap();
                let (pc, pp) = part_interval(probes[1].prec, probes[1].c, probes[1].p, b);
                let (qc, qp) = part_interval(probes[0].prec, probes[0].c, probes[0].p, a);
                let ok = pp != 0 && qp != 0 && C::ans_encode(&mut r, Letter::new(probes[1].prec, pc, pp)).is_ok() && C::ans_encode(&mut r, Letter::new(probes[0].prec, qc, qp)).is_ok();
                let again: Vec<Option<u8>> = probes.iter().map(|&l| C::ans_decode(&mut r, l).ok()).collect();
                if !ok || again != expect.iter().map(|&k| Some(k)).collect::<Vec<_>>() {
                    bad.push((format!("AnsCoder::from_reversed_compressed | {} | decode + re-encode in place does not restore the coder", C::NAME), format!("words {:x?}: {:?} vs {:?}", w, again, expect)));
                }
            }
        }
        if bad.len() > 30 { break; }
    }
    report.add_states(starts.len() as u64);
    report.add_transitions(n * probes.len() as u64);
    report.count("import_form_comparisons", n);
    report.section(json!({"cfg": C::NAME, "part": "import forms (8 constructors) compared on the same words", "start_states": starts.len(), "comparisons": n}));
    let mut seen = std::collections::BTreeMap::<String, u32>::new();
    for (i, d) in bad {
        let k = seen.entry(i.clone()).or_insert(0);
        if *k < 2 { *k += 1; report.violation(crate::report::Violation { identity: i, detail: d, case: json!({"kind": "none"}) }); }
    }
}

/// single-step induction from BOUNDARY head values on the wider instantiations (all 2^S heads cannot be
/// enumerated there): both ends of the head range, every power of two +- 3, the flush thresholds
/// p * 2^(S-P) +- 2 of every letter, the refill threshold 2^(S-W) +- 64; heads below 2^(S-W) only with an
/// empty bulk (documented invariant). Same obligations as the all-states sweep.
fn single_step_boundary<C: Cfg>(report: &Report, letters: &[Letter], width: u128) {
    let (wb, sb) = (C::WBITS, C::SBITS);
    let lo: u128 = 1u128 << (sb - wb);
    let top: u128 = if sb == 128 { u128::MAX } else { (1u128 << sb) - 1 };
    let mut heads: Vec<u128> = vec![];
    for d in 0..width { heads.push(d); heads.push(lo + d); heads.push(lo.saturating_sub(d)); heads.push(top - d); }
    for k in 0..sb { let b = 1u128 << k; for d in 0..=3u128 { heads.push(b + d); heads.push(b.saturating_sub(d)); } heads.push(b + b / 2); heads.push(b + b / 3); }
    for l in letters {
        let t = (l.p as u128) << (sb - l.prec as u32);
        for d in 0..=2u128 { heads.push(t.wrapping_add(d) & top); heads.push(t.saturating_sub(d)); }
        // states whose quantile sits on the letter's edges after a decode: low P bits = c, c+p-1
        for base in [lo, lo * 3, top - (top >> 3)] {
            let m = !((1u128 << l.prec) - 1);
            heads.push(((base & m) | l.c as u128) & top);
            heads.push(((base & m) | (l.c + l.p - 1) as u128) & top);
        }
    }
    heads.retain(|&h| h <= top);
    heads.sort(); heads.dedup();
    let wmax: u128 = (1u128 << wb) - 1;
    let tops: Vec<Option<u128>> = vec![None, Some(0), Some(1), Some(wmax), Some(wmax / 3)];
    let res: Vec<(u64, u64, u64, u64, Vec<(String, String)>)> = heads.par_iter().map(|&h| {
        let (mut steps, mut fl, mut rf, mut states) = (0u64, 0u64, 0u64, 0u64);
        let mut bad = vec![];
        for t in &tops {
            if t.is_some() && h < lo { continue; }
            states += 1;
            let bulk: Vec<C::W> = match t { Some(w) => vec![C::w(0x33), C::w(*w)], None => vec![] };
            let base = AnsCoder::<C::W, C::S>::from_raw_parts(bulk.clone(), C::s(h));
            let same = |c: &AnsCoder<C::W, C::S>| to_u128(c.bulk()) == to_u128(&bulk) && c.state().into() == h;
            let inv = |c: &AnsCoder<C::W, C::S>| c.bulk().is_empty() || c.state().into() >= lo;
            for &l in letters {
                let mut c = base.clone();
                C::ans_encode(&mut c, l).unwrap();
                if c.bulk().len() > bulk.len() { fl += 1; }
                let inv_ok = inv(&c);
                let k = C::ans_decode(&mut c, l).unwrap();
                steps += 2;
                if k != 1 || !same(&c) || !inv_ok {
                    bad.push((format!("AnsCoder single step | {} | decode(encode(state)) != state", C::NAME),
                        format!("state {h:#x} bulk {:x?} letter {:?}: decoded part {k}, back at (bulk {:x?}, state {:#x}), invariant after push {inv_ok}", to_u128(&bulk), l, to_u128(c.bulk()), c.state().into())));
                }
                let mut c = base.clone();
                let k = C::ans_decode(&mut c, l).unwrap();
                if c.bulk().len() < bulk.len() { rf += 1; }
                let inv_ok = inv(&c);
                let (pc, pp) = part_interval(l.prec, l.c, l.p, k);
                if pp == 0 {
                    bad.push((format!("AnsCoder single step | {} | decode returns a part of probability zero", C::NAME), format!("state {h:#x} letter {:?} part {k}", l)));
                    continue;
                }
                C::ans_encode(&mut c, Letter::new(l.prec, pc, pp)).unwrap();
                steps += 2;
                if !same(&c) || !inv_ok {
                    bad.push((format!("AnsCoder single step | {} | encode(decode(state)) != state", C::NAME),
                        format!("state {h:#x} bulk {:x?} letter {:?}: popped part {k}, after re-push (bulk {:x?}, state {:#x}), invariant after pop {inv_ok}", to_u128(&bulk), l, to_u128(c.bulk()), c.state().into())));
                }
            }
        }
        (steps, fl, rf, states, bad)
    }).collect();
    let (mut steps, mut fl, mut rf, mut states) = (0, 0, 0, 0);
    let mut shown = 0;
    for (a, b, c, d, bad) in res {
        steps += a; fl += b; rf += c; states += d;
        for (i, d) in bad { if shown < 6 { shown += 1; report.violation(crate::report::Violation { identity: i, detail: d, case: json!({"kind": "none"}) }); } }
    }
    report.add_states(states);
    report.add_transitions(steps);
    report.add_traces(steps / 2);
    report.count("single_step_flushes", fl);
    report.count("single_step_refills", rf);
    report.section(json!({"cfg": C::NAME, "part": "single-step induction from boundary head values", "head_values": heads.len(), "bulk_tops": tops.len(),
        "letters": letters.len(), "states_satisfying_invariant": states, "real_encode_decode_calls": steps, "flushes": fl, "refills": rf}));
}

pub fn run(report: &Report) {
    use crate::models::*;
    let q = report.tier == Tier::Quick;
    report.bound("histories over {encode(letter), decode(matching model)} up to the listed depth from each initial word string; single-step sweep over all 65536 head values of AnsCoder<u8,u16> and over boundary head values of the six wider instantiations");
    report.assume("decode is only applied with the model of the most recent not-yet-decoded encode (decoding with other models is C04's domain)");
    for n in ["encode_flushed_a_word", "decode_refilled_a_word", "head_exactly_at_threshold", "pops_back_to_initial_export", "single_step_flushes", "single_step_refills"] {
        report.require(n);
    }
    single_step_all_states(report, report.tier);
    {
        let w = if q { 64 } else { 4096 };
        single_step_boundary::<U8U32>(report, &pairs_alphabet::<U8U32>(), w);
        single_step_boundary::<U8U64>(report, &pairs_alphabet::<U8U64>(), w);
        single_step_boundary::<U16U32>(report, &pairs_alphabet::<U16U32>(), w);
        single_step_boundary::<U16U64>(report, &pairs_alphabet::<U16U64>(), w);
        single_step_boundary::<U32U64>(report, &pairs_alphabet::<U32U64>(), w);
        single_step_boundary::<U64U128>(report, &pairs_alphabet::<U64U128>(), w);
    }
    let empty: Vec<Vec<u128>> = vec![vec![]];
    explore::<U8U16>(report, &empty, &small_alphabet::<U8U16>(), if q { 6 } else { 7 }, "mixed-precision-14");
    explore::<U8U32>(report, &empty, &small_alphabet::<U8U32>(), if q { 6 } else { 7 }, "mixed-precision-14");
    explore::<U8U16>(report, &import_inits::<U8U16>(), &small_alphabet::<U8U16>(), if q { 5 } else { 6 }, "mixed-precision-14");
    explore::<U8U32>(report, &import_inits::<U8U32>(), &small_alphabet::<U8U32>(), if q { 5 } else { 6 }, "mixed-precision-14");
    explore::<U8U16>(report, &empty, &pairs_alphabet::<U8U16>(), if q { 3 } else { 4 }, "all-pairs P<=3 + extremes");
    explore::<U8U64>(report, &import_inits::<U8U64>(), &small_alphabet::<U8U64>(), if q { 3 } else { 5 }, "mixed-precision-14");
    explore::<U16U32>(report, &import_inits::<U16U32>(), &small_alphabet::<U16U32>(), if q { 3 } else { 5 }, "mixed-precision-14");
    explore::<U16U64>(report, &import_inits::<U16U64>(), &small_alphabet::<U16U64>(), if q { 3 } else { 4 }, "mixed-precision-14");
    explore::<U32U64>(report, &import_inits::<U32U64>(), &small_alphabet::<U32U64>(), if q { 3 } else { 5 }, "mixed-precision-14");
    explore::<U64U128>(report, &import_inits::<U64U128>(), &small_alphabet::<U64U128>(), if q { 3 } else { 4 }, "mixed-precision-14");
    // histories in which an encode is REFUSED by a bounded or failing backend: the refused encode is no encode,
    // so everything pushed before must still pop in order and encoding must be able to continue (the
    // fault enumeration of C09, judged here against C01's stack semantics)
    super::c09::faults_part(report, if q { 5 } else { 7 });
    import_forms::<U8U16>(report, if q { 3 } else { 4 });
    import_forms::<U8U32>(report, if q { 3 } else { 4 });
    import_forms::<U8U64>(report, 2);
    import_forms::<U16U32>(report, 3);
    import_forms::<U16U64>(report, 2);
    import_forms::<U32U64>(report, 3);
    import_forms::<U64U128>(report, 2);
    batch_forms::<U8U16>(report, if q { 3 } else { 4 });
    batch_forms::<U8U32>(report, if q { 3 } else { 4 });
    batch_forms::<U32U64>(report, 3);
    super::pyfront::sweep(report, "views", if q { 3 } else { 4 }, "every constructor that takes compressed words (8) on every word string up to the listed length over 6 words, and every call form that takes symbol / parameter arrays (3 coders x 2 forms) on every message up to length 4: a negative-stride view, a stride-2 view and an interior slice must be read like a contiguous copy", &["AnsCoder(words) |", "AnsCoder.encode_reverse"], &[]);
    super::pyfront::sweep(report, "ans_histories", if q { 4 } else { 5 },
        "Python AnsCoder: every history up to the listed depth over 16 pushes (single symbol, iid array, per-symbol parameter arrays incl. one row; 2 Gaussian + 2 categorical models), 3 pop forms (decode(model), decode(model, 2), decode(family, parameter arrays)), reload through get_compressed and clone, from the empty coder and from 3 imported word strings; at every node a clone is drained one symbol at a time against a Python list and must end with the initial words",
        &[], &[]);
}

fn replay_cfg<C: Cfg>(init: &[u128], ops: &[AnsOp]) -> Result<String, String> {
    let words: Vec<C::W> = init.iter().map(|&w| C::w(w)).collect();
    let mut coder = AnsCoder::<C::W, C::S>::from_compressed(words).map_err(|_| "init rejected")?;
    let mut rf = crate::refs::RefAns::import(C::WBITS, C::SBITS, init);
    let mut stack: Vec<Letter> = vec![];
    let mut exports = vec![ans_export::<C>(&coder)];
    let mut bad = vec![];
    for (i, op) in ops.iter().enumerate() {
        let parent = Some((coder.bulk().len(), coder.state().into()));
        let mut last_dec = None;
        match op {
            AnsOp::Enc(l) => {
                C::ans_encode(&mut coder, *l).map_err(|e| format!("{e:?}"))?;
                rf.push(*l);
                stack.push(*l);
                exports.push(ans_export::<C>(&coder));
            }
            AnsOp::Dec => {
                let top = stack.pop().ok_or("dec on empty reference stack")?;
                last_dec = Some(C::ans_decode(&mut coder, top).map_err(|_| "backend")?);
                rf.pop(top);
                exports.pop();
            }
        }
        let n = AnsNode::<C> { coder: &coder, stack: &stack, exports: &exports, rf: &rf, ops: &ops[..=i], last_dec, parent };
        bad.extend(node_checks::<C>(&n));
    }
    if bad.is_empty() {
        Ok(format!("{} ops replayed, all C01 node checks pass", ops.len()))
    } else {
        Err(bad.into_iter().map(|(i, d)| format!("[{i}] {d}")).collect::<Vec<_>>().join("\n"))
    }
}

pub fn replay(case: &serde_json::Value) -> Result<String, String> {
    match case["kind"].as_str() {
        Some("ans_history") => {
            let cfg = case["cfg"].as_str().ok_or("cfg")?;
            let init = words_from_json(&case["init"])?;
            let ops = ops_from_json(&case["ops"])?;
            dispatch_cfg!(cfg, replay_cfg, &init, &ops)
        }
        Some("ans_single_step") => {
            let s = case["state"].as_u64().ok_or("state")? as u16;
            let bulk: Vec<u8> = case["bulk"].as_array().ok_or("bulk")?.iter().map(|x| x.as_u64().unwrap() as u8).collect();
            let l = &case["letter"];
            let l = Letter::new(l[0].as_u64().unwrap() as u8, l[1].as_u64().unwrap(), l[2].as_u64().unwrap());
            let mut c = AnsCoder::<u8, u16>::from_raw_parts(bulk.clone(), s);
            if case["dir"] == "push_pop" {
                U8U16::ans_encode(&mut c, l).unwrap();
                let k = U8U16::ans_decode(&mut c, l).unwrap();
                if k == 1 && c.bulk() == &bulk && c.state() == s { Ok("push/pop restores the state".into()) } else { Err(format!("push/pop from state {s:#x} bulk {bulk:x?} with {l:?}: part {k}, (bulk {:x?}, state {:#x})", c.bulk(), c.state())) }
            } else {
                let k = U8U16::ans_decode(&mut c, l).unwrap();
                let (pc, pp) = part_interval(l.prec, l.c, l.p, k);
                U8U16::ans_encode(&mut c, Letter::new(l.prec, pc, pp)).unwrap();
                if c.bulk() == &bulk && c.state() == s { Ok("pop/push restores the state".into()) } else { Err(format!("pop/push from state {s:#x} bulk {bulk:x?} with {l:?}: (bulk {:x?}, state {:#x})", c.bulk(), c.state())) }
            }
        }
        _ => Err("C01: this case kind has no stand-alone replay (see detail)".into()),
    }
}
