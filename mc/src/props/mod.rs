//! One module per property: alphabet, bound, oracle, evidence.
use crate::report::{Report, Tier};

pub mod common;
pub mod c01;
pub mod c02;
pub mod c03;
pub mod c05;
pub mod c19;
pub mod c20;
pub mod mfamily;
pub mod c04;
pub mod c06;
pub mod c07;
pub mod c08;
pub mod c13;
pub mod c14;
pub mod c15;
pub mod c16;
pub mod c17;
pub mod c18;
pub mod c09;
pub mod c10;
pub mod c11;
pub mod c12;

macro_rules! props {
    ($($id:literal => $m:ident),* $(,)?) => {
        pub fn run(id: &str, tier: Tier) -> Option<i32> {
            match id {
                $($id => { let r = Report::new($id, tier); $m::run(&r); Some(r.finish()) })*
                _ => None,
            }
        }
        pub fn replay(case: &serde_json::Value) -> Result<String, String> {
            match case.get("property").and_then(|k| k.as_str()).unwrap_or("") {
                $($id => $m::replay(case),)*
                other => Err(format!("replay file names unknown property {other:?}")),
            }
        }
        pub const ALL: &[&str] = &[$($id),*];
    };
}

props! {
    "C01" => c01,
    "C02" => c02,
    "C03" => c03,
    "C05" => c05,
    "C19" => c19,
    "C20" => c20,
    "C04" => c04,
    "C06" => c06,
    "C07" => c07,
    "C08" => c08,
    "C13" => c13,
    "C14" => c14,
    "C15" => c15,
    "C16" => c16,
    "C17" => c17,
    "C18" => c18,
    "C09" => c09,
    "C10" => c10,
    "C11" => c11,
    "C12" => c12,
}

/// Entry point for isolated child processes (`cvmc child <ID> <part> <from> <to>`).
pub fn child(args: &[String]) -> i32 {
    if args.len() != 4 {
        eprintln!("usage: cvmc child <ID> <part> <from> <to>");
        return 2;
    }
    let (from, to): (u64, u64) = (args[2].parse().unwrap(), args[3].parse().unwrap());
    if args[1].starts_with("hostile/") {
        return c20::child(&args[1], from, to);
    }
    if let Some(part) = args[1].strip_prefix("decode/") {
        return c10::child(&args[0], part, from, to);
    }
    match args[0].as_str() {
        "C03" | "C05" | "C19" | "C20" => mfamily::child(&args[0], &args[1], from, to),
        other => { eprintln!("no child handler for {other}"); 2 }
    }
}
