//! One module per property: alphabet, bound, oracle, evidence.
use crate::report::{Report, Tier};

pub mod common;
pub mod c01;
pub mod c02;
pub mod c03;
pub mod c05;
pub mod c19;
pub mod c20;
pub mod c20b;
pub mod pyfront;
pub mod mfamily;
pub mod c04;
pub mod c06;
pub mod c07;
pub mod c08;
pub mod c13;
pub mod c14;
pub mod c15;
pub mod c16;
pub mod c17;
pub mod c18;
pub mod c09;
pub mod c10;
pub mod c11;
pub mod c12;

/// Runs an explorer. The explorers only drive the library with inputs for which the property demands a
/// regular outcome (and guard the calls where a clean panic is allowed), so a panic that is raised at a
/// location INSIDE the constriction sources and escapes an explorer is a violation of the property being
/// explored (reported with the panic's location and message; the run is marked as not exhaustive).
/// A panic raised anywhere else (harness, std called from the harness) is a machinery failure: exit 2.
fn run_guarded(r: Report, f: impl FnOnce(&Report)) -> i32 {
    crate::isolate::install_first_panic_recorder();
    let res = std::panic::catch_unwind(std::panic::AssertUnwindSafe(|| f(&r)));
    if res.is_ok() {
        return r.finish();
    }
    let (msg, loc, mut in_library) = crate::isolate::first_panic().unwrap_or_default();
    // the hand-made entropy models assert that the coder hands them well-formed arguments (a quantile below
    // 2^PRECISION, ...): such an assertion failing is the library's doing although it is raised in the harness
    if msg.starts_with("HARNESS-MODEL") { in_library = true; }
    if !in_library {
        eprintln!("MACHINERY: explorer for {} panicked at {loc}: {msg}; no verdict", r.id);
        return 2;
    }
    let file = if loc.starts_with("/rustc/") { format!("(generic operator in core) {}", loc.rsplit_once("/library/").map(|x| x.1).unwrap_or(&loc)) } else { loc.rsplit_once("/src/").map(|x| format!("src/{}", x.1)).unwrap_or(loc.clone()) };
    if r.try_violation(crate::report::Violation {
        identity: format!("panic inside constriction on an input the property covers | {file} | {msg}"),
        detail: format!("the explorer for {} was stopped by a panic raised at {loc}: {msg} (exploration incomplete)", r.id),
        case: serde_json::json!({"kind": "none"}),
    }).is_err() {
        eprintln!("MACHINERY: explorer for {} panicked at {loc}: {msg} while holding the report lock; no verdict", r.id);
        return 2;
    }
    r.cap_hit(format!("exploration stopped by a panic inside constriction at {loc}"));
    r.finish()
}

macro_rules! props {
    ($($id:literal => $m:ident),* $(,)?) => {
        pub fn run(id: &str, tier: Tier) -> Option<i32> {
            match id {
                $($id => { let r = Report::new($id, tier); Some(run_guarded(r, |r| $m::run(r))) })*
                _ => None,
            }
        }
        pub fn replay(case: &serde_json::Value) -> Result<String, String> {
            match case.get("property").and_then(|k| k.as_str()).unwrap_or("") {
                $($id => $m::replay(case),)*
                other => Err(format!("replay file names unknown property {other:?}")),
            }
        }
        pub const ALL: &[&str] = &[$($id),*];
    };
}

props! {
    "C01" => c01,
    "C02" => c02,
    "C03" => c03,
    "C05" => c05,
    "C19" => c19,
    "C20" => c20,
    "C04" => c04,
    "C06" => c06,
    "C07" => c07,
    "C08" => c08,
    "C13" => c13,
    "C14" => c14,
    "C15" => c15,
    "C16" => c16,
    "C17" => c17,
    "C18" => c18,
    "C09" => c09,
    "C10" => c10,
    "C11" => c11,
    "C12" => c12,
}

/// Entry point for isolated child processes (`cvmc child <ID> <part> <from> <to>`).
pub fn child(args: &[String]) -> i32 {
    if args.len() != 4 {
        eprintln!("usage: cvmc child <ID> <part> <from> <to>");
        return 2;
    }
    let (from, to): (u64, u64) = (args[2].parse().unwrap(), args[3].parse().unwrap());
    if args[1].starts_with("hostile/") {
        return c20::child(&args[1], from, to);
    }
    if let Some(part) = args[1].strip_prefix("decode/") {
        return c10::child(&args[0], part, from, to);
    }
    match args[0].as_str() {
        "C03" | "C05" | "C19" | "C20" => mfamily::child(&args[0], &args[1], from, to),
        other => { eprintln!("no child handler for {other}"); 2 }
    }
}
