//! One module per property: alphabet, bound, oracle, evidence.
use crate::report::{Report, Tier};

pub mod common;
pub mod c02;

pub fn run(id: &str, tier: Tier) -> Option<i32> {
    let code = match id {
        "C02" => { let r = Report::new("C02", tier); c02::run(&r); r.finish() }
        _ => return None,
    };
    Some(code)
}

pub fn replay(case: &serde_json::Value) -> Result<String, String> {
    let kind = case.get("kind").and_then(|k| k.as_str()).unwrap_or("");
    match kind {
        "range_history" => c02::replay(case),
        _ => Err(format!("unknown replay kind {kind:?}")),
    }
}

/// Entry point for isolated child processes (`cvmc child <ID> ...`).
pub fn child(_args: &[String]) -> i32 {
    eprintln!("no child handlers yet");
    2
}
