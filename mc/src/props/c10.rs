//! C10 — decoding arbitrary or corrupted data is total and stays inside the model.
//!
//! Isolated sweep: every word string of the stated lengths (plus truncations / extensions of valid
//! streams) x 144 model programs (all ordered pairs of 12 decoder models, alternating over 6
//! symbols, incl. lookup-table, lazily quantised, quantised-Gaussian and uniform models, with
//! the precision changing between symbols) x {ANS from_binary, ANS from_compressed, range decoder,
//! chain coder} at two state widths. Oracle: no panic / abort / hang; ANS never errs; the range
//! decoder may only report InvalidData, the chain coder only OutOfCompressedData; every returned
//! symbol belongs to the support of the model it was decoded with.

use crate::isolate::{guarded, run_isolated, ChildSink, Outcome};
use crate::models::Part;
use crate::report::{Report, Tier, Violation};
use constriction::stream::chain::ChainCoder;
use constriction::stream::model::*;
use constriction::stream::queue::{DecoderFrontendError, RangeDecoder};
use constriction::stream::stack::AnsCoder;
use constriction::stream::{Decode, Encode};
use constriction::CoderError;
use probability::distribution::Gaussian;
use serde_json::json;

/// result of decoding one symbol with model `k`: Ok(in_support) or the error class
#[derive(Debug, Clone, Copy, PartialEq)]
enum R {
    Sym(bool),
    InvalidData,
    OutOfData,
}

struct Models8 {
    cat: ContiguousCategoricalEntropyModel<u8, Vec<u8>, 8>,
    lookup: ContiguousLookupDecoderModel<u8, Vec<u8>, Box<[u8]>, 8>,
    nclookup: NonContiguousLookupDecoderModel<u32, u8, Vec<(u8, u32)>, Box<[u8]>, 5>,
    ncdec: NonContiguousCategoricalDecoderModel<u32, u8, Vec<(u8, u32)>, 8>,
    quant_i8: LeakilyQuantizedDistribution<f64, i8, u8, Gaussian, 8>,
    lazy: LazyContiguousCategoricalEntropyModel<u8, f32, Vec<f32>, 8>,
    uni4: UniformModel<u8, 4>,
    uni8: UniformModel<u8, 8>,
    quant: LeakilyQuantizedDistribution<f64, i32, u8, Gaussian, 8>,
    lookup_fast: ContiguousLookupDecoderModel<u8, Vec<u8>, Box<[u8]>, 8>,
}
impl Models8 {
    fn new() -> Self {
        Models8 {
            cat: ContiguousCategoricalEntropyModel::from_nonzero_fixed_point_probabilities([100u8, 1, 55, 100], false).unwrap(),
            // built by CONVERSION from a contiguous model at PRECISION == Probability::BITS (the directly constructed
            // lookup models are those of `Models16` and of the C03/C05 sweeps)
            lookup: ContiguousCategoricalEntropyModel::<u8, Vec<u8>, 8>::from_nonzero_fixed_point_probabilities([100u8, 1, 55, 100], false).unwrap().to_lookup_decoder_model(),
            nclookup: NonContiguousLookupDecoderModel::from_symbols_and_nonzero_fixed_point_probabilities([70u32, 3, 900, 12], [7u8, 1, 16, 8], false).unwrap(),
            // searched non-contiguous decoder at PRECISION == Probability::BITS (its cdf ends in a wrapped 2^P)
            ncdec: NonContiguousCategoricalDecoderModel::from_symbols_and_nonzero_fixed_point_probabilities([70u32, 3, 900], [100u8, 6, 150], false).unwrap(),
            // quantised model whose support fills the whole symbol type and whose mass sits at the lower end:
            // garbage quantiles land in the upper leaky tail, the search runs up to Symbol::MAX
            quant_i8: LeakyQuantizer::<f64, i8, u8, 8>::new(-128..=127).quantize(Gaussian::new(-100.0, 2.0)),
            lazy: LazyContiguousCategoricalEntropyModel::from_floating_point_probabilities_fast(vec![0.3f32, 0.2, 0.5], None).unwrap(),
            uni4: UniformModel::new(10),
            uni8: UniformModel::new(256),
            quant: LeakyQuantizer::<f64, i32, u8, 8>::new(-100..=100).quantize(Gaussian::new(3.3, 25.0)),
            // lookup model built DIRECTLY from floats at PRECISION == Probability::BITS
            lookup_fast: ContiguousLookupDecoderModel::from_floating_point_probabilities_fast(&[0.1f64, 0.2, 0.3, 0.4], None).unwrap(),
        }
    }
}
pub const N_MODELS8: usize = 12;

macro_rules! decode_with8 {
    ($dec:expr, $m:expr, $k:expr, $map:expr) => {{
        let r = match $k {
            0 => $dec.decode_symbol(Part::<u8, 2> { c: 1, p: 2 }).map(|s| s <= 2),
            1 => $dec.decode_symbol(Part::<u8, 8> { c: 255, p: 1 }).map(|s| s <= 1),
            2 => $dec.decode_symbol(&$m.cat).map(|s| s < 4),
            3 => $dec.decode_symbol(&$m.lookup).map(|s| s < 4),
            4 => $dec.decode_symbol(&$m.nclookup).map(|s| [70u32, 3, 900, 12].contains(&s)),
            5 => $dec.decode_symbol(&$m.quant).map(|s| (-100..=100).contains(&s)),
            6 => $dec.decode_symbol(&$m.lazy).map(|s| s < 3),
            7 => $dec.decode_symbol($m.uni4).map(|s| s < 10),
            8 => $dec.decode_symbol(&$m.ncdec).map(|s| [70u32, 3, 900].contains(&s)),
            9 => $dec.decode_symbol($m.uni8).map(|s| s < 256),
            11 => $dec.decode_symbol(&$m.lookup_fast).map(|s| s < 4),
            _ => $dec.decode_symbol(&$m.quant_i8).map(|_s| true),
        };
        $map(r)
    }};
}

fn data_space(maxlen: usize) -> (Vec<u64>, u64) {
    let mut offs = vec![0u64];
    for len in 0..=maxlen {
        offs.push(offs.last().unwrap() + 256u64.pow(len as u32));
    }
    let t = *offs.last().unwrap();
    (offs, t)
}
fn data_decode(offs: &[u64], mut i: u64) -> Vec<u8> {
    let len = (0..offs.len() - 1).find(|&l| i < offs[l + 1]).unwrap();
    i -= offs[len];
    (0..len).map(|k| (i >> (8 * k)) as u8).collect()
}

/// corrupted valid streams: truncations and extensions of sealed / exported messages
fn corrupted_streams() -> Vec<Vec<u8>> {
    let m = Models8::new();
    let mut out = vec![];
    for msg in [vec![0usize, 1, 2, 3, 0, 0, 3], vec![1; 9], vec![3, 2, 1, 0, 3, 2, 1, 0, 3, 3, 3]] {
        let mut a = AnsCoder::<u8, u32>::new();
        a.encode_iid_symbols_reverse(&msg, &m.cat).unwrap();
        let mut r = constriction::stream::queue::RangeEncoder::<u8, u32>::new();
        r.encode_iid_symbols(&msg, &m.cat).unwrap();
        for words in [a.into_compressed().unwrap(), r.into_compressed().unwrap()] {
            for cut in 0..=words.len() {
                out.push(words[..cut].to_vec());
                out.push(words[cut..].to_vec());
            }
            for ext in [0x00u8, 0xff, 0x80] {
                let mut w = words.clone();
                w.extend([ext; 5]);
                out.push(w);
                let mut w2 = vec![ext; 3];
                w2.extend(words.iter());
                out.push(w2);
            }
        }
    }
    out.sort();
    out.dedup();
    out
}

/// `part` = "w8/<maxlen>/<prog_stride>"   index = data index * nprog + program
fn part_w8(part: &str, from: u64, to: u64, want: &str, sink: &mut ChildSink) {
    let f: Vec<&str> = part.split('/').collect();
    let maxlen: usize = f[1].parse().unwrap();
    let (offs, ndata_enum) = data_space(maxlen);
    let extra = corrupted_streams();
    let nprog = (N_MODELS8 * N_MODELS8) as u64;
    let m = Models8::new();
    for i in from..to {
        sink.begin_case(i);
        let (di, prog) = (i / nprog, (i % nprog) as usize);
        let data: Vec<u8> = if di < ndata_enum { data_decode(&offs, di) } else { extra[(di - ndata_enum) as usize].clone() };
        let (a, b) = (prog / N_MODELS8, prog % N_MODELS8);
        let seq = [a, b, a, b, a, b];
        sink.n += 1;
        let found = std::cell::RefCell::new(Vec::<String>::new());
        let nsym = std::cell::Cell::new(0u64);
        let report = |what: String, tags: &str| {
            if tags.split(',').any(|t| t == want) {
                found.borrow_mut().push(what);
            }
        };
        macro_rules! run_coder {
            ($name:expr, $mk:expr, $allowed:expr, $maperr:expr) => {{
                match guarded(|| {
                    let mut d = match $mk { Some(d) => d, None => return Ok(vec![]) };
                    let mut res = vec![];
                    for &k in &seq {
                        let r: R = decode_with8!(d, m, k, $maperr);
                        res.push(r);
                        if !matches!(r, R::Sym(_)) { break; }
                    }
                    Ok::<Vec<R>, ()>(res)
                }) {
                    Outcome::Value(Ok(res)) => {
                        for (j, r) in res.iter().enumerate() {
                            match r {
                                R::Sym(true) => {}
                                R::Sym(false) => report(format!("{} | returned a symbol outside the support of the model (model #{})", $name, seq[j]), "C10"),
                                other => if !$allowed(other) { report(format!("{} | undocumented error {:?}", $name, other), "C10") },
                            }
                        }
                        res.len() as u64
                    }
                    Outcome::Value(Err(())) => 0,
                    Outcome::CleanPanic { msg, loc } => { report(format!("{} | panics on arbitrary data ({}: {})", $name, loc.rsplit_once(':').map(|x| x.0).unwrap_or(&loc), msg.chars().take(60).map(|ch| if ch.is_ascii_digit() { '#' } else { ch }).collect::<String>()), "C10"); 0 }
                    Outcome::OverflowPanic { msg, loc } => { report(format!("{} | arithmetic overflow on arbitrary data ({}: {})", $name, loc.rsplit_once(':').map(|x| x.0).unwrap_or(&loc), msg), "C10,C20"); 0 }
                }
            }};
        }
        let ans_err = |r: Result<bool, CoderError<core::convert::Infallible, core::convert::Infallible>>| -> R { match r { Ok(b) => R::Sym(b), Err(_) => unreachable!() } };
        let range_err = |r: Result<bool, CoderError<DecoderFrontendError, core::convert::Infallible>>| -> R { match r { Ok(b) => R::Sym(b), Err(CoderError::Frontend(DecoderFrontendError::InvalidData)) => R::InvalidData, Err(CoderError::Backend(e)) => match e {}, Err(CoderError::Frontend(_)) => R::OutOfData } };
        let none = |_: &R| false;
        let only_invalid = |r: &R| *r == R::InvalidData;
        let mut nd = 0;
        nd += run_coder!("AnsCoder<u8,u16>::from_binary", AnsCoder::<u8, u16>::from_binary(data.clone()).ok(), none, ans_err);
        nd += run_coder!("AnsCoder<u8,u32>::from_binary", AnsCoder::<u8, u32>::from_binary(data.clone()).ok(), none, ans_err);
        nd += run_coder!("AnsCoder<u8,u64>::from_compressed", AnsCoder::<u8, u64>::from_compressed(data.clone()).ok(), none, ans_err);
        nd += run_coder!("AnsCoder<u8,u16>::from_compressed", AnsCoder::<u8, u16>::from_compressed(data.clone()).ok(), none, ans_err);
        nd += run_coder!("RangeDecoder<u8,u16>", RangeDecoder::<u8, u16, _>::from_compressed(data.clone()).ok(), only_invalid, range_err);
        nd += run_coder!("RangeDecoder<u8,u32>", RangeDecoder::<u8, u32, _>::from_compressed(data.clone()).ok(), only_invalid, range_err);
        nd += run_coder!("RangeDecoder<u8,u64>", RangeDecoder::<u8, u64, _>::from_compressed(data.clone()).ok(), only_invalid, range_err);
        nsym.set(nsym.get() + nd);
        // chain coder: the precision is part of the type; run the P=8 models among the pair (and a P=2 pair)
        let p8 = |k: usize| matches!(k, 1 | 2 | 3 | 5 | 6 | 8 | 9 | 10 | 11);
        if p8(a) && p8(b) {
            macro_rules! chain8 { ($S:ty, $load:ident, $name:expr) => {{
                match guarded(|| {
                    let Ok(mut d) = ChainCoder::<u8, $S, Vec<u8>, Vec<u8>, 8>::$load(data.clone()) else { return vec![] };
                    let mut res = vec![];
                    for &k in &seq {
                        let r = match k {
                            1 => d.decode_symbol(Part::<u8, 8> { c: 255, p: 1 }).map(|s| s <= 1),
                            2 => d.decode_symbol(&m.cat).map(|s| s < 4),
                            3 => d.decode_symbol(&m.lookup).map(|s| s < 4),
                            5 => d.decode_symbol(&m.quant).map(|s| (-100..=100).contains(&s)),
                            6 => d.decode_symbol(&m.lazy).map(|s| s < 3),
                            8 => d.decode_symbol(&m.ncdec).map(|s| [70u32, 3, 900].contains(&s)),
                            10 => d.decode_symbol(&m.quant_i8).map(|_s| true),
                            11 => d.decode_symbol(&m.lookup_fast).map(|s| s < 4),
                            _ => d.decode_symbol(m.uni8).map(|s| s < 256),
                        };
                        let r = match r { Ok(b) => R::Sym(b), Err(CoderError::Frontend(constriction::stream::chain::DecoderFrontendError::OutOfCompressedData)) => R::OutOfData, Err(CoderError::Backend(_)) => unreachable!() };
                        res.push(r);
                        if !matches!(r, R::Sym(_)) { break; }
                    }
                    res
                }) {
                    Outcome::Value(res) => { for (j, r) in res.iter().enumerate() { if *r == R::Sym(false) { report(format!("{} | returned a symbol outside the support of the model (model #{})", $name, seq[j]), "C10"); } } nsym.set(nsym.get() + res.len() as u64); }
                    Outcome::CleanPanic { msg, loc } => report(format!("{} | panics on arbitrary data ({}: {})", $name, loc.rsplit_once(':').map(|x| x.0).unwrap_or(&loc), msg.chars().take(60).map(|ch| if ch.is_ascii_digit() { '#' } else { ch }).collect::<String>()), "C10"),
                    Outcome::OverflowPanic { msg, loc } => report(format!("{} | arithmetic overflow on arbitrary data ({}: {})", $name, loc.rsplit_once(':').map(|x| x.0).unwrap_or(&loc), msg), "C10,C20"),
                }
            }}; }
            // the same data decoded with the precision CHANGING on the way (4 -> 8 -> 2 and 2 -> 8): totality must survive
            // `increase_precision` / `decrease_precision` / `change_precision`
            macro_rules! chain_sched { ($S:ty, $name:expr) => {{
                match guarded(|| {
                    let mut n = 0u64;
                    let mut bad = false;
                    if let Ok(mut d) = ChainCoder::<u8, $S, Vec<u8>, Vec<u8>, 4>::from_binary(data.clone()) {
                        for _ in 0..2 { if let Ok(sym) = d.decode_symbol(Part::<u8, 4> { c: 5, p: 9 }) { n += 1; bad |= sym > 2; } }
                        if let Ok(mut d8) = d.increase_precision::<8>() {
                            for &k in seq.iter().take(3) {
                                let r = match k { 2 => d8.decode_symbol(&m.cat).map(|s| s < 4), 3 => d8.decode_symbol(&m.lookup).map(|s| s < 4), 6 => d8.decode_symbol(&m.lazy).map(|s| s < 3), _ => d8.decode_symbol(Part::<u8, 8> { c: 255, p: 1 }).map(|s| s <= 1) };
                                if let Ok(ok) = r { n += 1; bad |= !ok; }
                            }
                            if let Ok(mut d2) = d8.decrease_precision::<2>() {
                                for _ in 0..3 { if let Ok(sym) = d2.decode_symbol(Part::<u8, 2> { c: 1, p: 2 }) { n += 1; bad |= sym > 2; } }
                                if let Ok(mut d8) = d2.change_precision::<8>() { if let Ok(sym) = d8.decode_symbol(&m.cat) { n += 1; bad |= sym >= 4; } }
                            }
                        }
                    }
                    (n, bad)
                }) {
                    Outcome::Value((n, bad)) => { if bad { report(format!("{} | returned a symbol outside the support of the model", $name), "C10"); } nsym.set(nsym.get() + n); }
                    Outcome::CleanPanic { msg, loc } => report(format!("{} | panics on arbitrary data ({}: {})", $name, loc.rsplit_once(':').map(|x| x.0).unwrap_or(&loc), msg.chars().take(60).map(|ch| if ch.is_ascii_digit() { '#' } else { ch }).collect::<String>()), "C10"),
                    Outcome::OverflowPanic { msg, loc } => report(format!("{} | arithmetic overflow on arbitrary data ({}: {})", $name, loc.rsplit_once(':').map(|x| x.0).unwrap_or(&loc), msg), "C10,C20"),
                }
            }}; }
            chain_sched!(u16, "ChainCoder<u8,u16> with the precision changing 4 -> 8 -> 2 -> 8");
            chain_sched!(u32, "ChainCoder<u8,u32> with the precision changing 4 -> 8 -> 2 -> 8");
            chain8!(u16, from_binary, "ChainCoder<u8,u16,8>::from_binary");
            chain8!(u32, from_binary, "ChainCoder<u8,u32,8>::from_binary");
            chain8!(u32, from_compressed, "ChainCoder<u8,u32,8>::from_compressed");
        }
        sink.count("symbols_decoded", nsym.get());
        for what in found.into_inner() {
            sink.violation(&what, &format!("data {:x?} model program {:?}", data, seq), i);
        }
    }
}

struct Models16 {
    cat: ContiguousCategoricalEntropyModel<u16, Vec<u16>, 12>,
    lookup: ContiguousLookupDecoderModel<u16, Vec<u16>, Box<[u16]>, 12>,
    nclookup: NonContiguousLookupDecoderModel<u32, u16, Vec<(u16, u32)>, Box<[u16]>, 12>,
    quant: LeakilyQuantizedDistribution<f64, i32, u16, Gaussian, 12>,
    quant16: LeakilyQuantizedDistribution<f64, i16, u16, Gaussian, 16>,
    lazy: LazyContiguousCategoricalEntropyModel<u16, f32, Vec<f32>, 16>,
    uni: UniformModel<u16, 16>,
}

/// `part` = "w16/<maxlen>"  words over {0, 1, 0x7fff, 0x8000, 0xffff, 0x5a5a}
fn part_w16(part: &str, from: u64, to: u64, want: &str, sink: &mut ChildSink) {
    let f: Vec<&str> = part.split('/').collect();
    let maxlen: usize = f[1].parse().unwrap();
    let letters = [0u16, 1, 0x7fff, 0x8000, 0xffff, 0x5a5a];
    let m = Models16 {
        cat: ContiguousCategoricalEntropyModel::from_floating_point_probabilities_fast(&[0.1f64, 0.2, 0.7], None).unwrap(),
        lookup: ContiguousLookupDecoderModel::from_floating_point_probabilities_fast(&[0.1f64, 0.2, 0.7], None).unwrap(),
        nclookup: NonContiguousLookupDecoderModel::from_symbols_and_floating_point_probabilities_fast([9u32, 2, 77], &[0.5f64, 0.25, 0.25], None).unwrap(),
        quant: LeakyQuantizer::<f64, i32, u16, 12>::new(-100..=100).quantize(Gaussian::new(0.0, 10.0)),
        quant16: LeakyQuantizer::<f64, i16, u16, 16>::new(-3000..=3000).quantize(Gaussian::new(100.0, 700.0)),
        lazy: LazyContiguousCategoricalEntropyModel::from_floating_point_probabilities_fast(vec![0.3f32, 0.2, 0.5], None).unwrap(),
        uni: UniformModel::new(65536),
    };
    const NM: usize = 7;
    let nprog = (NM * NM) as u64;
    let mut offs = vec![0u64];
    for len in 0..=maxlen { offs.push(offs.last().unwrap() + (letters.len() as u64).pow(len as u32)); }
    for i in from..to {
        sink.begin_case(i);
        let (mut di, prog) = (i / nprog, (i % nprog) as usize);
        let len = (0..offs.len() - 1).find(|&l| di < offs[l + 1]).unwrap();
        di -= offs[len];
        let data: Vec<u16> = (0..len).map(|k| letters[(di / (letters.len() as u64).pow(k as u32) % letters.len() as u64) as usize]).collect();
        let (a, b) = (prog / NM, prog % NM);
        let seq = [a, b, a, b, a, b];
        sink.n += 1;
        let found = std::cell::RefCell::new(Vec::<String>::new());
        let nsym = std::cell::Cell::new(0u64);
        let report = |what: String, tags: &str| { if tags.split(',').any(|t| t == want) { found.borrow_mut().push(what); } };
        macro_rules! dec16 { ($d:expr, $k:expr) => { match $k {
            0 => $d.decode_symbol(&m.cat).map(|s| s < 3), 1 => $d.decode_symbol(&m.lookup).map(|s| s < 3), 2 => $d.decode_symbol(&m.nclookup).map(|s| [9u32, 2, 77].contains(&s)),
            3 => $d.decode_symbol(&m.quant).map(|s| (-100..=100).contains(&s)), 4 => $d.decode_symbol(&m.quant16).map(|s| (-3000..=3000).contains(&s)),
            5 => $d.decode_symbol(&m.lazy).map(|s| s < 3), _ => $d.decode_symbol(m.uni).map(|s| s < 65536) } }; }
        macro_rules! run16 { ($name:expr, $mk:expr, $range:expr) => {{
            match guarded(|| {
                let Some(mut d) = $mk else { return vec![] };
                let mut res = vec![];
                for &k in &seq {
                    match dec16!(d, k) {
                        Ok(b) => res.push(R::Sym(b)),
                        Err(_) => { res.push(if $range { R::InvalidData } else { R::OutOfData }); break; }
                    }
                }
                res
            }) {
                Outcome::Value(res) => { for (j, r) in res.iter().enumerate() { match r { R::Sym(false) => report(format!("{} | returned a symbol outside the support of the model (model #{})", $name, seq[j]), "C10"), R::OutOfData => report(format!("{} | undocumented error", $name), "C10"), _ => {} } } nsym.set(nsym.get() + res.len() as u64); }
                Outcome::CleanPanic { msg, loc } => report(format!("{} | panics on arbitrary data ({}: {})", $name, loc.rsplit_once(':').map(|x| x.0).unwrap_or(&loc), msg.chars().take(60).map(|ch| if ch.is_ascii_digit() { '#' } else { ch }).collect::<String>()), "C10"),
                Outcome::OverflowPanic { msg, loc } => report(format!("{} | arithmetic overflow on arbitrary data ({}: {})", $name, loc.rsplit_once(':').map(|x| x.0).unwrap_or(&loc), msg), "C10,C20"),
            }
        }}; }
        run16!("AnsCoder<u16,u32>::from_binary", AnsCoder::<u16, u32>::from_binary(data.clone()).ok(), false);
        run16!("AnsCoder<u16,u64>::from_compressed", AnsCoder::<u16, u64>::from_compressed(data.clone()).ok(), false);
        run16!("RangeDecoder<u16,u32>", RangeDecoder::<u16, u32, _>::from_compressed(data.clone()).ok(), true);
        run16!("RangeDecoder<u16,u64>", RangeDecoder::<u16, u64, _>::from_compressed(data.clone()).ok(), true);
        sink.count("symbols_decoded", nsym.get());
        for what in found.into_inner() {
            sink.violation(&what, &format!("data {:x?} model program {:?}", data, seq), i);
        }
    }
}

pub fn child(want: &str, part: &str, from: u64, to: u64) -> i32 {
    crate::isolate::install_panic_recorder();
    let mut sink = ChildSink::default();
    if part.starts_with("w8/") { part_w8(part, from, to, want, &mut sink) } else { part_w16(part, from, to, want, &mut sink) }
    sink.finish()
}

pub fn parts(tier: Tier) -> Vec<(String, u64, u64, String)> {
    let q = tier == Tier::Quick;
    let maxlen = if q { 2 } else { 3 };
    let (_, nd) = data_space(maxlen);
    let extra = corrupted_streams().len() as u64;
    let mut v = vec![(format!("w8/{maxlen}"), (nd + extra) * (N_MODELS8 * N_MODELS8) as u64, if q { 40000 } else { 400000 },
        format!("all u8 strings of length 0..={maxlen} ({nd}) + {extra} truncated/extended valid streams x 144 model programs x 7 stream decoders + chain coder"))];
    let ml16 = if q { 4 } else { 6 };
    let n16: u64 = (0..=ml16).map(|l| 6u64.pow(l as u32)).sum();
    v.push((format!("w16/{ml16}"), n16 * 49, 10000, format!("u16 strings over 6 boundary words of length 0..={ml16} ({n16}) x 49 model programs x 4 decoders")));
    v
}

pub fn run_with(report: &Report, want: &'static str) {
    let timeout = if report.tier == Tier::Quick { 90 } else { 600 };
    for (part, total, chunk, label) in parts(report.tier) {
        let t = std::time::Instant::now();
        let m = run_isolated(want, &format!("decode/{part}"), total, chunk, timeout);
        report.add_states(m.cases);
        report.add_traces(m.cases);
        for (k, v) in &m.counters {
            report.count(k, *v);
        }
        report.add_transitions(m.counters.get("symbols_decoded").copied().unwrap_or(m.cases));
        report.count("child_processes", m.children_spawned);
        for (identity, detail, i) in &m.violations {
            report.violation(Violation { identity: identity.clone(), detail: format!("{detail} [{part} case #{i}]"), case: json!({"kind": "decode_case", "want": want, "part": format!("decode/{part}"), "index": i}) });
        }
        for a in &m.abnormal {
            report.count("cases_ending_in_abort_or_timeout", 1);
            let site: String = a.stderr_tail.split(" | ").find(|l| l.contains("unsafe precondition") || l.contains("panicked")).unwrap_or("").chars().take(140).collect();
            report.violation(Violation {
                identity: format!("decoding arbitrary data | process {} | {site}", a.kind),
                detail: format!("{part} case #{}: {}", a.index, a.stderr_tail),
                case: json!({"kind": "decode_case", "want": want, "part": format!("decode/{part}"), "index": a.index}),
            });
        }
        if m.skipped > 0 {
            report.cap_hit(format!("{part}: {} cases not explored after {} aborting/hanging cases", m.skipped, m.abnormal.len()));
        }
        report.section(json!({"part": part, "what": label, "cases": m.cases, "child_processes": m.children_spawned, "aborts_or_timeouts": m.abnormal.len(),
            "violations": m.violations.len(), "wall_s": t.elapsed().as_secs_f64()}));
    }
}

pub fn run(report: &Report) {
    report.bound("every u8 string of length <= 2 (thorough 3) and truncated/extended valid streams x 144 model programs on 7 stream decoders and the chain coder; u16 strings over boundary words x 49 programs on 4 decoders");
    report.assume("each chunk of cases runs in a child process with a watchdog: aborts (out-of-bounds under std's unsafe-precondition checks), signals and hangs are outcomes of a case, not crashes of the check");
    report.require("symbols_decoded");
    report.sample(json!({"data": ["ff", "00"], "model_program": [3, 5, 3, 5, 3, 5], "models": ["Part<2>", "Part<8>", "categorical", "lookup-contiguous", "lookup-non-contiguous(P=5)", "quantised Gaussian", "lazy categorical", "uniform(10)@4", "non-contiguous(P=8, full precision)", "uniform(256)@8", "quantised Gaussian over all of i8"]}));
    run_with(report, "C10");
    super::pyfront::sweep(report, "decoders", if report.tier == Tier::Quick { 3 } else { 4 },
        "every u32 word string up to the listed length over 8 boundary words x 6 ways of constructing a decoder (AnsCoder, sealed AnsCoder, RangeDecoder, ChainCoder from compressed / sealed / remainders) x 5 models x {1, 6 symbols} x 3 call forms (one symbol per call, decode(model, amt), decode(family, parameter arrays)): symbols inside the support, or the documented error (AssertionError of RangeDecoder / ChainCoder, ValueError at construction); a PanicException is a violation",
        &[], &[]);
}

pub fn replay(case: &serde_json::Value) -> Result<String, String> {
    let want = case["want"].as_str().ok_or("want")?;
    let part = case["part"].as_str().ok_or("part")?;
    let i = case["index"].as_u64().ok_or("index")?;
    let exe = std::env::current_exe().map_err(|e| e.to_string())?;
    let out = std::process::Command::new(exe).args(["child", want, part, &i.to_string(), &(i + 1).to_string()]).output().map_err(|e| e.to_string())?;
    let stdout = String::from_utf8_lossy(&out.stdout);
    if !out.status.success() {
        return Err(format!("{part} case #{i}: child ended with {:?}: {}", out.status, String::from_utf8_lossy(&out.stderr).lines().filter(|l| !l.starts_with('@')).last().unwrap_or("")));
    }
    let viol: Vec<&str> = stdout.lines().filter(|l| l.contains("\"v\"")).collect();
    if viol.is_empty() { Ok(format!("{part} case #{i}: decoding is total and stays in the support")) } else { Err(viol.join("\n")) }
}

#[allow(unused)]
fn _u() { let _ = |e: &mut AnsCoder<u8, u32>| e.encode_symbol(0usize, UniformModel::<u8, 8>::new(2)); }
