//! C20, further hostile program families (safe public API only; run isolated like the others):
//!   * `hostile/huffman`  — every weight vector of length 1..=5 over {0,1,2,5} (as u32 and f32) and hostile
//!     float vectors: every symbol 0..=2n+3 and far outside through both codeword forms of the encoder tree
//!     and through the bit coders; every bit string of length <= 7 through the decoder tree.
//!   * `hostile/bits`     — every word string of length <= 2 over boundary words into `StackCoder` /
//!     `QueueDecoder` / `QueueEncoder::from_compressed`, then reads to exhaustion, writes, exports, inspections;
//!     Exp-Golomb decoding of EVERY bit string of length <= 18 for `u8` symbols and of boundary prefixes
//!     (BITS-1, BITS, BITS+1 zeros) for u16/u32/u64.
//!   * `hostile/seek`     — `seek` with every position 0..=len+2 and arbitrary coder states on `AnsCoder` and
//!     `RangeDecoder` over owned / borrowed / consuming / reversed backends, then decoding.
//!   * `hostile/chain`    — `ChainCoder` constructors on every word string of length <= 3 over boundary words
//!     (`from_binary`, `from_compressed`, `from_remainders`), then decode / encode / precision changes /
//!     exports in hostile orders (encoding without remainders, exporting a non-whole coder, ...).

use crate::isolate::{guarded, ChildSink, Outcome};
use crate::models::{Part, Raw};
use constriction::backends::{Cursor, ReadWords};
use constriction::stream::chain::ChainCoder;
use constriction::stream::model::*;
use constriction::stream::queue::{RangeCoderState, RangeDecoder, RangeEncoder};
use constriction::stream::stack::AnsCoder;
use constriction::stream::{Decode, Encode};
use constriction::symbol::exp_golomb::ExpGolomb;
use constriction::symbol::huffman::{DecoderHuffmanTree, EncoderHuffmanTree};
use constriction::symbol::{DecoderCodebook, EncoderCodebook, QueueDecoder, QueueEncoder, ReadBitStream, StackCoder, WriteBitStream};
use constriction::{Pos, Seek, Stack};
use core::convert::Infallible;

fn hostile(sink: &mut ChildSink, i: u64, what: &str, desc: impl Fn() -> String, f: impl FnOnce()) {
    sink.count("hostile_programs", 1);
    match guarded(f) {
        Outcome::Value(()) => sink.count("programs_ending_in_a_value_or_error", 1),
        Outcome::CleanPanic { .. } => sink.count("programs_ending_in_a_clean_panic", 1),
        Outcome::OverflowPanic { msg, loc } => sink.violation(
            &format!("{what} | arithmetic that only works because release builds wrap ({}: {msg})", loc.rsplit_once(':').map(|x| x.0).unwrap_or(&loc)),
            &desc(),
            i,
        ),
    }
}

// ---------------------------------------------------------------- Huffman
const HW: [u32; 4] = [0, 1, 2, 5];
fn huffman_vectors() -> Vec<Vec<u32>> {
    let mut out = vec![];
    for len in 1..=5usize {
        for idx in 0..4usize.pow(len as u32) {
            out.push((0..len).map(|k| HW[idx / 4usize.pow(k as u32) % 4]).collect());
        }
    }
    out
}
fn hostile_floats() -> Vec<Vec<f32>> {
    vec![vec![], vec![f32::NAN], vec![1.0, f32::NAN], vec![f32::INFINITY, 1.0], vec![f32::INFINITY, f32::INFINITY, f32::NEG_INFINITY], vec![-1.0, 2.0, -3.0],
        vec![0.0], vec![-0.0, 0.0], vec![1e-45, 3e38, 3e38], vec![f32::MAX, f32::MAX, f32::MAX, f32::MAX]]
}
pub fn huffman_total() -> u64 {
    (huffman_vectors().len() * 2 + hostile_floats().len() + huffman_vectors().iter().filter(|v| v.len() <= 4).count() * 6) as u64
}
/// a weight type whose `Ord` (a safe trait) is not an order
#[derive(Clone, Debug)]
struct Weird(u32, u8);
thread_local! { static FLIP: core::cell::Cell<u32> = core::cell::Cell::new(0); }
impl PartialEq for Weird { fn eq(&self, o: &Self) -> bool { self.cmp(o) == core::cmp::Ordering::Equal } }
impl Eq for Weird {}
impl PartialOrd for Weird { fn partial_cmp(&self, o: &Self) -> Option<core::cmp::Ordering> { Some(self.cmp(o)) } }
impl Ord for Weird {
    fn cmp(&self, o: &Self) -> core::cmp::Ordering {
        use core::cmp::Ordering::*;
        match self.1 {
            0 => Less, 1 => Greater, 2 => Equal, 3 => o.0.cmp(&self.0),
            4 => if (self.0 + o.0) % 2 == 0 { Less } else { Greater },
            _ => FLIP.with(|f| { f.set(f.get().wrapping_add(1)); [Less, Greater, Equal][(f.get() % 3) as usize] }),
        }
    }
}
impl core::ops::Add for Weird { type Output = Weird; fn add(self, o: Weird) -> Weird { Weird(self.0.wrapping_add(o.0), self.1) } }
fn huffman_ops(enc: &EncoderHuffmanTree, dec: &DecoderHuffmanTree, n: usize) {
    let mut syms: Vec<usize> = (0..=2 * n + 3).collect();
    syms.extend([usize::MAX, usize::MAX / 2, usize::MAX / 2 + 1, 1 << 32, (1 << 32) + 1, 1 << 16]);
    for &s in &syms {
        let _ = enc.encode_symbol_suffix(s, |_b| Ok::<(), Infallible>(()));
        let _ = enc.encode_symbol_prefix(s, |_b| Ok::<(), Infallible>(()));
        let mut st = StackCoder::<u8>::new();
        let _ = st.encode_symbol(s, enc);
        let _ = st.encode_symbol(s, enc);
        let _ = st.into_compressed();
        let mut qe = QueueEncoder::<u8>::new();
        let _ = qe.encode_symbol(s, enc);
        let _ = qe.into_compressed();
    }
    let _ = (enc.num_symbols(), dec.num_symbols());
    for len in 0..=7u32 {
        for bits in 0..(1u32 << len) {
            let mut it = (0..len).map(|k| Ok::<bool, Infallible>((bits >> k) & 1 == 1));
            let _ = dec.decode_symbol(&mut it);
        }
    }
    // decoding from bit coders holding arbitrary words
    for w in [0u8, 1, 0x80, 0xff, 0x5a] {
        if let Ok(mut st) = StackCoder::<u8>::from_compressed(vec![w, w | 1]) {
            for _ in 0..20 { let _ = st.decode_symbol(dec); }
        }
        let mut qd = QueueDecoder::<u8, _>::from_compressed(Cursor::new_at_write_beginning(vec![w, !w]));
        for _ in 0..20 { let _ = qd.decode_symbol(dec); }
    }
}
pub fn huffman_program(i: u64, sink: &mut ChildSink) {
    let vs = huffman_vectors();
    let nv = vs.len() as u64;
    if i < 2 * nv {
        let w = vs[(i % nv) as usize].clone();
        let float = i >= nv;
        let desc = { let w = w.clone(); move || format!("Huffman trees from weights {:?} ({}), then every symbol 0..=2n+3 and far outside, every bit string of length <= 7", w, if float { "as f32" } else { "as u32" }) };
        hostile(sink, i, "Huffman codebooks with in- and out-of-alphabet symbols / arbitrary bits", desc, || {
            if float {
                let f: Vec<f32> = w.iter().map(|&x| x as f32 * 0.1).collect();
                let (Ok(enc), Ok(dec)) = (EncoderHuffmanTree::from_float_probabilities::<f32, _>(&f), DecoderHuffmanTree::from_float_probabilities::<f32, _>(&f)) else { return };
                huffman_ops(&enc, &dec, w.len());
            } else {
                let enc = EncoderHuffmanTree::from_probabilities::<u32, _>(&w);
                let dec = DecoderHuffmanTree::from_probabilities::<u32, _>(&w);
                huffman_ops(&enc, &dec, w.len());
            }
        });
    } else if i >= 2 * nv + hostile_floats().len() as u64 {
        let k = i - 2 * nv - hostile_floats().len() as u64;
        let small: Vec<&Vec<u32>> = vs.iter().filter(|v| v.len() <= 4).collect();
        let (w, mode) = (small[(k % small.len() as u64) as usize].clone(), (k / small.len() as u64) as u8);
        let desc = { let w = w.clone(); move || format!("Huffman trees from weights {:?} of a type whose Ord is not an order (mode {mode})", w) };
        hostile(sink, i, "Huffman codebooks from weights with an inconsistent Ord", desc, || {
            let ww: Vec<Weird> = w.iter().map(|&x| Weird(x, mode)).collect();
            let enc = EncoderHuffmanTree::from_probabilities::<Weird, _>(&ww);
            let dec = DecoderHuffmanTree::from_probabilities::<Weird, _>(&ww);
            huffman_ops(&enc, &dec, w.len());
        });
    } else {
        let f = hostile_floats()[(i - 2 * nv) as usize].clone();
        let desc = { let f = f.clone(); move || format!("Huffman trees from hostile float weights {:?}", f) };
        hostile(sink, i, "Huffman codebooks from hostile weights", desc, || {
            let e = EncoderHuffmanTree::from_float_probabilities::<f32, _>(&f);
            let d = DecoderHuffmanTree::from_float_probabilities::<f32, _>(&f);
            if let (Ok(enc), Ok(dec)) = (e, d) { huffman_ops(&enc, &dec, f.len()); }
        });
    }
}

// ---------------------------------------------------------------- bit coders and Exp-Golomb on arbitrary bits
const BW8: [u8; 7] = [0x00, 0x01, 0x02, 0x7f, 0x80, 0xff, 0x5a];
fn bit_word_strings() -> Vec<Vec<u8>> {
    let mut out = vec![vec![]];
    for a in BW8 { out.push(vec![a]); }
    for a in BW8 { for b in BW8 { out.push(vec![a, b]); } }
    for a in [0u8, 1, 0xff] { for b in [0u8, 1, 0xff] { for c in [0u8, 1, 0x80, 0xff] { out.push(vec![a, b, c]); } } }
    out
}
const EG_BITS: u32 = 18;
pub fn bits_total() -> u64 {
    bit_word_strings().len() as u64 * 4 + (1u64 << (EG_BITS + 1)) / 64 + 3 * 12
}
pub fn bits_program(i: u64, sink: &mut ChildSink) {
    let ws = bit_word_strings();
    let nw = ws.len() as u64 * 4;
    if i < nw {
        let w = ws[(i / 4) as usize].clone();
        let op = i % 4;
        let desc = { let w = w.clone(); move || format!("bit coders over the words {:x?}, operation group #{op}", w) };
        hostile(sink, i, "bit-level coders over arbitrary words", desc, || {
            let eg8 = ExpGolomb::<u8>::new();
            let eg32 = ExpGolomb::<u32>::new();
            match op {
                0 => {
                    if let Ok(mut st) = StackCoder::<u8>::from_compressed(w.clone()) {
                        let _ = (st.len(), st.is_empty());
                        for _ in 0..30 { let _ = st.read_bit(); }
                        let _ = st.write_bit(true);
                        let _ = st.get_compressed().len();
                        let _ = st.into_compressed();
                    }
                }
                1 => {
                    if let Ok(mut st) = StackCoder::<u8>::from_compressed(w.clone()) {
                        for k in 0..6 { let _ = if k % 2 == 0 { st.decode_symbol(&eg8).map(|x| x as u32) } else { st.decode_symbol(&eg32) }; }
                        let _ = st.encode_symbol(255u8, &eg8);
                        let _ = st.encode_symbol(u32::MAX, &eg32);
                        let _: Vec<_> = st.as_decoder().take(40).collect();
                        let _ = st.into_decoder().read_bit();
                    }
                }
                2 => {
                    let mut qd = QueueDecoder::<u8, _>::from_compressed(Cursor::new_at_write_beginning(w.clone()));
                    for k in 0..8 { let _ = if k % 2 == 0 { qd.decode_symbol(&eg8).map(|x| x as u32) } else { qd.decode_symbol(&eg32) }; let _ = qd.maybe_exhausted(); }
                    for _ in 0..30 { let _ = qd.read_bit(); }
                }
                _ => {
                    let mut qe = QueueEncoder::<u8>::from_compressed(w.clone());
                    let _ = (qe.len(), qe.is_empty());
                    for k in 0..11 { let _ = qe.write_bit(k % 3 == 0); }
                    let _ = qe.encode_symbol(0u8, &eg8);
                    let _ = qe.get_compressed().len();
                    if let Ok(mut d) = qe.into_decoder() { for _ in 0..40 { let _ = d.read_bit(); } }
                }
            }
        });
        return;
    }
    let j = i - nw;
    let neg = (1u64 << (EG_BITS + 1)) / 64;
    if j < neg {
        // Exp-Golomb<u8>: every bit string of length <= EG_BITS, 64 strings per case (index = 1-prefixed value)
        let desc = move || format!("ExpGolomb::<u8>::decode_symbol on the bit strings with 1-prefixed indices {}..{}", j * 64, j * 64 + 64);
        hostile(sink, i, "Exp-Golomb decoding of arbitrary bits", desc, || {
            let eg8 = ExpGolomb::<u8>::new();
            for v in (j * 64).max(1)..(j * 64 + 64) {
                let len = 63 - v.leading_zeros(); // bits after the leading 1 of the index
                let mut it = (0..len).map(|k| Ok::<bool, Infallible>((v >> k) & 1 == 1));
                if let Ok(s) = eg8.decode_symbol(&mut it) {
                    // what decodes must re-encode to the bits consumed
                    let mut back = vec![];
                    let _ = eg8.encode_symbol_prefix(s, |b| { back.push(b); Ok::<(), Infallible>(()) });
                    let consumed = len as usize - it.count();
                    let orig: Vec<bool> = (0..consumed as u32).map(|k| (v >> k) & 1 == 1).collect();
                    if back != orig { panic!("HARNESS-MODEL: Exp-Golomb decode/encode mismatch is C16's business, not C20's"); }
                }
            }
        });
        return;
    }
    let k = j - neg;
    let (ty, variant) = (k / 12, k % 12);
    let desc = move || format!("ExpGolomb over type #{ty} (u16/u32/u64): boundary prefix variant #{variant}");
    hostile(sink, i, "Exp-Golomb decoding of arbitrary bits", desc, || {
        macro_rules! go { ($N:ty) => {{
            let eg = ExpGolomb::<$N>::new();
            let bits = <$N>::BITS as usize;
            let zeros = [bits - 1, bits, bits + 1, 2 * bits + 3][(variant % 4) as usize];
            let tail_one = variant / 4; // 0: all zeros after the 1, 1: all ones, 2: truncated
            let mut v = vec![false; zeros];
            v.push(true);
            match tail_one { 0 => v.extend(vec![false; zeros]), 1 => v.extend(vec![true; zeros]), _ => v.extend(vec![true; zeros / 2]) }
            let _ = eg.decode_symbol(v.iter().map(|&b| Ok::<bool, Infallible>(b)));
            for s in [0 as $N, 1, <$N>::MAX, <$N>::MAX - 1, <$N>::MAX / 2, <$N>::MAX / 2 + 1] {
                let _ = eg.encode_symbol_prefix(s, |_| Ok::<(), Infallible>(()));
                let _ = eg.encode_symbol_suffix(s, |_| Ok::<(), Infallible>(()));
            }
        }}; }
        match ty { 0 => go!(u16), 1 => go!(u32), _ => go!(u64) }
    });
}

// ---------------------------------------------------------------- seek with arbitrary positions and states
const SEEK_STATES: [u16; 10] = [0, 1, 0x00ff, 0x0100, 0x0101, 0x7fff, 0x8000, 0xfffe, 0xffff, 0x5a5a];
pub fn seek_total() -> u64 {
    // data length 0..=3, pos 0..=len+2, state index, backend kind 0..6
    let mut n = 0;
    for len in 0..=3u64 { n += (len + 3) * SEEK_STATES.len() as u64 * 6; }
    n
}
pub fn seek_program(i: u64, sink: &mut ChildSink) {
    let mut k = i;
    let mut len = 0u64;
    loop { let span = (len + 3) * SEEK_STATES.len() as u64 * 6; if k < span { break; } k -= span; len += 1; }
    let kind = k % 6; k /= 6;
    let state = SEEK_STATES[(k % SEEK_STATES.len() as u64) as usize]; k /= SEEK_STATES.len() as u64;
    let pos = k as usize;
    let data: Vec<u8> = [0x12u8, 0x00, 0xff][..len as usize].to_vec();
    let desc = { let data = data.clone(); move || format!("backend kind #{kind} over {:x?}: seek(({pos}, state {state:#x})) then decoding", data) };
    hostile(sink, i, "seek with an arbitrary position and coder state", desc, || {
        let lk = ContiguousLookupDecoderModel::<u8, Vec<u8>, Box<[u8]>, 8>::from_nonzero_fixed_point_probabilities([100u8, 1, 55, 100], false).unwrap();
        let part = Part::<u8, 3> { c: 2, p: 5 };
        match kind {
            0 => { // ANS, owned cursor
                let mut d = AnsCoder::<u8, u16, _>::from_compressed(Cursor::new_at_write_end(data.clone())).unwrap_or_else(|_| AnsCoder::<u8, u16, _>::from_binary(Cursor::new_at_write_end(data.clone())).unwrap());
                let _ = d.seek((pos, state));
                for _ in 0..4 { let _ = d.decode_symbol(&lk); let _ = d.decode_symbol(part); }
                let _ = (d.pos(), d.is_empty());
            }
            1 => { // ANS, consuming Vec
                let mut d = AnsCoder::<u8, u16>::from_binary(data.clone()).unwrap();
                let _ = d.seek((pos, state));
                for _ in 0..4 { let _ = d.decode_symbol(&lk); }
                let _ = d.encode_symbol((), Raw::<u8, 8> { c: 3, p: 5 });
                let _ = d.into_compressed();
            }
            2 => { // ANS, reversed cursor
                let mut d = AnsCoder::<u8, u16, _>::from_binary(Cursor::new_at_write_end(data.clone())).unwrap().into_reversed();
                let _ = d.seek((pos, state));
                for _ in 0..4 { let _ = d.decode_symbol(&lk); }
            }
            3 | 4 => { // range decoder, owned / borrowed
                let rstates = [RangeCoderState::<u8, u16>::new(state, 0x0100), RangeCoderState::<u8, u16>::new(state, 0xffff), RangeCoderState::<u8, u16>::new(state, state | 0x100), RangeCoderState::<u8, u16>::new(0, state)];
                for rs in rstates.into_iter().flatten() {
                    if kind == 3 {
                        if let Ok(mut d) = RangeDecoder::<u8, u16, _>::from_compressed(data.clone()) {
                            let _ = d.seek((pos, rs));
                            for _ in 0..4 { let _ = d.decode_symbol(&lk); let _ = d.decode_symbol(part); }
                            let _ = d.maybe_exhausted();
                        }
                    } else if let Ok(mut d) = RangeDecoder::<u8, u16, _>::from_compressed(&data[..]) {
                        let _ = d.seek((pos, rs));
                        for _ in 0..4 { let _ = d.decode_symbol(&lk); }
                        let _ = d.maybe_exhausted();
                    }
                }
            }
            _ => { // range encoder started on a sink with data, temporary decoder, seek on it
                let mut e = RangeEncoder::<u8, u16>::with_backend(data.clone());
                for _ in 0..(pos % 3) { let _ = e.encode_symbol((), Raw::<u8, 8> { c: (state & 0x7f) as u8, p: 1 + (state >> 9) as u8 }); }
                if let Ok(rs) = RangeCoderState::<u8, u16>::new(state, 0x0100) {
                    let mut d = e.decoder();
                    let _ = d.seek((pos, rs));
                    for _ in 0..3 { let _ = d.decode_symbol(&lk); }
                }
                let _ = e.into_compressed();
            }
        }
    });
}

// ---------------------------------------------------------------- chain coder in hostile orders
const CW8: [u8; 5] = [0x00, 0x01, 0x80, 0xff, 0x5a];
fn chain_words() -> Vec<Vec<u8>> {
    let mut out = vec![vec![]];
    for a in CW8 { out.push(vec![a]); }
    for a in CW8 { for b in CW8 { out.push(vec![a, b]); } }
    for a in CW8 { for b in CW8 { for c in CW8 { out.push(vec![a, b, c]); } } }
    for a in [0u8, 1, 0xff] { for b in [0u8, 0xff] { out.push(vec![a, b, a, b, 0x01]); out.push(vec![b, a, 0, 0, 0, b]); } }
    for a in CW8 { for b in [0x00u8, 0xff, 0x5a] { out.push(vec![a, b, 0xff, a, b, 0x80, a]); out.push(vec![0xff, 0xff, b, a, 0xff, 0xff, 0xff, a]); } }
    out
}
pub fn chain_total() -> u64 { chain_words().len() as u64 * 10 }
pub fn chain_program(i: u64, sink: &mut ChildSink) {
    let ws = chain_words();
    let w = ws[(i / 10) as usize].clone();
    let op = i % 10;
    let desc = { let w = w.clone(); move || format!("ChainCoder over the words {:x?}, hostile operation order #{op}", w) };
    hostile(sink, i, "ChainCoder constructors and operations in hostile orders", desc, || {
        type C2 = ChainCoder<u8, u16, Vec<u8>, Vec<u8>, 2>;
        type C8 = ChainCoder<u8, u16, Vec<u8>, Vec<u8>, 8>;
        type C32 = ChainCoder<u8, u32, Vec<u8>, Vec<u8>, 5>;
        let m2 = Part::<u8, 2> { c: 1, p: 2 };
        let m8 = Part::<u8, 8> { c: 0, p: 255 };
        let m5 = Part::<u8, 5> { c: 31, p: 1 };
        match op {
            0 => { if let Ok(mut c) = C2::from_binary(w.clone()) { for _ in 0..14 { let _ = c.decode_symbol(m2); } let _ = c.is_whole(); let _ = c.clone().into_remainders(); let _ = c.clone().into_binary(); let _ = c.into_compressed(); } }
            1 => { if let Ok(mut c) = C2::from_compressed(w.clone()) { for _ in 0..14 { let _ = c.decode_symbol(m2); } let _ = c.clone().into_compressed(); let _ = c.into_binary(); } }
            2 => { if let Ok(mut c) = C2::from_remainders(w.clone()) { for k in 0..14u8 { let _ = c.encode_symbol((), Raw::<u8, 2> { c: k % 3, p: 1 }); } let _ = c.clone().into_binary(); let _ = c.clone().into_compressed(); let _ = c.into_remainders(); } }
            3 => { if let Ok(mut c) = C8::from_binary(w.clone()) { for _ in 0..5 { let _ = c.decode_symbol(m8); } for _ in 0..7 { let _ = c.encode_symbol((), Raw::<u8, 8> { c: 255, p: 1 }); } let _ = c.into_binary(); } }
            4 => { if let Ok(mut c) = C8::from_remainders(w.clone()) { for _ in 0..5 { let _ = c.encode_symbol((), Raw::<u8, 8> { c: 0, p: 255 }); } for _ in 0..7 { let _ = c.decode_symbol(m8); } let _ = c.into_remainders(); } }
            5 => { if let Ok(mut c) = C32::from_binary(w.clone()) { for _ in 0..9 { let _ = c.decode_symbol(m5); } let _ = c.clone().change_precision::<8>().map(|mut d| { let _ = d.decode_symbol(m8); let _ = d.change_precision::<1>(); }); let _ = c.into_remainders(); } }
            6 => { if let Ok(c) = C32::from_compressed(w.clone()) { let _ = c.clone().increase_precision::<8>(); let _ = c.clone().decrease_precision::<1>(); let _ = c.clone().change_precision::<5>(); let _ = c.into_compressed(); } }
            7 => {
                // seek with positions / heads taken from another coder
                if let (Ok(mut a), Ok(mut b)) = (ChainCoder::<u8, u16, Cursor<u8, Vec<u8>>, Vec<u8>, 2>::from_binary(Cursor::new_at_write_end(w.clone())), ChainCoder::<u8, u16, Cursor<u8, Vec<u8>>, Vec<u8>, 2>::from_binary(Cursor::new_at_write_end(vec![0xff, 0x01, 0x80, 0x00]))) {
                    for _ in 0..3 { let _ = b.decode_symbol(m2); }
                    let p = b.pos();
                    let _ = a.seek(p);
                    for _ in 0..6 { let _ = a.decode_symbol(m2); }
                    let _ = a.maybe_exhausted();
                }
            }
            8 => {
                // precision changes in the middle of decoding, then symbols of high and of minimal probability
                for k in 0..6usize {
                    if let Ok(mut c) = C2::from_binary(w.clone()) {
                        for _ in 0..k { let _ = c.decode_symbol(m2); }
                        if let Ok(mut d) = c.clone().increase_precision::<8>() { for _ in 0..3 { let _ = d.decode_symbol(m8); let _ = d.decode_symbol(Part::<u8, 8> { c: 255, p: 1 }); } let _ = d.into_remainders(); }
                        if let Ok(mut d) = c.clone().change_precision::<7>() { for _ in 0..3 { let _ = d.decode_symbol(Part::<u8, 7> { c: 0, p: 127 }); } let _ = d.change_precision::<3>().map(|mut e| { let _ = e.decode_symbol(Part::<u8, 3> { c: 1, p: 6 }); }); }
                        if let Ok(mut d) = c.decrease_precision::<1>() { for _ in 0..3 { let _ = d.decode_symbol(Part::<u8, 1> { c: 0, p: 1 }); } }
                    }
                    if let Ok(mut c) = C32::from_binary(w.clone()) {
                        for _ in 0..k { let _ = c.decode_symbol(m5); }
                        if let Ok(mut d) = c.increase_precision::<8>() { for _ in 0..3 { let _ = d.decode_symbol(m8); } }
                    }
                }
            }
            _ => {
                if let Ok(mut c) = C2::from_remainders(w.clone()) {
                    // alternate encode / decode far beyond what either side holds
                    for k in 0..20u8 { if k % 3 == 0 { let _ = c.decode_symbol(m2); } else { let _ = c.encode_symbol((), Raw::<u8, 2> { c: 3, p: 1 }); } }
                    let _ = (c.maybe_exhausted(), c.maybe_full());
                    let _ = c.into_remainders();
                }
            }
        }
    });
    let _ = ReadWords::<u8, Stack>::read(&mut Vec::<u8>::new());
}

// ---------------------------------------------------------------- user-written distributions behind the quantizer
// `LeakyQuantizer::quantize` accepts any `D: probability::distribution::{Distribution, Inverse}` — safe traits a user
// can implement with a cdf that is not a cdf at all. Whatever the cdf returns, safe code must not reach
// `NonZero::new_unchecked(0)` / `get_unchecked` out of bounds. (Wrong symbols, panics and overflow panics are the
// user's problem here: a broken cdf voids every functional guarantee, only memory safety remains.)
struct UserDist { shape: u8, hint: u8 }
impl probability::distribution::Distribution for UserDist {
    type Value = f64;
    fn distribution(&self, x: f64) -> f64 {
        match self.shape {
            0 => 2.0, 1 => 1.0, 2 => 0.0, 3 => -1.0, 4 => f64::NAN, 5 => f64::INFINITY, 6 => f64::NEG_INFINITY, 7 => 1e300,
            8 => 1.0 - 1.0 / (1.0 + (-x / 1.7).exp()),          // decreasing
            9 => if x < 0.5 { 0.0 } else { 1.0 },               // a step (a valid cdf)
            10 => (x * 0.37).abs().fract(),                       // sawtooth
            11 => 1.0 / (1.0 + (-(x - 0.3) / 1.7).exp()),        // a valid cdf (control)
            12 => x,                                              // unbounded
            13 => 1e-300, 14 => 1.0 + 1e-9,
            15 => if x < 0.5 { 1.0 } else { 0.0 },               // a step down
            16 => if (x.floor() as i64) % 2 == 0 { 0.9 } else { 0.1 }, // zig-zag
            _ => 0.5,
        }
    }
}
impl probability::distribution::Inverse for UserDist {
    fn inverse(&self, p: f64) -> f64 {
        match self.hint { 0 => 0.0, 1 => -1e9, 2 => 1e9, 3 => f64::NAN, 4 => f64::INFINITY, 5 => 0.3 + 1.7 * (p / (1.0 - p)).ln(), _ => 1.0 }
    }
}
const DIST_SHAPES: u64 = 18;
const DIST_HINTS: u64 = 7;
const DIST_CONFIGS: u64 = 8;
const DIST_SUPPORTS: u64 = 4;
pub fn dist_total() -> u64 { DIST_SHAPES * DIST_HINTS * DIST_CONFIGS * DIST_SUPPORTS }

fn dist_case<S, P, const PREC: usize>(sink: &mut ChildSink, i: u64, shape: u8, hint: u8, lo: S, hi: S, name: &str)
where
    S: num_traits::PrimInt + num_traits::AsPrimitive<P> + num_traits::AsPrimitive<usize> + Into<f64> + num_traits::WrappingSub + num_traits::WrappingAdd + core::fmt::Debug + std::panic::RefUnwindSafe + 'static,
    P: constriction::BitArray + Into<f64> + num_traits::AsPrimitive<usize> + std::panic::RefUnwindSafe,
    f64: num_traits::AsPrimitive<P> + num_traits::AsPrimitive<S>,
    usize: num_traits::AsPrimitive<P>,
{
    sink.count("hostile_programs", 1);
    sink.count("user_distributions", 1);
    let q = LeakyQuantizer::<f64, S, P, PREC>::new(lo..=hi);
    let m = q.quantize(UserDist { shape, hint });
    let total: usize = if PREC >= 20 { 0 } else { 1usize << PREC };
    let mut quantiles: Vec<usize> = if total != 0 && total <= 4096 { (0..total).collect() } else { vec![] };
    if quantiles.is_empty() {
        let top = if PREC >= usize::BITS as usize { usize::MAX } else { (1usize << PREC) - 1 };
        quantiles = vec![0, 1, 2, top / 3, top / 2, top / 2 + 1, top - 2, top - 1, top];
    }
    let (mut values, mut panics) = (0u64, 0u64);
    for &x in &quantiles {
        let xp: P = num_traits::AsPrimitive::<P>::as_(x);
        match guarded(|| m.quantile_function(xp)) { Outcome::Value(_) => values += 1, _ => panics += 1 }
    }
    let mut syms = vec![lo, hi, lo + S::one(), hi - S::one()];
    let mut s = lo; let mut k = 0;
    while s < hi && k < 40 { syms.push(s); s = s + S::one(); k += 1; }
    for s in syms {
        match guarded(|| m.left_cumulative_and_probability(s)) { Outcome::Value(_) => values += 1, _ => panics += 1 }
    }
    match guarded(|| m.symbol_table().take(300).count()) { Outcome::Value(_) => values += 1, _ => panics += 1 }
    let _ = (i, name);
    sink.count("user_distribution_queries_answered", values);
    sink.count("user_distribution_queries_panicking", panics);
    sink.count(if panics == 0 { "programs_ending_in_a_value_or_error" } else { "programs_ending_in_a_clean_panic" }, 1);
}

pub fn dist_program(i: u64, sink: &mut ChildSink) {
    let mut k = i;
    let sup = (k % DIST_SUPPORTS) as usize; k /= DIST_SUPPORTS;
    let cfg = k % DIST_CONFIGS; k /= DIST_CONFIGS;
    let hint = (k % DIST_HINTS) as u8; k /= DIST_HINTS;
    let shape = k as u8;
    match cfg {
        0 => { let s = [(0i8, 1i8), (-5, 5), (-128, 127), (0, 100)][sup]; dist_case::<i8, u8, 8>(sink, i, shape, hint, s.0, s.1, "i8/u8/8") }
        1 => { let s = [(0i8, 1i8), (-5, 5), (-7, 7), (100, 110)][sup]; dist_case::<i8, u8, 4>(sink, i, shape, hint, s.0, s.1, "i8/u8/4") }
        2 => { let s = [(0u8, 1u8), (0, 255), (250, 255), (3, 100)][sup]; dist_case::<u8, u8, 8>(sink, i, shape, hint, s.0, s.1, "u8/u8/8") }
        3 => { let s = [(0i16, 1i16), (-5, 5), (-32768, 32767), (-100, 30000)][sup]; dist_case::<i16, u16, 16>(sink, i, shape, hint, s.0, s.1, "i16/u16/16") }
        4 => { let s = [(0i16, 1i16), (-5, 5), (-2000, 2000), (32000, 32767)][sup]; dist_case::<i16, u16, 12>(sink, i, shape, hint, s.0, s.1, "i16/u16/12") }
        5 => { let s = [(0i32, 1i32), (-5, 5), (-(1 << 20), 1 << 20), (i32::MAX - 3, i32::MAX)][sup]; dist_case::<i32, u32, 24>(sink, i, shape, hint, s.0, s.1, "i32/u32/24") }
        6 => { let s = [(0i32, 1i32), (-5, 5), (i32::MIN, i32::MAX), (i32::MIN, i32::MIN + 2)][sup]; dist_case::<i32, u32, 32>(sink, i, shape, hint, s.0, s.1, "i32/u32/32") }
        _ => { let s = [(0u8, 1u8), (0, 255), (250, 255), (3, 100)][sup]; dist_case::<u8, u16, 12>(sink, i, shape, hint, s.0, s.1, "u8/u16/12") }
    }
}

// ---------------------------------------------------------------- user-written entropy models that lie
// `EncoderModel` / `DecoderModel` are safe traits: a user's impl may return any (left cumulative, probability), also
// pairs that do not fit the precision, and a decoder model may answer any quantile with anything. Functional
// guarantees are void then; memory safety is not (only std's unsafe-precondition checks and signals are verdicts here).
#[derive(Clone, Copy, Debug)]
struct Liar<const P: usize> { s: u8, c: u8, p: u8 }
impl<const P: usize> EntropyModel<P> for Liar<P> { type Symbol = u8; type Probability = u8; }
impl<const P: usize> DecoderModel<P> for Liar<P> {
    fn quantile_function(&self, _q: u8) -> (u8, u8, core::num::NonZeroU8) { (self.s, self.c, core::num::NonZeroU8::new(self.p).unwrap()) }
}
const LIE_C: [u8; 7] = [0, 1, 15, 16, 127, 128, 255];
const LIE_P: [u8; 5] = [1, 2, 16, 128, 255];
pub fn liar_total() -> u64 { (LIE_C.len() * LIE_P.len()).pow(2) as u64 * 2 * 5 }
fn liar_case<const P: usize>(kind: u64, a: (u8, u8), b: (u8, u8)) {
    let (ra, rb) = (Raw::<u8, P> { c: a.0, p: a.1 }, Raw::<u8, P> { c: b.0, p: b.1 });
    let (la, lb) = (Liar::<P> { s: 7, c: a.0, p: a.1 }, Liar::<P> { s: 200, c: b.0, p: b.1 });
    let data: Vec<u8> = vec![0x12, 0xff, 0x00, 0x80, 0x5a, 0x01, 0xfe, 0x33];
    match kind {
        0 => {
            let mut c = AnsCoder::<u8, u16>::from_binary(data.clone()).unwrap();
            let _ = guarded(|| { let _ = c.decode_symbol(la); let _ = c.decode_symbol(lb); let _ = c.encode_symbol((), ra); let _ = c.encode_symbol((), rb); let _ = c.decode_symbol(lb); });
            let _ = guarded(|| { let _ = c.get_compressed().map(|x| x.len()); let _ = c.clone().into_binary(); c.num_valid_bits() });
        }
        1 => {
            let mut c = AnsCoder::<u8, u32>::new();
            let _ = guarded(|| { let _ = c.encode_symbol((), ra); let _ = c.encode_symbol((), rb); let _ = c.encode_symbol((), ra); let _ = c.decode_symbol(la); let _ = c.decode_symbol(lb); let _ = c.decode_symbol(la); let _ = c.decode_symbol(la); });
            let _ = guarded(|| c.into_compressed().map(|x| x.len()));
        }
        2 => {
            let mut e = RangeEncoder::<u8, u16>::new();
            let _ = guarded(|| { for _ in 0..3 { let _ = e.encode_symbol((), ra); let _ = e.encode_symbol((), rb); } });
            let words = guarded(|| e.get_compressed().to_vec());
            if let Outcome::Value(w) = words {
                if let Ok(mut d) = RangeDecoder::<u8, u16, _>::from_compressed(w) {
                    let _ = guarded(|| { for _ in 0..4 { let _ = d.decode_symbol(la); let _ = d.decode_symbol(lb); } d.maybe_exhausted() });
                }
            }
        }
        3 => {
            let mut d = RangeDecoder::<u8, u32, _>::from_compressed(data.clone()).unwrap();
            let _ = guarded(|| { for _ in 0..4 { let _ = d.decode_symbol(la); let _ = d.decode_symbol(lb); } });
            let mut e = RangeEncoder::<u8, u32>::with_backend(data.clone());
            let _ = guarded(|| { for _ in 0..3 { let _ = e.encode_symbol((), rb); let _ = e.encode_symbol((), ra); } });
            let _ = guarded(|| e.into_compressed().map(|x| x.len()));
        }
        _ => {
            if let Ok(mut c) = ChainCoder::<u8, u16, Vec<u8>, Vec<u8>, P>::from_binary(data.clone()) {
                let _ = guarded(|| { let _ = c.decode_symbol(la); let _ = c.decode_symbol(lb); let _ = c.decode_symbol(la); let _ = c.encode_symbol((), rb); let _ = c.encode_symbol((), ra); let _ = c.encode_symbol((), ra); let _ = c.encode_symbol((), rb); });
                let _ = guarded(|| c.into_remainders().map(|x| x.0.len()));
            }
        }
    }
}
pub fn liar_program(i: u64, sink: &mut ChildSink) {
    let npairs = (LIE_C.len() * LIE_P.len()) as u64;
    let mut k = i;
    let kind = k % 5; k /= 5;
    let prec = k % 2; k /= 2;
    let (ia, ib) = ((k % npairs) as usize, (k / npairs) as usize);
    let a = (LIE_C[ia / LIE_P.len()], LIE_P[ia % LIE_P.len()]);
    let b = (LIE_C[ib / LIE_P.len()], LIE_P[ib % LIE_P.len()]);
    sink.count("hostile_programs", 1);
    sink.count("lying_model_programs", 1);
    if prec == 0 { liar_case::<8>(kind, a, b) } else { liar_case::<4>(kind, a, b) }
    sink.count("programs_ending_in_a_value_or_error", 1);
}

// ---------------------------------------------------------------- user-written backends that fail, lie and are not fused
// `ReadWords` / `WriteWords` are safe traits too. A backend that returns `Err` at any call, keeps failing, yields data
// again after it reported the end, or silently drops a word voids the functional guarantees, not memory safety — and the
// `?` paths of every coder (which no infallible `Vec` backend ever takes) must not leave a coder in a state from which
// later safe calls reach an unsafe precondition.
thread_local! { static DEFAULT_FAULT: core::cell::Cell<(u8, usize)> = core::cell::Cell::new((3, 0)); }
#[derive(Clone, Debug)]
struct Faulty<W> { buf: Vec<W>, front: usize, calls: usize, mode: u8, k: usize }
impl<W> Faulty<W> {
    fn new(buf: Vec<W>, mode: u8, k: usize) -> Self { Faulty { buf, front: 0, calls: 0, mode, k } }
    /// what this call does: 0 = works, 1 = Err, 2 = lie (end of data / word dropped)
    fn turn(&mut self) -> u8 {
        let c = self.calls; self.calls += 1;
        match self.mode { 0 if c == self.k => 1, 1 if c >= self.k => 1, 2 if c == self.k => 2, _ => 0 }
    }
}
impl<W> Default for Faulty<W> { fn default() -> Self { let (m, k) = DEFAULT_FAULT.with(|d| d.get()); Faulty::new(Vec::new(), m, k) } }
impl<W: Copy> constriction::backends::WriteWords<W> for Faulty<W> {
    type WriteError = ();
    fn write(&mut self, word: W) -> Result<(), ()> { match self.turn() { 1 => Err(()), 2 => Ok(()), _ => { self.buf.push(word); Ok(()) } } }
}
impl<W: Copy> ReadWords<W, Stack> for Faulty<W> {
    type ReadError = ();
    fn read(&mut self) -> Result<Option<W>, ()> { match self.turn() { 1 => Err(()), 2 => Ok(None), _ => Ok(if self.buf.len() > self.front { self.buf.pop() } else { None }) } }
}
impl<W: Copy> ReadWords<W, constriction::Queue> for Faulty<W> {
    type ReadError = ();
    fn read(&mut self) -> Result<Option<W>, ()> {
        match self.turn() { 1 => Err(()), 2 => Ok(None), _ => Ok(if self.front < self.buf.len() { self.front += 1; Some(self.buf[self.front - 1]) } else { None }) }
    }
}
impl<W: Copy> constriction::backends::BoundedReadWords<W, constriction::Queue> for Faulty<W> {
    /// (a lie in mode 2)
    fn remaining(&self) -> usize { if self.mode == 2 { usize::MAX } else { self.buf.len() - self.front } }
}
const FAULT_PROGRAMS: u64 = 10;
const FAULT_KS: u64 = 14;
pub fn faults_total() -> u64 { FAULT_PROGRAMS * (3 * FAULT_KS + 1) }
pub fn faults_program(i: u64, sink: &mut ChildSink) {
    let prog = i % FAULT_PROGRAMS;
    let f = i / FAULT_PROGRAMS;
    let (mode, k) = if f == 3 * FAULT_KS { (3u8, 0usize) } else { ((f / FAULT_KS) as u8, (f % FAULT_KS) as usize) };
    let data: Vec<u8> = vec![0x12, 0xff, 0x00, 0x80, 0x5a, 0x01, 0xfe, 0x33, 0xff, 0xff, 0x00, 0x01];
    let raws: [(u8, u8); 8] = [(255, 1), (0, 1), (255, 1), (127, 2), (254, 1), (255, 1), (0, 255), (128, 128)];
    let desc = move || format!("program #{prog} over a user-written backend with fault mode {mode} (0 = Err once, 1 = Err from then on, 2 = lies once, 3 = none) at call #{k}");
    // a backend that merely FAILS is an advertised use (fallible backends): overflow panics inside the library count;
    // for a backend that LIES only memory safety is demanded
    let judge = |sink: &mut ChildSink, f: &mut dyn FnMut()| {
        if mode == 2 {
            sink.count("hostile_programs", 1);
            match guarded(|| f()) { Outcome::Value(()) => sink.count("programs_ending_in_a_value_or_error", 1), _ => sink.count("programs_ending_in_a_clean_panic", 1) }
        } else {
            hostile(sink, i, "coders over a user-written backend that fails", &desc, || f());
        }
    };
    judge(sink, &mut || {
        DEFAULT_FAULT.with(|d| d.set((mode, k)));
        let part = Part::<u8, 8> { c: 100, p: 57 };
        let part4 = Part::<u8, 4> { c: 5, p: 9 };
        match prog {
            0 => {
                let mut e = RangeEncoder::<u8, u32, _>::with_backend(Faulty::new(vec![], mode, k));
                for r in raws.iter().chain(raws.iter()) { let _ = e.encode_symbol((), Raw::<u8, 8> { c: r.0, p: r.1 }); }
                let _ = e.into_compressed();
            }
            1 => {
                let mut e = RangeEncoder::<u8, u16, _>::with_backend(Faulty::new(vec![7, 7], mode, k));
                for r in raws.iter().chain(raws.iter()) { let _ = e.encode_symbol((), Raw::<u8, 8> { c: r.0, p: r.1 }); }
                let _ = e.into_compressed();
            }
            2 => {
                if let Ok(mut d) = RangeDecoder::<u8, u32, _>::with_backend(Faulty::new(data.clone(), mode, k)) {
                    for _ in 0..10 { let _ = d.decode_symbol(part); let _ = d.decode_symbol(part4); }
                    let _ = d.maybe_exhausted();
                }
                if let Ok(mut d) = RangeDecoder::<u8, u16, _>::with_backend(Faulty::new(data.clone(), mode, k)) {
                    for _ in 0..10 { let _ = d.decode_symbol(part); }
                }
            }
            3 => {
                for binary in [false, true] {
                    let b = Faulty::new(data.clone(), mode, k);
                    let c = if binary { AnsCoder::<u8, u32, _>::from_binary(b).ok() } else { AnsCoder::<u8, u32, _>::from_compressed(b).ok() };
                    if let Some(mut c) = c {
                        for _ in 0..6 { let _ = c.decode_symbol(part); }
                        for r in raws.iter() { let _ = c.encode_symbol((), Raw::<u8, 8> { c: r.0, p: r.1 }); }
                        for _ in 0..12 { let _ = c.decode_symbol(part4); }
                        let _ = (c.is_empty(), c.into_raw_parts());
                    }
                }
            }
            4 => {
                let mut c = AnsCoder::<u8, u16, _>::from_raw_parts(Faulty::new(vec![], mode, k), 0);
                for r in raws.iter() { let _ = c.encode_symbol((), Raw::<u8, 8> { c: r.0, p: r.1 }); }
                for _ in 0..4 { let _ = c.decode_symbol(part); }
                for r in raws.iter() { let _ = c.encode_symbol((), Raw::<u8, 8> { c: r.0, p: r.1 }); }
                let _ = c.into_compressed();
            }
            5 => {
                // the fault schedule applies to the backend handed in, to the Default-constructed second backend, or to both
                let big = Part::<u8, 4> { c: 1, p: 13 };
                for (first, second) in [((mode, k), (3u8, 0usize)), ((3, 0), (mode, k)), ((mode, k), (mode, k))] {
                    DEFAULT_FAULT.with(|d| d.set(second));
                    if let Ok(mut c) = ChainCoder::<u8, u16, Faulty<u8>, Faulty<u8>, 4>::from_binary(Faulty::new(data.clone(), first.0, first.1)) {
                        for j in 0..10 { let _ = c.decode_symbol(part4); if j % 2 == 0 { let _ = c.decode_symbol(big); } }
                        for r in raws.iter() { let _ = c.encode_symbol((), Raw::<u8, 4> { c: r.0 & 7, p: 1 + (r.1 & 7) }); }
                        let _ = c.into_remainders();
                    }
                    if let Ok(mut c) = ChainCoder::<u8, u16, Faulty<u8>, Faulty<u8>, 4>::from_compressed(Faulty::new(data.clone(), first.0, first.1)) {
                        for _ in 0..8 { let _ = c.decode_symbol(part4); let _ = c.decode_symbol(big); }
                        let _ = c.into_remainders();
                    }
                }
            }
            6 => {
                for (first, second) in [((mode, k), (3u8, 0usize)), ((3, 0), (mode, k)), ((mode, k), (mode, k))] {
                    DEFAULT_FAULT.with(|d| d.set(second));
                    if let Ok(mut c) = ChainCoder::<u8, u16, Faulty<u8>, Faulty<u8>, 4>::from_remainders(Faulty::new(data.clone(), first.0, first.1)) {
                        for r in raws.iter().chain(raws.iter()) { let _ = c.encode_symbol((), Raw::<u8, 4> { c: r.0 & 7, p: 1 + (r.1 & 7) }); }
                        for _ in 0..6 { let _ = c.decode_symbol(part4); }
                        let _ = c.clone().into_compressed().map(|_| ());
                        let _ = c.into_binary().map(|_| ());
                    }
                }
            }
            7 => {
                if let Ok(mut s) = StackCoder::<u8, _>::from_compressed(Faulty::new(data.clone(), mode, k)) {
                    for b in 0..20 { let _ = s.write_bit(b % 3 == 0); }
                    for _ in 0..30 { let _ = s.read_bit(); }
                    for b in 0..9 { let _ = s.write_bit(b % 2 == 0); }
                    let _ = s.into_compressed();
                }
            }
            8 => {
                let mut q = QueueEncoder::<u8, _>::from_compressed(Faulty::new(vec![], mode, k));
                for b in 0..40 { let _ = q.write_bit(b % 3 == 0); }
                let _ = q.into_compressed();
                let mut d = QueueDecoder::<u8, _>::from_compressed(Faulty::new(data.clone(), mode, k));
                for _ in 0..120 { let _ = d.read_bit(); }
                let _ = d.maybe_exhausted();
            }
            _ => {
                // Exp-Golomb with callbacks / sources failing at bit #k
                for v in [0u32, 1, 2, 7, 8, 255, 65535, u32::MAX - 1, u32::MAX] {
                    let mut n = 0usize;
                    let _ = ExpGolomb::<u32>::default().encode_symbol_prefix(v, |_b| { n += 1; if mode != 3 && n - 1 == k { Err(()) } else { Ok(()) } });
                    let mut n = 0usize;
                    let _ = ExpGolomb::<u32>::default().encode_symbol_suffix(v, |_b| { n += 1; if mode == 1 && n > k || n - 1 == k && mode != 3 { Err(()) } else { Ok(()) } });
                }
                for bits in [0u64, 1, 0b1000, 0x8000_0000, u64::MAX, 0x5555_5555_5555_5555] {
                    let mut it = (0..64usize).map(|j| if mode != 3 && j == k { Err(()) } else { Ok((bits >> (j % 64)) & 1 == 1) });
                    let _ = ExpGolomb::<u32>::default().decode_symbol(&mut it);
                    let _ = ExpGolomb::<u32>::default().decode_symbol(&mut it);
                }
            }
        }
    });
}
