//! Driver for the isolated model-family sweeps (C03, C05, C19, model part of C20).

use crate::isolate::{run_isolated, ChildSink, Merged};
use crate::mfam::{self, N_VALID_LETTERS};
use crate::mfam2;
use crate::report::{Report, Tier, Violation};
use serde_json::json;

pub struct PartSpec {
    pub part: String,
    pub total: u64,
    pub chunk: u64,
    pub label: String,
}

fn float_parts(want: &str, tier: Tier, out: &mut Vec<PartSpec>) {
    let q = tier == Tier::Quick;
    for key in mfam::FLOAT_PARTS {
        let prec: u32 = key.rsplit('/').next().unwrap().parse().unwrap();
        // C03/C05: inputs satisfying the preconditions dominate; C19/C20: the extended alphabet and all normalization variants
        let (nletters, norms, maxlen) = match want {
            "C03" | "C05" => (N_VALID_LETTERS, 2, if q { 3 } else if prec <= 12 { 4 } else { 3 }),
            _ => (mfam::float_alphabet_f64().len(), 8, if q && prec > 12 { 2 } else { 3 }),
        };
        let (_, total) = mfam::float_space(nletters, maxlen, norms);
        out.push(PartSpec { part: format!("float/{key}/{nletters}/{maxlen}/{norms}"), total, chunk: if prec <= 12 { 400 } else { 2000 },
            label: format!("float tables {key}: all tables of length 0..={maxlen} over {nletters} letters x {norms} normalization variants") });
    }
}

/// long float tables at tiny precisions: more symbols than 2^PRECISION quanta (must be refused, or give a valid model)
fn float_long_parts(_want: &str, tier: Tier, out: &mut Vec<PartSpec>) {
    let q = tier == Tier::Quick;
    for (key, nletters, maxlen, sub) in [("f64/u8/2", 3usize, if q { 8 } else { 10 }, "s3"), ("f64/u8/3", 3, if q { 10 } else { 12 }, "s3"), ("f32/u8/4", 2, if q { 17 } else { 19 }, "s2")] {
        let (_, total) = mfam::float_space(nletters, maxlen, 2);
        out.push(PartSpec { part: format!("float/{key}/{nletters}/{maxlen}/2/{sub}"), total, chunk: 4000,
            label: format!("long float tables {key}: all tables of length 0..={maxlen} over {nletters} letters (more symbols than 2^PRECISION) x 2 normalization variants") });
    }
}

fn fixed_parts(_want: &str, tier: Tier, out: &mut Vec<PartSpec>) {
    let q = tier == Tier::Quick;
    for key in mfam2::FIXED_PARTS_U8 {
        let part = format!("fixed/{key}/all/{}", 2);
        let (_, total, _, _) = mfam2::fixed_space(&part);
        out.push(PartSpec { part, total, chunk: 20000, label: format!("fixed-point tables {key}: all u8 tables of length 0..=2 x infer_last x 4 symbol-list variants") });
        let ml = if q { 3 } else { 4 };
        let part = format!("fixed/{key}/few/{ml}");
        let (_, total, _, _) = mfam2::fixed_space(&part);
        out.push(PartSpec { part, total, chunk: 20000, label: format!("fixed-point tables {key}: tables of length 0..={ml} over 12 boundary letters") });
    }
    if !q {
        for key in ["u8/3", "u8/8"] {
            let part = format!("fixed/{key}/all/3");
            let (_, total, _, _) = mfam2::fixed_space(&part);
            out.push(PartSpec { part, total, chunk: 200000, label: format!("fixed-point tables {key}: ALL u8 tables of length 0..=3") });
        }
    }
    for key in mfam2::FIXED_PARTS_U16 {
        let ml = if q { 2 } else { 3 };
        let part = format!("fixed/{key}/few/{ml}");
        let (_, total, _, _) = mfam2::fixed_space(&part);
        out.push(PartSpec { part, total, chunk: 300, label: format!("fixed-point tables {key}: tables of length 0..={ml} over boundary letters") });
    }
}

fn quant_parts(_want: &str, _tier: Tier, out: &mut Vec<PartSpec>) {
    for key in mfam2::QUANT_PARTS {
        let part = format!("quant/{key}");
        let (space, _) = mfam2::quant_space(&part);
        out.push(PartSpec { part, total: space.total(), chunk: 300, label: format!("quantised distributions {key}: 6 families x 13 locations x 9 scales x 4 inverse hints x supports") });
    }
}

fn uniform_parts(_want: &str, tier: Tier, out: &mut Vec<PartSpec>) {
    let t = if tier == Tier::Quick { "q" } else { "t" };
    for key in mfam2::UNIFORM_PARTS {
        let part = format!("uniform/{key}/{t}");
        let total = mfam2::uniform_ranges(&part, tier == Tier::Thorough).len() as u64;
        out.push(PartSpec { part, total, chunk: 100, label: format!("uniform models {key}") });
    }
}

fn qnew_parts(_want: &str, _tier: Tier, out: &mut Vec<PartSpec>) {
    for key in mfam2::QNEW_PARTS {
        let part = format!("qnew/{key}");
        let total = mfam2::qnew_supports(&part).len() as u64;
        out.push(PartSpec { part, total, chunk: 100, label: format!("LeakyQuantizer::new supports {key}") });
    }
}

pub fn parts_for(want: &str, tier: Tier) -> Vec<PartSpec> {
    let mut v = vec![];
    float_parts(want, tier, &mut v);
    float_long_parts(want, tier, &mut v);
    fixed_parts(want, tier, &mut v);
    uniform_parts(want, tier, &mut v);
    if want != "C19" && want != "C20" {
        quant_parts(want, tier, &mut v);
    } else if tier == Tier::Thorough {
        quant_parts(want, tier, &mut v);
    }
    if want == "C19" || want == "C20" || want == "C03" {
        qnew_parts(want, tier, &mut v);
    }
    v
}

pub fn case_desc(part: &str, i: u64) -> (bool, String) {
    let (kind, rest) = part.split_once('/').unwrap();
    match kind {
        "float" => mfam::float_case_is_valid_input(rest, i),
        "fixed" => mfam2::fixed_case_desc(part, i),
        "quant" => (true, mfam2::quant_case_desc(part, i)),
        "uniform" => { let r = mfam2::uniform_ranges(part, part.ends_with("/t"))[i as usize]; (r >= 2, format!("UniformModel range {r} ({part})")) }
        "qnew" => { let s = mfam2::qnew_supports(part)[i as usize]; (false, format!("LeakyQuantizer::new({}..={}) ({part})", s.0, s.1)) }
        _ => (false, format!("{part} #{i}")),
    }
}

/// child entry: `cvmc child <want> <part> <from> <to>`
pub fn child(want: &str, part: &str, from: u64, to: u64) -> i32 {
    crate::isolate::install_panic_recorder();
    let mut sink = ChildSink::default();
    let (kind, rest) = part.split_once('/').expect("part");
    match kind {
        "float" => mfam::float_part_run(rest, from, to, want, &mut sink),
        "fixed" => mfam2::fixed_part_run(part, from, to, want, &mut sink),
        "quant" => mfam2::quant_part_run(part, from, to, want, &mut sink),
        "uniform" => mfam2::uniform_part_run(part, from, to, want, &mut sink),
        "qnew" => mfam2::qnew_part_run(part, from, to, want, &mut sink),
        other => { eprintln!("unknown part kind {other}"); return 2; }
    }
    sink.finish()
}

fn abort_site(stderr: &str) -> String {
    // first meaningful line of the abort message, without addresses
    for l in stderr.split(" | ") {
        if l.contains("unsafe precondition(s) violated") {
            let s = l.split("unsafe precondition(s) violated:").nth(1).unwrap_or(l).trim();
            let s = s.split("This indicates a bug").next().unwrap_or(s).trim();
            return format!("unsafe precondition violated: {s}");
        }
    }
    stderr.split(" | ").next().unwrap_or("").chars().take(120).collect()
}

pub fn run(report: &Report, want: &'static str) {
    let parts = parts_for(want, report.tier);
    let timeout = if report.tier == Tier::Quick { 60 } else { 300 };
    report.assume("each case runs inside a child process; an abort (std's unsafe-precondition checks, allocation failure), signal or watchdog timeout of a child is bisected to the single failing case, confirmed twice, and judged as an outcome of that case");
    let mut sample_done = false;
    for spec in parts {
        let t = std::time::Instant::now();
        let m: Merged = run_isolated(want, &spec.part, spec.total, spec.chunk, timeout);
        report.add_states(m.cases);
        report.add_traces(m.cases);
        let mut built = 0;
        for (k, v) in &m.counters {
            report.count(k, *v);
            if k == "models_built" { built = *v; }
        }
        report.add_transitions(built.max(m.cases));
        report.count("child_processes", m.children_spawned);
        let mut nviol = m.violations.len();
        for (identity, detail, i) in m.violations {
            report.violation(Violation { identity, detail: format!("{detail} [{} case #{i}]", spec.part), case: json!({"kind": "model_case", "want": want, "part": spec.part, "index": i}) });
        }
        for a in &m.abnormal {
            let (valid_input, desc) = case_desc(&spec.part, a.index);
            report.count("cases_ending_in_abort_or_timeout", 1);
            let site = abort_site(&a.stderr_tail);
            let family = spec.part.split('/').next().unwrap_or("");
            let v = match want {
                "C20" => Some((format!("process abort | {family} models | {} | {site}", a.kind), true)),
                "C19" => Some((format!("constructor outcome is neither a clean failure nor a valid model | {family} models | {} | {site}", a.kind), true)),
                "C03" => Some((format!("model built from input satisfying the preconditions aborts or hangs when queried | {family} models | {} | {site}", a.kind), valid_input)),
                "C05" => Some((format!("a representation / conversion of a model aborts or hangs | {family} models | {} | {site}", a.kind), valid_input)),
                _ => None,
            };
            if let Some((identity, applies)) = v {
                if applies {
                    nviol += 1;
                    report.violation(Violation { identity, detail: format!("{desc}: {} ({})", a.kind, a.stderr_tail), case: json!({"kind": "model_case", "want": want, "part": spec.part, "index": a.index}) });
                }
            }
        }
        if m.skipped > 0 {
            report.cap_hit(format!("{}: {} of {} cases not explored after {} aborting/hanging cases", spec.part, m.skipped, spec.total, m.abnormal.len()));
        }
        if !sample_done && m.cases > 10 {
            let (_, d) = case_desc(&spec.part, m.cases / 2);
            report.sample(json!({"part": spec.part, "case_index": m.cases / 2, "input": d}));
            sample_done = true;
        }
        report.section(json!({"part": spec.part, "what": spec.label, "cases": m.cases, "child_processes": m.children_spawned,
            "aborts_or_timeouts": m.abnormal.len(), "violations": nviol, "wall_s": t.elapsed().as_secs_f64()}));
    }
}

/// replay of one isolated case: runs it in a child and reports its outcome
pub fn replay(case: &serde_json::Value) -> Result<String, String> {
    let want = case["want"].as_str().ok_or("want")?;
    let part = case["part"].as_str().ok_or("part")?;
    let i = case["index"].as_u64().ok_or("index")?;
    let exe = std::env::current_exe().map_err(|e| e.to_string())?;
    let out = std::process::Command::new(exe).args(["child", want, part, &i.to_string(), &(i + 1).to_string()]).output().map_err(|e| e.to_string())?;
    let (_, desc) = case_desc(part, i);
    let stdout = String::from_utf8_lossy(&out.stdout);
    let stderr = String::from_utf8_lossy(&out.stderr);
    if !out.status.success() {
        return Err(format!("{desc}: child ended with {:?}: {}", out.status, stderr.lines().last().unwrap_or("")));
    }
    let viol: Vec<&str> = stdout.lines().filter(|l| l.contains("\"v\"")).collect();
    if viol.is_empty() { Ok(format!("{desc}: no finding for {want}")) } else { Err(format!("{desc}:\n{}", viol.join("\n"))) }
}
