//! C03 — driven by the isolated model-family sweep (see mfam.rs / mfam2.rs / mfamily.rs).
use crate::report::Report;

pub fn run(report: &Report) {
    report.bound("every float table of the listed lengths over 18 boundary floats (f32 and f64, 12 (Probability,PRECISION) configurations, fast/lazy/perfect/lookup/non-contiguous constructors), every fixed-point table, every listed quantised distribution and uniform range; ALL quantiles for PRECISION <= 12, boundary quantiles of every symbol + stride above");
    report.require("tables_satisfying_preconditions");
    report.require("models_built");
    super::mfamily::run(report, "C03");
    domain_part(report);
    super::pyfront::sweep(report, "views", 3,
        "Python Categorical(probabilities) in all three flavours, f32 and f64: the model is a value - overwriting the caller's array after the constructor returned must not change it (a model that tracks a mutable array is not one exactly invertible model)",
        &["Categorical(probabilities"], &[]);
    super::pyfront::sweep(report, "callbacks", if report.tier == crate::report::Tier::Quick { 0 } else { 1 },
        "Python CustomModel with 8 well-formed cdfs (logistic incl. a near-step and a far-away one, step, constants, linear) x 8 approximate inverses (exact, constants, +-1e9, shifted, NaN, +-inf: the documentation promises they only affect speed) x 5 (thorough 9) supports incl. ones touching i32::MIN / i32::MAX; a CustomModel family with per-symbol parameters on all 256 messages over 4 symbols; ScipyModel over 6 scipy distributions x 3 supports: every (boundary) symbol of the support round-trips on the ANS and the range coder, arbitrary words decode into the support and re-encode to themselves",
        &[], &[]);
}

pub fn replay(case: &serde_json::Value) -> Result<String, String> {
    super::mfamily::replay(case)
}


/// A user-written distribution that is DEFINED ONLY where the documentation says it will be evaluated: at the mid-points
/// `min + 0.5 ..= max - 0.5` between consecutive integers of the support (a cdf tabulated on those points). Evaluating
/// it anywhere else is a fault of the library (the panic message starts with HARNESS-MODEL, which the harness counts as
/// raised inside constriction).
struct Tabulated { min: i32, cdf: Vec<f64>, hint: f64 }
impl probability::distribution::Distribution for Tabulated {
    type Value = f64;
    fn distribution(&self, x: f64) -> f64 {
        let k = x - (self.min as f64 + 0.5);
        if k < 0.0 || k.fract() != 0.0 || k as usize >= self.cdf.len() {
            panic!("HARNESS-MODEL: the cdf was evaluated at {x}, outside the mid-points {}..={} on which it is defined", self.min as f64 + 0.5, self.min as f64 + self.cdf.len() as f64 - 0.5);
        }
        self.cdf[k as usize]
    }
}
impl probability::distribution::Inverse for Tabulated {
    fn inverse(&self, _p: f64) -> f64 { self.hint }
}

fn domain_part(report: &Report) {
    use crate::isolate::{guarded, Outcome};
    use constriction::stream::model::{DecoderModel, EncoderModel, IterableEntropyModel, LeakyQuantizer};
    let mut n = 0u64;
    let mut bad: Vec<(String, String)> = vec![];
    // every nondecreasing cdf table over {0, 0.25, 0.5, 1} on supports of 2..=5 symbols at every start, 4 hints
    let vals = [0.0f64, 0.25, 0.5, 1.0];
    for size in 2..=5usize {
        let npts = size - 1;
        for code in 0..4usize.pow(npts as u32) {
            let cdf: Vec<f64> = (0..npts).map(|i| vals[code / 4usize.pow(i as u32) % 4]).collect();
            if cdf.windows(2).any(|w| w[0] > w[1]) { continue; }
            for min in [-3i32, 0, 100] {
                for hint in [min as f64, min as f64 + size as f64, -1e9, 1e9] {
                    let name = format!("cdf {:?} on the mid-points of {}..={}, inverse hint {hint}", cdf, min, min + size as i32 - 1);
                    macro_rules! at { ($Pr:ty, $P:literal) => {{
                        n += 1;
                        let q = LeakyQuantizer::<f64, i32, $Pr, $P>::new(min..=min + size as i32 - 1);
                        let m = q.quantize(Tabulated { min, cdf: cdf.clone(), hint });
                        let res = guarded(|| {
                            let mut rows = vec![];
                            for s in min..min + size as i32 { let (c, p) = m.left_cumulative_and_probability(s).expect("symbol of the support refused"); rows.push((s, c as u64, p.get() as u64)); }
                            let total = 1u64 << $P;
                            let mut acc = 0u64;
                            for r in &rows { assert!(r.1 == acc && r.2 > 0, "rows do not tile: {:?}", rows); acc += r.2; }
                            assert!(acc == total, "rows do not add up: {:?}", rows);
                            let qs: Vec<u64> = if $P <= 12 { (0..total).collect() } else { rows.iter().flat_map(|r| [r.1, r.1 + r.2 - 1, r.1 + r.2 / 2]).collect() };
                            for x in qs {
                                let (s, c, p) = m.quantile_function(x as $Pr);
                                let e = rows.iter().find(|r| r.1 <= x && x < r.1 + r.2).unwrap();
                                assert!((s, c as u64, p.get() as u64) == *e, "quantile {x}: {:?} vs {:?}", (s, c, p.get()), e);
                            }
                            let t: Vec<_> = m.symbol_table().map(|(s, c, p)| (s, c as u64, p.get() as u64)).collect();
                            assert!(t == rows, "symbol_table {:?} vs {:?}", t, rows);
                        });
                        match res {
                            Outcome::Value(()) => {}
                            Outcome::CleanPanic { msg, .. } | Outcome::OverflowPanic { msg, .. } => {
                                let what = if msg.starts_with("HARNESS-MODEL") { "the distribution is evaluated outside the points on which the documentation says it will be" } else { "model is not valid / not exactly invertible" };
                                bad.push((format!("LeakyQuantizer::quantize | user-written distribution defined on the documented domain only | {what}"), format!("{name} at ({}, {}): {}", stringify!($Pr), $P, msg.chars().take(160).collect::<String>())));
                            }
                        }
                    }}; }
                    at!(u8, 4);
                    at!(u16, 12);
                    at!(u32, 24);
                }
            }
        }
    }
    report.add_states(n);
    report.count("tabulated_user_distributions", n);
    let mut seen = std::collections::HashMap::<String, usize>::new();
    for (i, d) in bad {
        let k = seen.entry(i.clone()).or_insert(0); *k += 1;
        if *k <= 3 { report.violation(crate::report::Violation { identity: i, detail: d, case: serde_json::json!({"kind": "none"}) }); }
    }
    report.section(serde_json::json!({"part": "user-written distributions defined only on the documented evaluation points", "what": "every nondecreasing cdf table over {0, 0.25, 0.5, 1} on supports of 2..=5 symbols x 3 positions x 4 inverse hints at (u8,4), (u16,12), (u32,24): all symbols, all quantiles (P <= 12), symbol_table", "models": n}));
}
