//! C03 — driven by the isolated model-family sweep (see mfam.rs / mfam2.rs / mfamily.rs).
use crate::report::Report;

pub fn run(report: &Report) {
    report.bound("every float table of the listed lengths over 18 boundary floats (f32 and f64, 12 (Probability,PRECISION) configurations, fast/lazy/perfect/lookup/non-contiguous constructors), every fixed-point table, every listed quantised distribution and uniform range; ALL quantiles for PRECISION <= 12, boundary quantiles of every symbol + stride above");
    report.require("tables_satisfying_preconditions");
    report.require("models_built");
    super::mfamily::run(report, "C03");
}

pub fn replay(case: &serde_json::Value) -> Result<String, String> {
    super::mfamily::replay(case)
}
