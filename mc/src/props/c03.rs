//! C03 — driven by the isolated model-family sweep (see mfam.rs / mfam2.rs / mfamily.rs).
use crate::report::Report;

pub fn run(report: &Report) {
    report.bound("every float table of the listed lengths over 18 boundary floats (f32 and f64, 12 (Probability,PRECISION) configurations, fast/lazy/perfect/lookup/non-contiguous constructors), every fixed-point table, every listed quantised distribution and uniform range; ALL quantiles for PRECISION <= 12, boundary quantiles of every symbol + stride above");
    report.require("tables_satisfying_preconditions");
    report.require("models_built");
    super::mfamily::run(report, "C03");
    super::pyfront::sweep(report, "views", 3,
        "Python Categorical(probabilities) in all three flavours, f32 and f64: the model is a value - overwriting the caller's array after the constructor returned must not change it (a model that tracks a mutable array is not one exactly invertible model)",
        &["Categorical(probabilities"], &[]);
    super::pyfront::sweep(report, "callbacks", if report.tier == crate::report::Tier::Quick { 0 } else { 1 },
        "Python CustomModel with 8 well-formed cdfs (logistic incl. a near-step and a far-away one, step, constants, linear) x 8 approximate inverses (exact, constants, +-1e9, shifted, NaN, +-inf: the documentation promises they only affect speed) x 5 (thorough 9) supports incl. ones touching i32::MIN / i32::MAX; a CustomModel family with per-symbol parameters on all 256 messages over 4 symbols; ScipyModel over 6 scipy distributions x 3 supports: every (boundary) symbol of the support round-trips on the ANS and the range coder, arbitrary words decode into the support and re-encode to themselves",
        &[], &[]);
}

pub fn replay(case: &serde_json::Value) -> Result<String, String> {
    super::mfamily::replay(case)
}
