//! C02 — range coder round trip: a sealed stream decodes to exactly the encoded symbols.
//!
//! Alphabet: letters (P, c, p) incl. per-symbol varying precision and extremes at P = W.
//! Bound: all symbol sequences up to depth d. Oracle at EVERY node: seal, decode everything
//! with the same models (FIFO), empty message => no words, maybe_exhausted after the last
//! symbol; `clear()` is observationally `new()`.

use super::common::*;
use crate::models::{to_u128, Cfg, Letter};
use crate::report::{Report, Tier};
use crate::walk::{merge_accs, range_is_inverted, range_walk, Acc, RangeNode};
use crate::dispatch_cfg;
use constriction::stream::queue::{EncoderSituation, RangeCoderState, RangeDecoder, RangeEncoder};
use serde_json::json;

pub const NAMES: [&str; 12] = [
    "nodes_inverted",
    "nodes_inverted_run_ge2",
    "carry_resolved_plus_one_then_zeros",
    "carry_resolved_same_then_ones",
    "seals_while_inverted",
    "seals_with_wrapping_point",
    "symbols_decoded",
    "letters_at_max_precision",
    "mixed_precision_histories",
    "clear_checks",
    "clear_checks_while_inverted",
    "two_word_seals",
];

/// All per-node checks of C02 on an encoder that has encoded `hist`.
pub fn check_node<C: Cfg>(
    enc: &RangeEncoder<C::W, C::S>,
    hist: &[Letter],
    acc: Option<&mut Acc>,
) -> Vec<(String, String)> {
    let mut out = vec![];
    let sealed = enc.clone().into_compressed().expect("HARNESS: Vec is infallible");
    if hist.is_empty() && !sealed.is_empty() {
        out.push((
            format!("RangeEncoder::into_compressed | {} | empty message produces words", C::NAME),
            format!("empty message sealed to {:x?}", to_u128(&sealed)),
        ));
    }
    // decode through two differently constructed decoders
    let mut ndec = 0u64;
    for variant in 0..2 {
        let mut dec = if variant == 0 {
            RangeDecoder::<C::W, C::S, _>::from_compressed(sealed.clone()).expect("infallible")
        } else {
            enc.clone().into_decoder().expect("HARNESS: into_decoder on Vec backend")
        };
        let mut ok = true;
        for (i, &l) in hist.iter().enumerate() {
            match C::range_decode(&mut dec, l) {
                Ok(1) => {}
                other => {
                    out.push((
                        format!("RangeDecoder::decode_symbol | {} | round trip mismatch", C::NAME),
                        format!(
                            "history {:?} sealed {:x?}: symbol {i} decoded as {:?}, expected part 1 (decoder variant {variant})",
                            hist, to_u128(&sealed), other.map_err(|e| format!("{e:?}"))
                        ),
                    ));
                    ok = false;
                    break;
                }
            }
            ndec += 1;
        }
        if ok && !dec.maybe_exhausted() {
            out.push((
                format!("RangeDecoder::maybe_exhausted | {} | false after the last symbol", C::NAME),
                format!("history {:?} sealed {:x?}: decoder not maybe_exhausted after decoding all symbols", hist, to_u128(&sealed)),
            ));
        }
    }
    // clear() must be observationally new()
    let mut c = enc.clone();
    c.clear();
    let (b, st, sit) = c.clone().into_raw_parts();
    let fresh = RangeEncoder::<C::W, C::S>::new();
    let (fb, fst, fsit) = fresh.clone().into_raw_parts();
    let inverted = range_is_inverted::<C>(enc).is_some();
    if b != fb || st != fst || sit != fsit {
        let what = if sit != EncoderSituation::Normal { "situation not reset" } else { "state differs from new()" };
        out.push((
            format!("RangeEncoder::clear | {what}"),
            format!("{}: clear() after history {:?} leaves (bulk {:x?}, lower {:x}, range {:x}, situation {:?}), new() is (.., {:?})",
                C::NAME, hist, to_u128(&b), st.lower().into(), st.range().into_u128(), sit, fsit),
        ));
    }
    // and behave like new(): encode one letter on both
    if let Some(&l) = hist.first() {
        let mut f = fresh;
        C::range_encode(&mut c, l).expect("infallible");
        C::range_encode(&mut f, l).expect("infallible");
        let (x, y) = (c.into_compressed().unwrap(), f.into_compressed().unwrap());
        if x != y {
            let what = if inverted { "situation not reset" } else { "output differs from new()" };
            out.push((
                format!("RangeEncoder::clear | {what}"),
                format!("{}: clear() after history {:?}, then encode {:?}: {:x?}, a fresh encoder gives {:x?}", C::NAME, hist, l, to_u128(&x), to_u128(&y)),
            ));
        }
    }
    if let Some(acc) = acc {
        acc.c[6] += ndec;
        acc.c[9] += 1;
        if inverted {
            acc.c[10] += 1;
        }
    }
    out
}

trait NzU128 {
    fn into_u128(self) -> u128;
}
impl<T: constriction::NonZeroBitArray> NzU128 for T
where
    T::Base: Into<u128>,
{
    fn into_u128(self) -> u128 {
        self.get().into()
    }
}

pub fn visit<C: Cfg>(n: &RangeNode<C>, acc: &mut Acc) {
    // event counters
    let inv = range_is_inverted::<C>(n.enc);
    if let Some(k) = inv {
        acc.c[0] += 1;
        if k >= 2 {
            acc.c[1] += 1;
        }
        acc.c[4] += 1;
        let st: RangeCoderState<C::W, C::S> = n.enc.clone().into_raw_parts().1;
        let unit_minus_one = (1u128 << (C::SBITS - C::WBITS)) - 1;
        let lower: u128 = st.lower().into();
        let full = if C::SBITS == 128 { u128::MAX } else { (1u128 << C::SBITS) - 1 };
        if lower > full - unit_minus_one {
            acc.c[5] += 1;
        }
    }
    if let Some(p) = n.parent {
        if let (_, _, EncoderSituation::Inverted(_, fw)) = p.clone().into_raw_parts() {
            if inv.is_none() {
                let plen = p.bulk().len();
                let w = n.enc.bulk()[plen];
                if w == fw {
                    acc.c[3] += 1;
                } else {
                    acc.c[2] += 1;
                }
            }
        }
    }
    if let Some(l) = n.hist.last() {
        if l.prec == max_prec::<C>() {
            acc.c[7] += 1;
        }
    }
    if n.hist.windows(2).any(|w| w[0].prec != w[1].prec) {
        acc.c[8] += 1;
    }
    let sealed_len = n.enc.clone().into_compressed().unwrap().len();
    if !n.hist.is_empty() && sealed_len == n.enc.bulk().len() + inv.unwrap_or(0) + 2 {
        acc.c[11] += 1;
    }
    for (identity, detail) in check_node::<C>(n.enc, n.hist, Some(acc)) {
        acc.violation(identity, detail, json!({"kind": "range_history", "cfg": C::NAME, "letters": letters_json(n.hist)}));
    }
    if acc.samples.is_empty() && n.hist.len() >= 3 && inv.is_some() {
        acc.samples.push(json!({"cfg": C::NAME, "history_[prec,cum,prob]": letters_json(n.hist),
            "sealed": words_json(&to_u128(&n.enc.clone().into_compressed().unwrap())), "encoder_inverted": true}));
    }
}

fn explore<C: Cfg>(report: &Report, alphabet: &[Letter], depth: usize, label: &str) {
    let t = std::time::Instant::now();
    let (accs, nodes, trans) = range_walk::<C, Acc, _>(alphabet, depth, visit::<C>);
    report.add_states(nodes);
    report.add_transitions(trans);
    report.add_traces(nodes);
    let before = report.violation_count();
    merge_accs(report, accs, &NAMES);
    report.section(json!({"cfg": C::NAME, "alphabet": label, "alphabet_size": alphabet.len(), "depth": depth,
        "nodes": nodes, "encode_calls": trans, "violations": report.violation_count() - before,
        "wall_s": t.elapsed().as_secs_f64()}));
}

pub fn run(report: &Report) {
    use crate::models::*;
    report.bound("all symbol sequences over the listed alphabets up to the listed depth; every node sealed and fully decoded");
    report.assume("entropy models are the hand-made Raw/Part models: a coder only ever sees (left cumulative, probability), so these cover all well-formed models at the listed precisions");
    for n in ["nodes_inverted", "nodes_inverted_run_ge2", "carry_resolved_plus_one_then_zeros", "carry_resolved_same_then_ones", "seals_while_inverted", "two_word_seals", "clear_checks_while_inverted"] {
        report.require(n);
    }
    let q = report.tier == Tier::Quick;
    // S = 2W and S = 4W with 8-bit words: every carry situation within depth 6
    explore::<U8U16>(report, &range_alphabet12::<U8U16>(), if q { 5 } else { 7 }, "a12@P8");
    explore::<U8U32>(report, &range_alphabet12::<U8U32>(), if q { 5 } else { 7 }, "a12@P8");
    explore::<U8U16>(report, &small_alphabet::<U8U16>(), if q { 5 } else { 6 }, "mixed-precision-14");
    explore::<U8U32>(report, &small_alphabet::<U8U32>(), if q { 4 } else { 6 }, "mixed-precision-14");
    explore::<U8U16>(report, &pairs_alphabet::<U8U16>(), if q { 3 } else { 4 }, "all-pairs P<=3 + extremes");
    explore::<U8U64>(report, &range_alphabet12::<U8U64>(), if q { 4 } else { 6 }, "a12@P8");
    explore::<U16U32>(report, &range_alphabet12::<U16U32>(), if q { 4 } else { 5 }, "a12@P16");
    explore::<U16U32>(report, &small_alphabet::<U16U32>(), if q { 3 } else { 5 }, "mixed-precision-14");
    explore::<U16U64>(report, &range_alphabet12::<U16U64>(), if q { 3 } else { 5 }, "a12@P16");
    explore::<U32U64>(report, &range_alphabet12::<U32U64>(), if q { 3 } else { 5 }, "a12@P32");
    explore::<U32U64>(report, &small_alphabet::<U32U64>(), if q { 3 } else { 4 }, "mixed-precision-14");
    explore::<U64U128>(report, &small_alphabet::<U64U128>(), if q { 3 } else { 4 }, "mixed-precision-14");
}

fn replay_cfg<C: Cfg>(letters: &[Letter]) -> Result<String, String> {
    let mut enc = RangeEncoder::<C::W, C::S>::new();
    for &l in letters {
        C::range_encode(&mut enc, l).map_err(|e| format!("{e:?}"))?;
    }
    let v = check_node::<C>(&enc, letters, None);
    if v.is_empty() {
        Ok(format!("history {:?}: all C02 node checks pass", letters))
    } else {
        Err(v.into_iter().map(|(i, d)| format!("[{i}] {d}")).collect::<Vec<_>>().join("\n"))
    }
}

pub fn replay(case: &serde_json::Value) -> Result<String, String> {
    let cfg = case["cfg"].as_str().ok_or("cfg")?;
    let letters = letters_from_json(&case["letters"])?;
    dispatch_cfg!(cfg, replay_cfg, &letters)
}
