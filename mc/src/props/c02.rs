//! C02 — range coder round trip: a sealed stream decodes to exactly the encoded symbols.
//!
//! Alphabet: letters (P, c, p) incl. per-symbol varying precision and extremes at P = W.
//! Bound: all symbol sequences up to depth d. Oracle at EVERY node: seal, decode everything
//! with the same models (FIFO), empty message => no words, maybe_exhausted after the last
//! symbol; `clear()` is observationally `new()`.

use super::common::*;
use crate::models::{to_u128, Cfg, Letter};
use crate::report::{Report, Tier};
use crate::walk::{merge_accs, range_is_inverted, range_walk, Acc, RangeNode};
use crate::dispatch_cfg;
use constriction::stream::queue::{EncoderSituation, RangeCoderState, RangeDecoder, RangeEncoder};
use serde_json::json;

pub const NAMES: [&str; 12] = [
    "nodes_inverted",
    "nodes_inverted_run_ge2",
    "carry_resolved_plus_one_then_zeros",
    "carry_resolved_same_then_ones",
    "seals_while_inverted",
    "seals_with_wrapping_point",
    "symbols_decoded",
    "letters_at_max_precision",
    "mixed_precision_histories",
    "clear_checks",
    "clear_checks_while_inverted",
    "two_word_seals",
];

/// All per-node checks of C02 on an encoder that has encoded `hist`.
pub fn check_node<C: Cfg>(
    enc: &RangeEncoder<C::W, C::S>,
    hist: &[Letter],
    acc: Option<&mut Acc>,
) -> Vec<(String, String)> {
    let mut out = vec![];
    let sealed = enc.clone().into_compressed().expect("HARNESS: Vec is infallible");
    if hist.is_empty() && !sealed.is_empty() {
        out.push((
            format!("RangeEncoder::into_compressed | {} | empty message produces words", C::NAME),
            format!("empty message sealed to {:x?}", to_u128(&sealed)),
        ));
    }
    if let Some(d) = crate::walk::range_inspection_changes::<C>(enc) {
        out.push((format!("RangeEncoder | {} | an encoder inspected between symbols does not continue like the uninspected one", C::NAME), format!("history {:?}: {d}", hist)));
    }
    // decode through two differently constructed decoders
    let mut ndec = 0u64;
    for variant in 0..2 {
        let mut dec = if variant == 0 {
            RangeDecoder::<C::W, C::S, _>::from_compressed(sealed.clone()).expect("infallible")
        } else {
            enc.clone().into_decoder().expect("HARNESS: into_decoder on Vec backend")
        };
        let mut ok = true;
        for (i, &l) in hist.iter().enumerate() {
            match C::range_decode(&mut dec, l) {
                Ok(1) => {}
                other => {
                    out.push((
                        format!("RangeDecoder::decode_symbol | {} | round trip mismatch", C::NAME),
                        format!(
                            "history {:?} sealed {:x?}: symbol {i} decoded as {:?}, expected part 1 (decoder variant {variant})",
                            hist, to_u128(&sealed), other.map_err(|e| format!("{e:?}"))
                        ),
                    ));
                    ok = false;
                    break;
                }
            }
            ndec += 1;
        }
        if ok && !dec.maybe_exhausted() {
            out.push((
                format!("RangeDecoder::maybe_exhausted | {} | false after the last symbol", C::NAME),
                format!("history {:?} sealed {:x?}: decoder not maybe_exhausted after decoding all symbols", hist, to_u128(&sealed)),
            ));
        }
    }
    // clear() must be observationally new()
    let mut c = enc.clone();
    c.clear();
    let (b, st, sit) = c.clone().into_raw_parts();
    let fresh = RangeEncoder::<C::W, C::S>::new();
    let (fb, fst, fsit) = fresh.clone().into_raw_parts();
    let inverted = range_is_inverted::<C>(enc).is_some();
    if b != fb || st != fst || sit != fsit {
        let what = if sit != EncoderSituation::Normal { "situation not reset" } else { "state differs from new()" };
        out.push((
            format!("RangeEncoder::clear | {what}"),
            format!("{}: clear() after history {:?} leaves (bulk {:x?}, lower {:x}, range {:x}, situation {:?}), new() is (.., {:?})",
                C::NAME, hist, to_u128(&b), st.lower().into(), st.range().into_u128(), sit, fsit),
        ));
    }
    // and behave like new(): encode one letter on both
    if let Some(&l) = hist.first() {
        let mut f = fresh;
        C::range_encode(&mut c, l).expect("infallible");
        C::range_encode(&mut f, l).expect("infallible");
        let (x, y) = (c.into_compressed().unwrap(), f.into_compressed().unwrap());
        if x != y {
            let what = if inverted { "situation not reset" } else { "output differs from new()" };
            out.push((
                format!("RangeEncoder::clear | {what}"),
                format!("{}: clear() after history {:?}, then encode {:?}: {:x?}, a fresh encoder gives {:x?}", C::NAME, hist, l, to_u128(&x), to_u128(&y)),
            ));
        }
    }
    if let Some(acc) = acc {
        acc.c[6] += ndec;
        acc.c[9] += 1;
        if inverted {
            acc.c[10] += 1;
        }
    }
    out
}

trait NzU128 {
    fn into_u128(self) -> u128;
}
impl<T: constriction::NonZeroBitArray> NzU128 for T
where
    T::Base: Into<u128>,
{
    fn into_u128(self) -> u128 {
        self.get().into()
    }
}

pub fn visit<C: Cfg>(n: &RangeNode<C>, acc: &mut Acc) {
    // event counters
    let inv = range_is_inverted::<C>(n.enc);
    if let Some(k) = inv {
        acc.c[0] += 1;
        if k >= 2 {
            acc.c[1] += 1;
        }
        acc.c[4] += 1;
        let st: RangeCoderState<C::W, C::S> = n.enc.clone().into_raw_parts().1;
        let unit_minus_one = (1u128 << (C::SBITS - C::WBITS)) - 1;
        let lower: u128 = st.lower().into();
        let full = if C::SBITS == 128 { u128::MAX } else { (1u128 << C::SBITS) - 1 };
        if lower > full - unit_minus_one {
            acc.c[5] += 1;
        }
    }
    if let Some(p) = n.parent {
        if let (_, _, EncoderSituation::Inverted(_, fw)) = p.clone().into_raw_parts() {
            if inv.is_none() {
                let plen = p.bulk().len();
                let w = n.enc.bulk()[plen];
                if w == fw {
                    acc.c[3] += 1;
                } else {
                    acc.c[2] += 1;
                }
            }
        }
    }
    if let Some(l) = n.hist.last() {
        if l.prec == max_prec::<C>() {
            acc.c[7] += 1;
        }
    }
    if n.hist.windows(2).any(|w| w[0].prec != w[1].prec) {
        acc.c[8] += 1;
    }
    let sealed_len = n.enc.clone().into_compressed().unwrap().len();
    if !n.hist.is_empty() && sealed_len == n.enc.bulk().len() + inv.unwrap_or(0) + 2 {
        acc.c[11] += 1;
    }
    for (identity, detail) in check_node::<C>(n.enc, n.hist, Some(acc)) {
        acc.violation(identity, detail, json!({"kind": "range_history", "cfg": C::NAME, "letters": letters_json(n.hist)}));
    }
    if acc.samples.is_empty() && n.hist.len() >= 3 && inv.is_some() {
        acc.samples.push(json!({"cfg": C::NAME, "history_[prec,cum,prob]": letters_json(n.hist),
            "sealed": words_json(&to_u128(&n.enc.clone().into_compressed().unwrap())), "encoder_inverted": true}));
    }
}

fn explore<C: Cfg>(report: &Report, alphabet: &[Letter], depth: usize, label: &str) {
    let t = std::time::Instant::now();
    let (accs, nodes, trans) = range_walk::<C, Acc, _>(alphabet, depth, visit::<C>);
    report.add_states(nodes);
    report.add_transitions(trans);
    report.add_traces(nodes);
    let before = report.violation_count();
    merge_accs(report, accs, &NAMES);
    report.section(json!({"cfg": C::NAME, "alphabet": label, "alphabet_size": alphabet.len(), "depth": depth,
        "nodes": nodes, "encode_calls": trans, "violations": report.violation_count() - before,
        "wall_s": t.elapsed().as_secs_f64()}));
}

/// Single-step SYNCHRONISATION induction from arbitrary coder states (built with `from_raw_parts`):
/// for state (lower, range) and letter l,
///  * the encoder's next state is the one the textbook step prescribes
///    (scale = range >> P; lower += scale*c; range = scale*p; shift by one word when range < 2^(S-W));
///  * a decoder in the same state whose point lies anywhere in [lower, lower+range) decodes exactly the part
///    of the model that contains (point - lower) / scale, reports InvalidData exactly for the points in the
///    unusable top slice (quantile >= 2^P), and lands in the same next state as the encoder would for that
///    part, with its point shifted in step and still inside the new interval.
/// Together with the history walks from the initial state this is an inductive argument that encoder and
/// decoder stay in lock-step from every state, not only from those reachable within the depth bound.
fn sync_steps<C: Cfg>(report: &Report, lowers: &[u128], ranges: &[u128], letters: &[Letter], label: &str) {
    use constriction::backends::Cursor;
    use rayon::prelude::*;
    let (wb, sb) = (C::WBITS, C::SBITS);
    let modmask: u128 = if sb == 128 { u128::MAX } else { (1u128 << sb) - 1 };
    let minr: u128 = 1u128 << (sb - wb);
    let next: [u128; 2] = [0xa5, 0x3c];
    let res: Vec<(u64, u64, u64, u64, Vec<(String, String)>)> = lowers.par_iter().map(|&lower| {
        let (mut steps, mut invalid, mut renorm, mut wraps) = (0u64, 0u64, 0u64, 0u64);
        let mut bad: Vec<(String, String)> = vec![];
        for &range in ranges {
            if range < minr || range > modmask { continue; }
            let Ok(st) = RangeCoderState::<C::W, C::S>::new(C::s(lower), C::s(range)) else { panic!("HARNESS: valid raw state refused") };
            if lower.checked_add(range).map_or(true, |x| x > modmask) { wraps += 1; }
            for &l in letters {
                if (sb - wb) < l.prec as u32 { continue; }
                let scale = range >> l.prec;
                let reference = |c: u128, p: u128| -> (u128, u128, bool) {
                    let (mut nl, mut nr) = (lower.wrapping_add(scale * c) & modmask, scale * p);
                    let sh = nr < minr;
                    if sh { nl = (nl << wb) & modmask; nr <<= wb; }
                    (nl, nr, sh)
                };
                let ctx = |what: &str| format!("{}: lower {lower:#x} range {range:#x} letter {:?}: {what}", C::NAME, l);
                // encoder
                let mut e = RangeEncoder::<C::W, C::S>::from_raw_parts(Vec::new(), st, EncoderSituation::Normal);
                C::range_encode(&mut e, l).expect("HARNESS: Vec backend");
                steps += 1;
                let (_, est, _) = e.into_raw_parts();
                let (nl, nr, sh) = reference(l.c as u128, l.p as u128);
                if sh { renorm += 1; }
                use constriction::NonZeroBitArray;
                if est.lower().into() != nl || est.range().get().into() != nr {
                    bad.push((format!("RangeEncoder::encode_symbol (single step) | {} | next state differs from the textbook step", C::NAME),
                        ctx(&format!("got (lower {:#x}, range {:#x}), expected ({nl:#x}, {nr:#x})", est.lower().into(), est.range().get().into()))));
                }
                // decoder at points all over the interval
                let total = 1u128 << l.prec;
                let (c, p) = (l.c as u128, l.p as u128);
                let mut offs: Vec<u128> = vec![scale * c, scale * (c + p) - 1, scale * c + (scale * p) / 2, 0, range - 1, scale * total - 1];
                if c > 0 { offs.push(scale * c - 1); }
                if c + p < total { offs.push(scale * (c + p)); }
                if scale * total < range { offs.push(scale * total); offs.push(scale * total / 2 + range / 2); }
                for off in offs {
                    if off >= range { continue; }
                    let point = lower.wrapping_add(off) & modmask;
                    let src = Cursor::new_at_write_beginning(vec![C::w(next[0]), C::w(next[1])]);
                    let Ok(mut d) = RangeDecoder::<C::W, C::S, _>::from_raw_parts(src, st, C::s(point)) else {
                        bad.push((format!("RangeDecoder::from_raw_parts | {} | point inside the interval refused", C::NAME), ctx(&format!("point {point:#x}"))));
                        continue;
                    };
                    let q = off / scale;
                    let r = C::range_decode(&mut d, l);
                    steps += 1;
                    if q >= total {
                        invalid += 1;
                        if !matches!(r, Err(constriction::CoderError::Frontend(_))) {
                            bad.push((format!("RangeDecoder::decode_symbol (single step) | {} | point in the unusable top slice not reported as invalid data", C::NAME), ctx(&format!("point {point:#x} quantile {q}: {:?}", r.as_ref().map_err(|_| "backend")))));
                        }
                        continue;
                    }
                    let exp: u8 = if q < c { 0 } else if q < c + p { 1 } else { 2 };
                    match r {
                        Ok(k) if k == exp => {
                            let (pc, pp) = crate::models::part_interval(l.prec, l.c, l.p, k);
                            let (nl, nr, sh) = reference(pc as u128, pp as u128);
                            let (_, dst, dpoint) = d.into_raw_parts();
                            let exp_point = if sh { ((point << wb) & modmask) | next[0] } else { point };
                            let (gl, gr, gp): (u128, u128, u128) = (dst.lower().into(), dst.range().get().into(), dpoint.into());
                            if gl != nl || gr != nr || gp != exp_point || (gp.wrapping_sub(gl) & modmask) >= gr {
                                bad.push((format!("RangeDecoder::decode_symbol (single step) | {} | decoder state after the step is not the encoder's", C::NAME),
                                    ctx(&format!("point {point:#x}: got (lower {gl:#x}, range {gr:#x}, point {gp:#x}), expected ({nl:#x}, {nr:#x}, {exp_point:#x})"))));
                            }
                        }
                        other => bad.push((format!("RangeDecoder::decode_symbol (single step) | {} | decodes a different part than the one containing the point", C::NAME),
                            ctx(&format!("point {point:#x} quantile {q}: got {:?}, expected part {exp}", other.map_err(|_| "error"))))),
                    }
                }
                if bad.len() > 12 { break; }
            }
        }
        (steps, invalid, renorm, wraps, bad)
    }).collect();
    let (mut steps, mut invalid, mut renorm, mut wraps) = (0, 0, 0, 0);
    let mut seen = std::collections::BTreeMap::<String, u32>::new();
    for (a, b, c, d, bad) in res {
        steps += a; invalid += b; renorm += c; wraps += d;
        for (i, dt) in bad {
            let n = seen.entry(i.clone()).or_insert(0);
            if *n < 3 { *n += 1; report.violation(crate::report::Violation { identity: i, detail: dt, case: json!({"kind": "none"}) }); }
        }
    }
    report.add_states((lowers.len() * ranges.len()) as u64);
    report.add_transitions(steps);
    report.count("sync_single_steps", steps);
    report.count("sync_points_in_unusable_slice", invalid);
    report.count("sync_steps_that_renormalise", renorm);
    report.count("sync_states_with_wrapping_interval", wraps);
    report.section(json!({"cfg": C::NAME, "part": "single-step synchronisation from arbitrary states", "states": label, "lowers": lowers.len(), "ranges": ranges.len(),
        "letters": letters.len(), "real_encode_decode_calls": steps, "invalid_data_points": invalid, "renormalising_steps": renorm}));
}

/// the batch / fallible / iid forms of the range coder (default methods of `Encode` / `Decode`) equal the
/// per-symbol loop: same encoder afterwards (bulk, state, held-back words), same decoded symbols, same decoder
/// afterwards. Start states: the encoders after every sequence of length <= 2 over the carry alphabet (so that
/// batches start and end in the inverted situation too); batches: every sequence over the P=2 pairs up to `depth`.
fn batch_forms_range<C: Cfg>(report: &Report, depth: usize)
where
    u64: num_traits::AsPrimitive<C::Pr>,
{
    use constriction::stream::{Decode, Encode};
    use constriction::NonZeroBitArray;
    use rayon::prelude::*;
    const P: usize = 2;
    let letters = crate::models::all_pairs(P as u8);
    let carry = range_alphabet12::<C>();
    let mut starts: Vec<Vec<Letter>> = vec![vec![]];
    for &a in &carry { starts.push(vec![a]); for &b in &carry { starts.push(vec![a, b]); } }
    let mut seqs: Vec<Vec<Letter>> = vec![vec![]];
    let mut frontier = seqs.clone();
    for _ in 0..depth {
        frontier = frontier.iter().flat_map(|s| letters.iter().map(move |&l| { let mut q = s.clone(); q.push(l); q })).collect();
        seqs.extend(frontier.iter().cloned());
    }
    let raw = |e: &RangeEncoder<C::W, C::S>| { let (b, s, sit) = e.clone().into_raw_parts(); (to_u128(&b), s.lower().into(), s.range().get().into(), match sit { EncoderSituation::Normal => (0usize, 0u128), EncoderSituation::Inverted(n, w) => (n.get(), w.into()) }) };
    let res: Vec<(u64, u64, Vec<(String, String)>)> = starts.par_iter().map(|st| {
        let mut n = 0u64;
        let mut inv = 0u64;
        let mut bad = vec![];
        let mut base = RangeEncoder::<C::W, C::S>::new();
        for &l in st { C::range_encode(&mut base, l).unwrap(); }
        if range_is_inverted::<C>(&base).is_some() { inv += 1; }
        for s in &seqs {
            let mk = |l: &Letter| crate::models::Raw::<C::Pr, P> { c: num_traits::AsPrimitive::as_(l.c), p: num_traits::AsPrimitive::as_(l.p) };
            let pm = |l: &Letter| crate::models::Part::<C::Pr, P> { c: num_traits::AsPrimitive::as_(l.c), p: num_traits::AsPrimitive::as_(l.p) };
            let mut a = base.clone();
            for l in s { a.encode_symbol((), mk(l)).unwrap(); }
            let want = raw(&a);
            let mut fail = |what: &str, d: String| bad.push((format!("RangeEncoder/RangeDecoder::{what} | {} | differs from the per-symbol loop", C::NAME), format!("start {:?} batch {:?}: {d}", st, s)));
            let mut b = base.clone();
            b.encode_symbols(s.iter().map(|l| ((), mk(l)))).unwrap();
            if raw(&b) != want { fail("encode_symbols", format!("{:x?} vs {:x?}", raw(&b), want)); }
            let mut b = base.clone();
            b.try_encode_symbols(s.iter().map(|l| Ok::<_, ()>(((), mk(l))))).unwrap();
            if raw(&b) != want { fail("try_encode_symbols", format!("{:x?} vs {:x?}", raw(&b), want)); }
            if !s.is_empty() && s.iter().all(|l| l == &s[0]) {
                let mut b = base.clone();
                b.encode_iid_symbols(s.iter().map(|_| ()), mk(&s[0])).unwrap();
                if raw(&b) != want { fail("encode_iid_symbols", format!("{:x?} vs {:x?}", raw(&b), want)); }
            }
            n += 3;
            // decoding: skip the start symbols with the loop, then decode the batch in each form
            let sealed = a.clone().into_compressed().unwrap();
            let mut d0 = RangeDecoder::<C::W, C::S, _>::from_compressed(sealed).unwrap();
            let mut ok = true;
            for &l in st { if !matches!(C::range_decode(&mut d0, l), Ok(1)) { ok = false; break; } }
            if !ok { continue; } // (a round-trip failure is judged by the walk)
            let mut dl = d0.clone();
            let syms: Vec<Option<u8>> = s.iter().map(|l| dl.decode_symbol(pm(l)).ok()).collect();
            let dwant = { let (_, st2, pt) = dl.clone().into_raw_parts(); (st2.lower().into(), st2.range().get().into(), pt.into()) };
            let dstate = |d: &RangeDecoder<C::W, C::S, constriction::backends::Cursor<C::W, Vec<C::W>>>| { let (_, st2, pt) = d.clone().into_raw_parts(); let t: (u128, u128, u128) = (st2.lower().into(), st2.range().get().into(), pt.into()); t };
            let mut d = d0.clone();
            let got: Vec<Option<u8>> = d.decode_symbols(s.iter().map(|l| pm(l))).map(|r| r.ok()).collect();
            if got != syms || dstate(&d) != dwant { fail("decode_symbols", format!("{:?} vs {:?}", got, syms)); }
            let mut d = d0.clone();
            let got: Vec<Option<u8>> = d.try_decode_symbols(s.iter().map(|l| Ok::<_, ()>(pm(l)))).map(|r| r.ok()).collect();
            if got != syms || dstate(&d) != dwant { fail("try_decode_symbols", format!("{:?} vs {:?}", got, syms)); }
            if !s.is_empty() && s.iter().all(|l| l == &s[0]) {
                let mut d = d0.clone();
                let m = pm(&s[0]);
                let got: Vec<Option<u8>> = d.decode_iid_symbols(s.len(), &m).map(|r| r.ok()).collect();
                if got != syms || dstate(&d) != dwant { fail("decode_iid_symbols", format!("{:?} vs {:?}", got, syms)); }
            }
            n += 3;
            if bad.len() > 12 { break; }
        }
        (n, inv, bad)
    }).collect();
    let (mut n, mut inv) = (0, 0);
    let mut seen = std::collections::BTreeMap::<String, u32>::new();
    for (a, b, bad) in res {
        n += a; inv += b;
        for (i, d) in bad { let k = seen.entry(i.clone()).or_insert(0); if *k < 2 { *k += 1; report.violation(crate::report::Violation { identity: i, detail: d, case: json!({"kind": "none"}) }); } }
    }
    report.add_transitions(n);
    report.count("range_batch_form_comparisons", n);
    report.count("range_batch_start_states_inverted", inv);
    report.section(json!({"cfg": C::NAME, "part": "batch / fallible / iid forms of the range coder vs the per-symbol loop", "start_states": starts.len(), "batches": seqs.len(), "comparisons": n, "start_states_inverted": inv}));
}

fn boundary_values(sb: u32, from_bit: u32, width: u128) -> Vec<u128> {
    let top: u128 = if sb == 128 { u128::MAX } else { (1u128 << sb) - 1 };
    let mut v = vec![];
    for d in 0..width { v.push(d); v.push(top - d); v.push((1u128 << from_bit) + d); }
    for k in from_bit..sb { let b = 1u128 << k; for d in 0..=2u128 { v.push(b + d); v.push(b - d.min(b)); } v.push(b + b / 3); v.push(b + b / 2 + 1); }
    v.push(top / 3); v.push(top / 5 * 4); v.push(top - top / 7);
    v.retain(|&x| x <= top);
    v.sort(); v.dedup();
    v
}

pub fn run(report: &Report) {
    use crate::models::*;
    report.bound("all symbol sequences over the listed alphabets up to the listed depth; every node sealed and fully decoded; single-step synchronisation of encoder and decoder from arbitrary raw states (all lower values x boundary ranges on (u8,u16), boundary x boundary on the six wider instantiations) x all letters x points all over the interval");
    report.assume("entropy models are the hand-made Raw/Part models: a coder only ever sees (left cumulative, probability), so these cover all well-formed models at the listed precisions");
    for n in ["nodes_inverted", "nodes_inverted_run_ge2", "carry_resolved_plus_one_then_zeros", "carry_resolved_same_then_ones", "seals_while_inverted", "two_word_seals", "clear_checks_while_inverted"] {
        report.require(n);
    }
    let q = report.tier == Tier::Quick;
    for n in ["sync_single_steps", "sync_points_in_unusable_slice", "sync_steps_that_renormalise", "sync_states_with_wrapping_interval"] {
        report.require(n);
    }
    {
        // (u8,u16): every lower (quick: every 7th + boundaries) x boundary ranges; wider types: boundary x boundary
        let mut lowers16: Vec<u128> = if q { (0..65536u128).step_by(7).collect() } else { (0..65536u128).collect() };
        lowers16.extend(boundary_values(16, 0, 40));
        lowers16.sort(); lowers16.dedup();
        let ranges16 = boundary_values(16, 8, if q { 40 } else { 300 });
        sync_steps::<U8U16>(report, &lowers16, &ranges16, &pairs_alphabet::<U8U16>(), "all (quick: every 7th) lower x boundary ranges");
        let w = if q { 12 } else { 200 };
        sync_steps::<U8U32>(report, &boundary_values(32, 0, w), &boundary_values(32, 24, w), &pairs_alphabet::<U8U32>(), "boundary x boundary");
        sync_steps::<U8U64>(report, &boundary_values(64, 0, w), &boundary_values(64, 56, w), &pairs_alphabet::<U8U64>(), "boundary x boundary");
        sync_steps::<U16U32>(report, &boundary_values(32, 0, w), &boundary_values(32, 16, w), &pairs_alphabet::<U16U32>(), "boundary x boundary");
        sync_steps::<U16U64>(report, &boundary_values(64, 0, w), &boundary_values(64, 48, w), &pairs_alphabet::<U16U64>(), "boundary x boundary");
        sync_steps::<U32U64>(report, &boundary_values(64, 0, w), &boundary_values(64, 32, w), &pairs_alphabet::<U32U64>(), "boundary x boundary");
        sync_steps::<U64U128>(report, &boundary_values(128, 0, w), &boundary_values(128, 64, w), &pairs_alphabet::<U64U128>(), "boundary x boundary");
    }
    batch_forms_range::<U8U16>(report, if q { 3 } else { 4 });
    batch_forms_range::<U8U32>(report, if q { 3 } else { 4 });
    batch_forms_range::<U32U64>(report, 2);
    // S = 2W and S = 4W with 8-bit words: every carry situation within depth 6
    explore::<U8U16>(report, &range_alphabet12::<U8U16>(), if q { 6 } else { 7 }, "a12@P8");
    explore::<U8U32>(report, &range_alphabet12::<U8U32>(), if q { 6 } else { 7 }, "a12@P8");
    explore::<U8U16>(report, &small_alphabet::<U8U16>(), if q { 5 } else { 6 }, "mixed-precision-14");
    explore::<U8U32>(report, &small_alphabet::<U8U32>(), if q { 4 } else { 6 }, "mixed-precision-14");
    explore::<U8U16>(report, &pairs_alphabet::<U8U16>(), if q { 3 } else { 4 }, "all-pairs P<=3 + extremes");
    explore::<U8U64>(report, &range_alphabet12::<U8U64>(), if q { 5 } else { 6 }, "a12@P8");
    explore::<U16U32>(report, &range_alphabet12::<U16U32>(), if q { 5 } else { 6 }, "a12@P16");
    explore::<U16U32>(report, &small_alphabet::<U16U32>(), if q { 3 } else { 5 }, "mixed-precision-14");
    explore::<U16U64>(report, &range_alphabet12::<U16U64>(), if q { 3 } else { 5 }, "a12@P16");
    explore::<U32U64>(report, &range_alphabet12::<U32U64>(), if q { 3 } else { 5 }, "a12@P32");
    explore::<U32U64>(report, &small_alphabet::<U32U64>(), if q { 3 } else { 4 }, "mixed-precision-14");
    explore::<U64U128>(report, &small_alphabet::<U64U128>(), if q { 3 } else { 4 }, "mixed-precision-14");
    super::pyfront::sweep(report, "views", if q { 3 } else { 4 }, "every constructor that takes compressed words (8) on every word string up to the listed length over 6 words, and every call form that takes symbol / parameter arrays (3 coders x 2 forms) on every message up to length 4: a negative-stride view, a stride-2 view and an interior slice must be read like a contiguous copy", &["RangeDecoder(words)", "RangeEncoder.encode"], &[]);
    super::pyfront::sweep(report, "range_histories", if q { 4 } else { 5 },
        "Python RangeEncoder: every sequence of encode calls up to the listed depth over 19 calls (single symbol, iid array, per-symbol parameter arrays incl. one row and no rows, empty iid array); at every node the words are decoded through get_decoder() and RangeDecoder(get_compressed()), one symbol at a time and in the call forms of the encoder",
        &[], &[]);
}

fn replay_cfg<C: Cfg>(letters: &[Letter]) -> Result<String, String> {
    let mut enc = RangeEncoder::<C::W, C::S>::new();
    for &l in letters {
        C::range_encode(&mut enc, l).map_err(|e| format!("{e:?}"))?;
    }
    let v = check_node::<C>(&enc, letters, None);
    if v.is_empty() {
        Ok(format!("history {:?}: all C02 node checks pass", letters))
    } else {
        Err(v.into_iter().map(|(i, d)| format!("[{i}] {d}")).collect::<Vec<_>>().join("\n"))
    }
}

pub fn replay(case: &serde_json::Value) -> Result<String, String> {
    let cfg = case["cfg"].as_str().ok_or("cfg")?;
    let letters = letters_from_json(&case["letters"])?;
    dispatch_cfg!(cfg, replay_cfg, &letters)
}
