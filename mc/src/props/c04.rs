//! C04 — ANS decoding is invertible on arbitrary bits (bits-back / surjectivity).
//!
//! For every word string of the stated lengths: `from_binary` -> decode k symbols with EVERY
//! sequence of models from the alphabet (3-part partitions around each letter) -> encode the
//! decoded symbols back in reverse order -> `into_binary()` AND `get_binary()` must return the
//! original words; `num_valid_bits` is exact before decoding and after re-encoding; decoding
//! never fails; `from_binary` of empty data is a non-empty coder.

use super::common::*;
use crate::dispatch_cfg;
use crate::models::{all_pairs, part_interval, to_u128, Cfg, Letter};
use crate::report::{Report, Tier, Violation};
use constriction::stream::stack::AnsCoder;
use constriction::stream::Code;
use rayon::prelude::*;
use serde_json::json;

fn alphabet<C: Cfg>() -> Vec<Letter> {
    let mut v = all_pairs(2);
    v.push(Letter::new(1, 0, 1));
    v.push(Letter::new(1, 1, 1));
    // (a user-written model may give one symbol the whole interval: zero bits decoded, nothing refilled, nothing flushed back)
    v.push(Letter::new(2, 0, 4));
    let mp = max_prec::<C>();
    let t = 1u64 << mp;
    v.extend([Letter::new(mp, 0, 1), Letter::new(mp, t - 1, 1), Letter::new(mp, 1, t - 2), Letter::new(mp, t / 2, t / 2 - 1)]);
    v
}

struct Ctx<'a> {
    alphabet: &'a [Letter],
    data: &'a [u128],
    nodes: u64,
    steps: u64,
    refills: u64,
    bad: Vec<(String, String, serde_json::Value)>,
}

fn check_back<C: Cfg>(ctx: &mut Ctx, coder: &AnsCoder<C::W, C::S>, trail: &[(Letter, u8)]) {
    // encode the decoded symbols back in reverse order
    let mut c = coder.clone();
    for &(l, k) in trail.iter().rev() {
        let (pc, pp) = part_interval(l.prec, l.c, l.p, k);
        if pp == 0 {
            ctx.bad.push((format!("AnsCoder::decode_symbol | {} | returned a symbol with zero probability", C::NAME),
                format!("data {:x?} models {:?}", ctx.data, trail), json!({"kind": "none"})));
            return;
        }
        C::ans_encode(&mut c, Letter::new(l.prec, pc, pp)).expect("HARNESS: Vec backend");
        ctx.steps += 1;
    }
    ctx.nodes += 1;
    let wbits = C::WBITS as usize;
    let case = || json!({"kind": "binary_roundtrip", "cfg": C::NAME, "data": words_json(ctx.data),
        "models": trail.iter().map(|(l, _)| vec![l.prec as u64, l.c, l.p]).collect::<Vec<_>>()});
    if c.num_valid_bits() != wbits * ctx.data.len() {
        ctx.bad.push((format!("AnsCoder::num_valid_bits | {} | not the size of the binary data after decode + re-encode", C::NAME),
            format!("data {:x?} models {:?}: {} bits, expected {}", ctx.data, trail, c.num_valid_bits(), wbits * ctx.data.len()), case()));
    }
    let last_zero = ctx.data.last() == Some(&0);
    let class = if last_zero { "data whose last word is zero" } else { "data whose last word is non-zero" };
    let mut c2 = c.clone();
    match c2.get_binary() {
        Ok(g) => {
            if to_u128(&g) != ctx.data {
                ctx.bad.push((format!("AnsCoder::get_binary | {class} | differs from the original data"),
                    format!("{}: data {:x?} models {:?}: got {:x?}", C::NAME, ctx.data, trail, to_u128(&g)), case()));
            }
        }
        Err(e) => ctx.bad.push((format!("AnsCoder::get_binary | {class} | refused"), format!("{}: data {:x?} models {:?}: {:?}", C::NAME, ctx.data, trail, e), case())),
    }
    // the borrowing accessor twice in a row and then the consuming one ON THE SAME CODER: a view that is
    // dropped must leave the coder as it was (the export through the other accessor is still the data)
    {
        let mut c3 = c.clone();
        let first = c3.get_binary().map(|g| to_u128(&g)).ok();
        let second = c3.get_binary().map(|g| to_u128(&g)).ok();
        let bits = c3.num_valid_bits();
        let third = c3.into_binary().map(|b| to_u128(&b)).ok();
        if first.as_deref() == Some(ctx.data) && (second != first || third != first || bits != wbits * ctx.data.len()) {
            ctx.bad.push((format!("AnsCoder::get_binary | {class} | the coder no longer exports the original data after a raw-binary view was dropped"),
                format!("{}: data {:x?} models {:?}: second get_binary {:x?}, num_valid_bits {bits}, into_binary {:x?}", C::NAME, ctx.data, trail, second, third), case()));
        }
    }
    match c.clone().into_binary() {
        Ok(b) => {
            if to_u128(&b) != ctx.data {
                ctx.bad.push((format!("AnsCoder::into_binary | {class} | differs from the original data"),
                    format!("{}: data {:x?} models {:?}: got {:x?}", C::NAME, ctx.data, trail, to_u128(&b)), case()));
            }
        }
        Err(e) => ctx.bad.push((format!("AnsCoder::into_binary | {class} | refused"), format!("{}: data {:x?} models {:?}: {:?}", C::NAME, ctx.data, trail, e), case())),
    }
    // the re-encoded coder must be bit-identical to the freshly loaded one
    let fresh = AnsCoder::<C::W, C::S>::from_binary(ctx.data.iter().map(|&w| C::w(w)).collect::<Vec<_>>()).unwrap();
    if c.bulk() != fresh.bulk() || c.state() != fresh.state() {
        ctx.bad.push((format!("AnsCoder | {} | decode then encode in reverse does not restore the coder", C::NAME),
            format!("data {:x?} models {:?}: (bulk {:x?}, state {:x}) vs loaded (bulk {:x?}, state {:x})", ctx.data, trail,
                to_u128(c.bulk()), c.state().into(), to_u128(fresh.bulk()), fresh.state().into()), case()));
    }
}

fn rec<C: Cfg>(ctx: &mut Ctx, coder: &AnsCoder<C::W, C::S>, trail: &mut Vec<(Letter, u8)>, depth_left: usize) {
    check_back::<C>(ctx, coder, trail);
    if depth_left == 0 || ctx.bad.len() > 20 {
        return;
    }
    for i in 0..ctx.alphabet.len() {
        let l = ctx.alphabet[i];
        let mut c2 = coder.clone();
        let before = c2.bulk().len();
        let k = match C::ans_decode(&mut c2, l) {
            Ok(k) => k,
            Err(_) => unreachable!("Vec backend is infallible"),
        };
        ctx.steps += 1;
        if c2.bulk().len() < before {
            ctx.refills += 1;
        }
        trail.push((l, k));
        rec::<C>(ctx, &c2, trail, depth_left - 1);
        trail.pop();
    }
}

fn data_case<C: Cfg>(data: &[u128], alphabet: &[Letter], k: usize) -> Ctx<'static> where C::S: From<C::W> {
    // SAFETY-free trick: build a ctx borrowing local copies, then move results out
    let mut ctx = Ctx { alphabet, data, nodes: 0, steps: 0, refills: 0, bad: vec![] };
    let words: Vec<C::W> = data.iter().map(|&w| C::w(w)).collect();
    let coder = AnsCoder::<C::W, C::S>::from_binary(words).unwrap();
    let wbits = C::WBITS as usize;
    if coder.num_valid_bits() != wbits * data.len() {
        ctx.bad.push((format!("AnsCoder::num_valid_bits | {} | not the size of the binary data right after from_binary", C::NAME),
            format!("data {:x?}: {} bits", data, coder.num_valid_bits()), json!({"kind": "binary_roundtrip", "cfg": C::NAME, "data": words_json(data), "models": []})));
    }
    if coder.is_empty() {
        ctx.bad.push((format!("AnsCoder::from_binary | {} | coder reports empty", C::NAME), format!("data {:x?}", data), json!({"kind": "none"})));
    }
    // the same bits on a REVERSED backend (from_reversed_binary of the reversed words): decode one or two symbols,
    // encode them back, turn the coder round with into_reversed() and export: the original data, the original size
    {
        let mut drev: Vec<C::W> = data.iter().map(|&w| C::w(w)).collect();
        drev.reverse();
        for nsym in 0..=2usize.min(alphabet.len()) {
            let mut r = AnsCoder::<C::W, C::S, _>::from_reversed_binary(drev.clone());
            let mut tr = vec![];
            for i in 0..nsym {
                let l = alphabet[(i * 3 + data.len()) % alphabet.len()];
                if let Ok(kk) = C::ans_decode(&mut r, l) { tr.push((l, kk)); }
            }
            let mut ok = true;
            for &(l, kk) in tr.iter().rev() {
                let (pc, pp) = part_interval(l.prec, l.c, l.p, kk);
                if pp == 0 || C::ans_encode(&mut r, Letter::new(l.prec, pc, pp)).is_err() { ok = false; break; }
            }
            ctx.steps += 2 * tr.len() as u64;
            if !ok {
                ctx.bad.push((format!("AnsCoder on a reversed backend | {} | symbols decoded from binary data cannot be encoded back", C::NAME), format!("data {:x?} models {:?}", data, tr), json!({"kind": "none"})));
                continue;
            }
            let bits = r.num_valid_bits();
            let fwd = r.into_reversed();
            let bits2 = fwd.num_valid_bits();
            let back = fwd.into_binary().ok().map(|cur| { let (buf, pos) = cur.into_buf_and_pos(); to_u128(&buf[..pos]) });
            if bits != wbits * data.len() || bits2 != bits || back.as_deref() != Some(data) {
                ctx.bad.push((format!("AnsCoder::into_reversed | {} | binary data loaded on a reversed backend is not what the coder exports after being turned round", C::NAME),
                    format!("data {:x?}, {} symbols decoded and encoded back: num_valid_bits {bits} / {bits2} (expected {}), into_binary {:x?}", data, tr.len(), wbits * data.len(), back), json!({"kind": "none"})));
            }
        }
    }
    rec::<C>(&mut ctx, &coder, &mut vec![], k);
    Ctx { alphabet: &[], data: &[], nodes: ctx.nodes, steps: ctx.steps, refills: ctx.refills, bad: ctx.bad }
}

fn all_strings(letters: &[u128], max_len: usize) -> Vec<Vec<u128>> {
    let mut out = vec![vec![]];
    let mut frontier: Vec<Vec<u128>> = vec![vec![]];
    for _ in 0..max_len {
        frontier = frontier.iter().flat_map(|s| letters.iter().map(move |&w| { let mut t = s.clone(); t.push(w); t })).collect();
        out.extend(frontier.iter().cloned());
    }
    out
}

fn explore<C: Cfg>(report: &Report, datas: &[Vec<u128>], k: usize, label: &str) where C::S: From<C::W> {
    let t = std::time::Instant::now();
    let alphabet = alphabet::<C>();
    let res: Vec<(u64, u64, u64, Vec<(String, String, serde_json::Value)>)> = datas
        .par_iter()
        .map(|d| {
            let c = data_case::<C>(d, &alphabet, k);
            (c.nodes, c.steps, c.refills, c.bad)
        })
        .collect();
    let (mut nodes, mut steps, mut refills) = (0, 0, 0);
    let mut zero_tail = 0u64;
    for (i, (n, s, r, bad)) in res.into_iter().enumerate() {
        nodes += n;
        steps += s;
        refills += r;
        if datas[i].last() == Some(&0) {
            zero_tail += n;
        }
        for (id, d, c) in bad {
            report.violation(Violation { identity: id, detail: d, case: c });
        }
    }
    report.add_states(nodes);
    report.add_transitions(steps);
    report.add_traces(nodes);
    report.count("decode_sequences_reencoded", nodes);
    report.count("decodes_that_refilled_a_word", refills);
    report.count("cases_with_data_ending_in_zero_word", zero_tail);
    report.section(json!({"cfg": C::NAME, "data": label, "data_strings": datas.len(), "models_per_step": alphabet.len(), "max_decoded_symbols": k,
        "decode_sequences": nodes, "real_decode_encode_calls": steps, "wall_s": t.elapsed().as_secs_f64()}));
}

pub fn run(report: &Report) {
    use crate::models::*;
    let q = report.tier == Tier::Quick;
    report.bound("all word strings of the listed lengths x all model sequences of the listed length over 15 models (all 9 pairs at P=2, both P=1 letters, 4 extremes at P=W); both raw-binary accessors");
    report.assume("models are 3-part partitions around a letter; a decoder only sees (symbol, left cumulative, probability) of the part hit by the quantile, so these cover all well-formed models whose part boundaries are the letter's");
    for n in ["decodes_that_refilled_a_word", "cases_with_data_ending_in_zero_word"] {
        report.require(n);
    }
    let all8: Vec<u128> = (0..=255u128).collect();
    let few8: Vec<u128> = vec![0x00, 0x01, 0x80, 0xff];
    report.sample(json!({"cfg": "u8/u16", "data": ["12", "00"], "models_[prec,cum,prob]": [[2, 1, 2], [8, 255, 1]], "procedure": "from_binary -> decode with each model -> encode decoded symbols in reverse -> into_binary/get_binary == data"}));
    explore::<U8U16>(report, &all_strings(&all8, 2), if q { 2 } else { 3 }, "all u8 strings, len 0..=2");
    explore::<U8U32>(report, &all_strings(&all8, 2), if q { 2 } else { 3 }, "all u8 strings, len 0..=2");
    explore::<U8U64>(report, &all_strings(&all8, if q { 1 } else { 2 }), if q { 3 } else { 3 }, "all u8 strings");
    explore::<U8U16>(report, &all_strings(&few8, 6), if q { 3 } else { 4 }, "strings over {00,01,80,ff}, len 0..=6");
    explore::<U8U32>(report, &all_strings(&few8, 6), if q { 3 } else { 4 }, "strings over {00,01,80,ff}, len 0..=6");
    explore::<U8U64>(report, &all_strings(&few8, if q { 6 } else { 9 }), 3, "strings over {00,01,80,ff}");
    if !q {
        // all 3-byte strings, shallower
        explore::<U8U16>(report, &all_strings(&all8, 3), 1, "all u8 strings, len 0..=3");
        explore::<U8U32>(report, &all_strings(&all8, 3), 1, "all u8 strings, len 0..=3");
    }
    let few16: Vec<u128> = vec![0, 1, 0x8000, 0xffff, 0x5a5a];
    let few32: Vec<u128> = vec![0, 1, 0x8000_0000, 0xffff_ffff, 0x5a5a_5a5a];
    let few64: Vec<u128> = vec![0, 1, 1 << 63, u64::MAX as u128];
    explore::<U16U32>(report, &all_strings(&few16, 4), if q { 3 } else { 4 }, "strings over {0,1,8000,ffff,5a5a}, len 0..=4");
    explore::<U16U64>(report, &all_strings(&few16, 5), if q { 2 } else { 3 }, "strings over {0,1,8000,ffff,5a5a}, len 0..=5");
    explore::<U32U64>(report, &all_strings(&few32, 4), if q { 3 } else { 4 }, "strings over 5 boundary words, len 0..=4");
    explore::<U64U128>(report, &all_strings(&few64, 4), if q { 2 } else { 3 }, "strings over 4 boundary words, len 0..=4");
    super::pyfront::sweep(report, "views", if q { 3 } else { 4 }, "every constructor that takes compressed words (8) on every word string up to the listed length over 6 words, and every call form that takes symbol / parameter arrays (3 coders x 2 forms) on every message up to length 4: a negative-stride view, a stride-2 view and an interior slice must be read like a contiguous copy", &["AnsCoder(words, seal=True)"], &[]);
    super::pyfront::sweep(report, "bitsback", if q { 3 } else { 4 },
        "every u32 word string up to the listed length over 8 boundary words, as AnsCoder(words, seal=True) and (last word non-zero) AnsCoder(words), x 5 models x {1, 2, 5 symbols} x 3 call forms: decode, encode the symbols back, get_compressed(unseal) == words; num_valid_bits == 32 * len",
        &[], &[]);
}

fn replay_cfg<C: Cfg>(data: &[u128], models: &[Letter]) -> Result<String, String> {
    let words: Vec<C::W> = data.iter().map(|&w| C::w(w)).collect();
    let mut coder = AnsCoder::<C::W, C::S>::from_binary(words).unwrap();
    let mut trail = vec![];
    for &l in models {
        let k = C::ans_decode(&mut coder, l).map_err(|_| "backend")?;
        trail.push((l, k));
    }
    let alphabet: Vec<Letter> = vec![];
    let mut ctx = Ctx { alphabet: &alphabet, data, nodes: 0, steps: 0, refills: 0, bad: vec![] };
    check_back::<C>(&mut ctx, &coder, &trail);
    if ctx.bad.is_empty() { Ok(format!("data {:x?} restored through both accessors", data)) } else { Err(ctx.bad.into_iter().map(|(i, d, _)| format!("[{i}] {d}")).collect::<Vec<_>>().join("\n")) }
}

pub fn replay(case: &serde_json::Value) -> Result<String, String> {
    if case["kind"] != "binary_roundtrip" {
        return Err("no stand-alone replay for this class".into());
    }
    let cfg = case["cfg"].as_str().ok_or("cfg")?;
    let data = words_from_json(&case["data"])?;
    let models = letters_from_json(&case["models"])?;
    dispatch_cfg!(cfg, replay_cfg, &data, &models)
}
