//! C17 — word sources and sinks honour their read/write/bounds/position contracts.
//!
//! Explicit-state BFS with full dedup over state = (buffer contents, position), buffer length
//! <= 4. Every transition is executed on each real backend kind constructed in that state and on
//! the reference (`Vec<u8>` + index). Observations in every state: pos, remaining (both
//! semantics), space_left, is_exhausted/maybe_exhausted/is_full/maybe_full, the number of
//! reads/writes that actually succeed when a copy is driven to exhaustion, fused end-of-data,
//! `into_reversed` as a bisimulation, `as_view`/`as_mut_view`/`cloned` equivalence.
//! The search runs until the frontier is empty (fixed point).

use crate::report::{Report, Tier, Violation};
use constriction::backends::*;
use constriction::{Pos, Queue, Seek, Stack};
use serde_json::json;
use smallvec::SmallVec;
use std::collections::{HashSet, VecDeque};

#[derive(Clone, Debug, PartialEq, Eq, Hash)]
struct Ref {
    buf: Vec<u8>,
    pos: usize,
}

#[derive(Clone, Copy, Debug, PartialEq, Eq)]
enum Op {
    ReadS,
    ReadQ,
    Write(u8),
    Seek(usize),
    /// `extend_from_iter` with k words 0x21, 0x22, ...: by contract the per-word loop, short-circuiting on error
    Extend(u8),
}

struct Out {
    bad: Vec<(String, String)>,
}
impl Out {
    fn fail(&mut self, site: &str, what: &str, detail: String) {
        self.bad.push((format!("{site} | {what}"), detail));
    }
}

// reference semantics of a cursor
fn ref_step(r: &Ref, op: Op) -> (Ref, Result<Option<u8>, ()>) {
    let mut n = r.clone();
    let res = match op {
        Op::ReadS => {
            if n.pos == 0 { Ok(None) } else { n.pos -= 1; Ok(Some(n.buf[n.pos])) }
        }
        Op::ReadQ => {
            if n.pos == n.buf.len() { Ok(None) } else { n.pos += 1; Ok(Some(n.buf[n.pos - 1])) }
        }
        Op::Write(w) => {
            if n.pos == n.buf.len() { Err(()) } else { n.buf[n.pos] = w; n.pos += 1; Ok(None) }
        }
        Op::Seek(p) => {
            if p > n.buf.len() { Err(()) } else { n.pos = p; Ok(None) }
        }
        Op::Extend(k) => {
            let mut res = Ok(None);
            for i in 0..k {
                if n.pos == n.buf.len() { res = Err(()); break; }
                n.buf[n.pos] = 0x21 + i;
                n.pos += 1;
            }
            res
        }
    };
    (n, res)
}
// reference semantics of Reverse(cursor) in terms of the inner (buf,pos)
fn ref_step_rev(r: &Ref, op: Op) -> (Ref, Result<Option<u8>, ()>) {
    let mut n = r.clone();
    let res = match op {
        // Stack-read of Reverse = queue-read of the inner cursor
        Op::ReadS => {
            if n.pos == n.buf.len() { Ok(None) } else { n.pos += 1; Ok(Some(n.buf[n.pos - 1])) }
        }
        Op::ReadQ => {
            if n.pos == 0 { Ok(None) } else { n.pos -= 1; Ok(Some(n.buf[n.pos])) }
        }
        Op::Write(w) => {
            if n.pos == 0 { Err(()) } else { n.pos -= 1; n.buf[n.pos] = w; Ok(None) }
        }
        Op::Seek(p) => {
            if p > n.buf.len() { Err(()) } else { n.pos = p; Ok(None) }
        }
        Op::Extend(k) => {
            let mut res = Ok(None);
            for i in 0..k {
                if n.pos == 0 { res = Err(()); break; }
                n.pos -= 1;
                n.buf[n.pos] = 0x21 + i;
            }
            res
        }
    };
    (n, res)
}

macro_rules! cursor_kind {
    ($fname:ident, $site:literal, $mk:expr) => {
        /// executes `op` on the real backend built in state `r`; returns the resulting state
        fn $fname(r: &Ref, op: Op, o: &mut Out) -> Option<Ref> {
            let mut storage = r.buf.clone();
            let _ = &mut storage;
            let (exp_state, exp_res) = ref_step(r, op);
            #[allow(unused_mut)]
            let mut c = $mk(&mut storage, r.pos);
            let got: Result<Option<u8>, ()> = match op {
                Op::ReadS => Ok(ReadWords::<u8, Stack>::read(&mut c).unwrap()),
                Op::ReadQ => Ok(ReadWords::<u8, Queue>::read(&mut c).unwrap()),
                Op::Write(w) => WriteWords::<u8>::write(&mut c, w).map(|_| None).map_err(|_| ()),
                Op::Seek(p) => c.seek(p).map(|_| None),
                Op::Extend(k) => WriteWords::<u8>::extend_from_iter(&mut c, (0..k).map(|i| 0x21 + i)).map(|_| None).map_err(|_| ()),
            };
            if got != exp_res {
                o.fail($site, "operation result differs from the contract", format!("state {:?} op {:?}: got {:?} expected {:?}", r, op, got, exp_res));
            }
            let p = Pos::pos(&c);
            let b: Vec<u8> = c.buf().iter().copied().collect();
            let now = Ref { buf: b, pos: p };
            if now != exp_state {
                o.fail($site, "state after the operation differs from the contract", format!("state {:?} op {:?}: now {:?} expected {:?}", r, op, now, exp_state));
                return None;
            }
            Some(now)
        }
    };
}

fn mk_owned(s: &mut Vec<u8>, p: usize) -> Cursor<u8, Vec<u8>> {
    Cursor::new_at_pos(s.clone(), p).unwrap()
}
fn mk_mut(s: &mut Vec<u8>, p: usize) -> Cursor<u8, &mut [u8]> {
    Cursor::new_at_pos_mut(&mut s[..], p).unwrap()
}
cursor_kind!(step_cursor_vec, "Cursor<Vec>", mk_owned);
cursor_kind!(step_cursor_mut, "Cursor<&mut [Word]>", mk_mut);

fn step_cursor_ref(r: &Ref, op: Op, o: &mut Out) -> Option<Ref> {
    if matches!(op, Op::Write(_) | Op::Extend(_)) {
        return None;
    }
    let (exp_state, exp_res) = ref_step(r, op);
    let mut c = Cursor::new_at_pos(&r.buf[..], r.pos).unwrap();
    let got: Result<Option<u8>, ()> = match op {
        Op::ReadS => Ok(ReadWords::<u8, Stack>::read(&mut c).unwrap()),
        Op::ReadQ => Ok(ReadWords::<u8, Queue>::read(&mut c).unwrap()),
        Op::Seek(p) => c.seek(p).map(|_| None),
        Op::Write(_) | Op::Extend(_) => unreachable!(),
    };
    if got != exp_res {
        o.fail("Cursor<&[Word]>", "operation result differs from the contract", format!("state {:?} op {:?}: got {:?} expected {:?}", r, op, got, exp_res));
    }
    let now = Ref { buf: c.buf().to_vec(), pos: Pos::pos(&c) };
    if now != exp_state {
        o.fail("Cursor<&[Word]>", "state after the operation differs from the contract", format!("state {:?} op {:?}: now {:?}", r, op, now));
        return None;
    }
    Some(now)
}

fn step_reverse(r: &Ref, op: Op, o: &mut Out) -> Option<Ref> {
    let (exp_state, exp_res) = ref_step_rev(r, op);
    let mut c = Reverse(Cursor::new_at_pos(r.buf.clone(), r.pos).unwrap());
    let got: Result<Option<u8>, ()> = match op {
        Op::ReadS => Ok(ReadWords::<u8, Stack>::read(&mut c).unwrap()),
        Op::ReadQ => Ok(ReadWords::<u8, Queue>::read(&mut c).unwrap()),
        Op::Write(w) => WriteWords::<u8>::write(&mut c, w).map(|_| None).map_err(|_| ()),
        Op::Seek(p) => c.seek(p).map(|_| None),
        Op::Extend(k) => WriteWords::<u8>::extend_from_iter(&mut c, (0..k).map(|i| 0x21 + i)).map(|_| None).map_err(|_| ()),
    };
    if got != exp_res {
        o.fail("Reverse<Cursor<Vec>>", "operation result differs from the contract", format!("inner state {:?} op {:?}: got {:?} expected {:?}", r, op, got, exp_res));
    }
    let p = Pos::pos(&c);
    let (b, p2) = c.0.into_buf_and_pos();
    let now = Ref { buf: b, pos: p };
    if now != exp_state || p != p2 {
        o.fail("Reverse<Cursor<Vec>>", "state after the operation differs from the contract", format!("inner state {:?} op {:?}: now {:?} expected {:?}", r, op, now, exp_state));
        return None;
    }
    Some(now)
}

/// observations that must hold in every state
fn observe(r: &Ref, o: &mut Out, counters: &mut [u64; 6]) {
    let len = r.buf.len();
    let mk = || Cursor::new_at_pos(r.buf.clone(), r.pos).unwrap();
    let c = mk();
    if Pos::pos(&c) != r.pos {
        o.fail("Cursor::pos", "wrong", format!("{:?}", r));
    }
    let rem_s = BoundedReadWords::<u8, Stack>::remaining(&c);
    let rem_q = BoundedReadWords::<u8, Queue>::remaining(&c);
    let space = BoundedWriteWords::<u8>::space_left(&c);
    // number of operations that actually succeed
    let mut d = mk();
    let mut n = 0;
    while ReadWords::<u8, Stack>::read(&mut d).unwrap().is_some() { n += 1; }
    if n != rem_s {
        o.fail("Cursor::remaining (stack)", "reported number differs from the reads that succeed", format!("{:?}: reported {rem_s}, {n} reads succeed", r));
    }
    for _ in 0..2 {
        if ReadWords::<u8, Stack>::read(&mut d).unwrap().is_some() {
            o.fail("Cursor::read (stack)", "not fused after end-of-data", format!("{:?}", r));
        }
    }
    counters[0] += 1;
    let mut d = mk();
    let mut n = 0;
    while ReadWords::<u8, Queue>::read(&mut d).unwrap().is_some() { n += 1; }
    if n != rem_q {
        o.fail("Cursor::remaining (queue)", "reported number differs from the reads that succeed", format!("{:?}: reported {rem_q}, {n} reads succeed", r));
    }
    for _ in 0..2 {
        if ReadWords::<u8, Queue>::read(&mut d).unwrap().is_some() {
            o.fail("Cursor::read (queue)", "not fused after end-of-data", format!("{:?}", r));
        }
    }
    let mut d = mk();
    let mut n = 0;
    while d.write(99).is_ok() { n += 1; if n > len + 2 { break; } }
    if n != space {
        o.fail("Cursor::space_left", "reported number differs from the writes that succeed", format!("{:?}: reported {space}, {n} writes succeed", r));
    }
    if d.write(98).is_ok() {
        o.fail("Cursor::write", "succeeds after the sink was full", format!("{:?}", r));
    }
    // flags
    if BoundedReadWords::<u8, Stack>::is_exhausted(&c) != (rem_s == 0) || BoundedReadWords::<u8, Queue>::is_exhausted(&c) != (rem_q == 0) {
        o.fail("Cursor::is_exhausted", "inconsistent with remaining", format!("{:?}", r));
    }
    if (rem_s == 0) && !ReadWords::<u8, Stack>::maybe_exhausted(&c) || (rem_q == 0) && !ReadWords::<u8, Queue>::maybe_exhausted(&c) {
        o.fail("Cursor::maybe_exhausted", "false although no word is left", format!("{:?}", r));
    }
    if BoundedWriteWords::<u8>::is_full(&c) != (space == 0) || (space == 0 && !WriteWords::<u8>::maybe_full(&c)) {
        o.fail("Cursor::is_full / maybe_full", "inconsistent with space_left", format!("{:?}", r));
    }
    // Reverse view of the same inner state
    let rc = Reverse(mk());
    let sl = BoundedWriteWords::<u8>::space_left(&rc);
    let mut d = Reverse(mk());
    let mut n = 0;
    while d.write(99).is_ok() { n += 1; if n > len + 2 { break; } }
    counters[1] += 1;
    if sl != n {
        o.fail("Reverse<Cursor>::space_left", "reported number differs from the writes that succeed", format!("inner {:?}: reported {sl}, {n} writes succeed", r));
    }
    let rs = BoundedReadWords::<u8, Stack>::remaining(&rc);
    let mut d = Reverse(mk());
    let mut n = 0;
    while ReadWords::<u8, Stack>::read(&mut d).unwrap().is_some() { n += 1; }
    if rs != n {
        o.fail("Reverse<Cursor>::remaining (stack)", "reported number differs from the reads that succeed", format!("inner {:?}: reported {rs}, {n}", r));
    }
    let rq = BoundedReadWords::<u8, Queue>::remaining(&rc);
    let mut d = Reverse(mk());
    let mut n = 0;
    while ReadWords::<u8, Queue>::read(&mut d).unwrap().is_some() { n += 1; }
    if rq != n {
        o.fail("Reverse<Cursor>::remaining (queue)", "reported number differs from the reads that succeed", format!("inner {:?}: reported {rq}, {n}", r));
    }
    if BoundedReadWords::<u8, Stack>::is_exhausted(&rc) != (rs == 0) || BoundedReadWords::<u8, Queue>::is_exhausted(&rc) != (rq == 0) {
        o.fail("Reverse<Cursor>::is_exhausted", "inconsistent with remaining", format!("inner {:?}", r));
    }
    // into_reversed is observationally a no-op: run every op sequence of length <= 3 over {readS, readQ, write} on both
    let ops = [Op::ReadS, Op::ReadQ, Op::Write(7)];
    for a in 0..27usize {
        let seq = [ops[a % 3], ops[a / 3 % 3], ops[a / 9]];
        let mut x = mk();
        let mut y = mk().into_reversed();
        for (i, op) in seq.iter().enumerate() {
            let (rx, ry): (Result<Option<u8>, ()>, Result<Option<u8>, ()>) = match op {
                Op::ReadS => (Ok(ReadWords::<u8, Stack>::read(&mut x).unwrap()), Ok(ReadWords::<u8, Stack>::read(&mut y).unwrap())),
                Op::ReadQ => (Ok(ReadWords::<u8, Queue>::read(&mut x).unwrap()), Ok(ReadWords::<u8, Queue>::read(&mut y).unwrap())),
                Op::Write(w) => (x.write(*w).map(|_| None).map_err(|_| ()), y.write(*w).map(|_| None).map_err(|_| ())),
                _ => unreachable!(),
            };
            counters[2] += 1;
            if rx != ry {
                o.fail("Cursor::into_reversed", "not a no-op for subsequent reads and writes", format!("{:?} ops {:?} step {i}: original {:?}, reversed {:?}", r, seq, rx, ry));
                break;
            }
            let (sx, sy) = (BoundedWriteWords::<u8>::space_left(&x), BoundedWriteWords::<u8>::space_left(&y));
            let (ax, ay) = (BoundedReadWords::<u8, Stack>::remaining(&x), BoundedReadWords::<u8, Stack>::remaining(&y));
            let (qx, qy) = (BoundedReadWords::<u8, Queue>::remaining(&x), BoundedReadWords::<u8, Queue>::remaining(&y));
            if sx != sy || ax != ay || qx != qy {
                o.fail("Cursor::into_reversed", "size queries differ between original and reversed", format!("{:?} ops {:?} step {i}: space {sx}/{sy} remaining(stack) {ax}/{ay} remaining(queue) {qx}/{qy}", r, seq));
                break;
            }
        }
        // and reversing twice gives back the original
        let z = mk().into_reversed().into_reversed();
        let (b, p) = z.into_buf_and_pos();
        if b != r.buf || p != r.pos {
            o.fail("Cursor::into_reversed", "reversing twice is not the identity", format!("{:?}", r));
        }
    }
    // views and clones are the same state
    {
        let mut c = mk();
        let v = c.as_view();
        if v.buf() != &&r.buf[..] || Pos::pos(&v) != r.pos {
            o.fail("Cursor::as_view", "view differs from its owner", format!("{:?}", r));
        }
        let k = c.cloned();
        if k.buf() != &r.buf || Pos::pos(&k) != r.pos {
            o.fail("Cursor::cloned", "copy differs from its owner", format!("{:?}", r));
        }
        let mv = c.as_mut_view();
        if Pos::pos(&mv) != r.pos {
            o.fail("Cursor::as_mut_view", "view differs from its owner", format!("{:?}", r));
        }
        counters[3] += 3;
    }
    // constructors
    if Cursor::<u8, _>::new_at_pos(r.buf.clone(), len + 1).is_ok() || Cursor::<u8, _>::new_at_pos_mut(r.buf.clone(), len + 1).is_ok() {
        o.fail("Cursor::new_at_pos", "position beyond the buffer accepted", format!("{:?}", r));
    }
    if Pos::pos(&Cursor::<u8, _>::new_at_write_end(r.buf.clone())) != len || Pos::pos(&Cursor::<u8, _>::new_at_write_beginning(r.buf.clone())) != 0
        || Pos::pos(&Cursor::<u8, _>::new_at_write_end_mut(r.buf.clone())) != len {
        o.fail("Cursor::new_at_write_end/beginning", "wrong position", format!("{:?}", r));
    }
}

/// Vec / SmallVec as stacks, iterator and callback adapters: all op sequences up to a depth
fn vec_like(report: &Report, depth: usize) {
    #[derive(Clone, Copy, Debug)]
    enum V { Read, Write(u8), Seek(usize), Extend(u8) }
    let ops: Vec<V> = vec![V::Read, V::Write(1), V::Write(2), V::Seek(0), V::Seek(1), V::Seek(2), V::Seek(3), V::Seek(5), V::Extend(0), V::Extend(3)];
    let mut total = 0u64;
    let mut bad: Vec<(String, String)> = vec![];
    for len in 0..=depth {
        let n = ops.len().pow(len as u32);
        for idx in 0..n {
            let seq: Vec<V> = (0..len).map(|i| ops[idx / ops.len().pow(i as u32) % ops.len()]).collect();
            let mut v: Vec<u8> = vec![10, 11];
            let mut s: SmallVec<[u8; 2]> = SmallVec::from_slice(&[10, 11]);
            let mut r: Vec<u8> = vec![10, 11];
            for (i, op) in seq.iter().enumerate() {
                let (gv, gs, er): (Result<Option<u8>, ()>, Result<Option<u8>, ()>, Result<Option<u8>, ()>) = match *op {
                    V::Read => (Ok(ReadWords::<u8, Stack>::read(&mut v).unwrap()), Ok(ReadWords::<u8, Stack>::read(&mut s).unwrap()), Ok(r.pop())),
                    V::Write(w) => { r.push(w); (WriteWords::write(&mut v, w).map(|_| None).map_err(|_| ()), WriteWords::write(&mut s, w).map(|_| None).map_err(|_| ()), Ok(None)) }
                    V::Seek(p) => { let e = if p <= r.len() { r.truncate(p); Ok(None) } else { Err(()) }; (v.seek(p).map(|_| None), s.seek(p).map(|_| None), e) }
                    V::Extend(k) => { for j in 0..k { r.push(0x21 + j); } (WriteWords::extend_from_iter(&mut v, (0..k).map(|j| 0x21 + j)).map(|_| None).map_err(|_| ()), WriteWords::extend_from_iter(&mut s, (0..k).map(|j| 0x21 + j)).map(|_| None).map_err(|_| ()), Ok(None)) }
                };
                total += 2;
                if gv != er || v != r || Pos::pos(&v) != r.len() || BoundedReadWords::<u8, Stack>::remaining(&v) != r.len() || BoundedReadWords::<u8, Stack>::is_exhausted(&v) != r.is_empty() {
                    bad.push(("Vec<Word> backend | stack contract".into(), format!("ops {:?} step {i}: got {:?} expected {:?}, content {:?} expected {:?}", seq, gv, er, v, r)));
                    break;
                }
                if gs != er || s[..] != r[..] || Pos::pos(&s) != r.len() || BoundedReadWords::<u8, Stack>::remaining(&s) != r.len() {
                    bad.push(("SmallVec backend | stack contract".into(), format!("ops {:?} step {i}: got {:?} expected {:?}", seq, gs, er)));
                    break;
                }
            }
        }
    }
    // iterator adapters: order, remaining, fused even if the underlying iterator is not
    struct Flaky(u8);
    impl Iterator for Flaky {
        type Item = Result<u8, ()>;
        fn next(&mut self) -> Option<Self::Item> {
            self.0 += 1;
            match self.0 { 1 => Some(Ok(5)), 2 => Some(Ok(6)), 3 => None, 4 => Some(Ok(7)), _ => None }
        }
    }
    let mut it = FallibleIteratorReadWords::new(Flaky(0));
    let got: Vec<Option<u8>> = (0..5).map(|_| ReadWords::<u8, Queue>::read(&mut it).unwrap()).collect();
    total += 5;
    if got != [Some(5), Some(6), None, None, None] {
        bad.push(("FallibleIteratorReadWords | not fused after the first end-of-data".into(), format!("{:?}", got)));
    }
    // (the "infallible" adapter can only be built over an iterator of Results, which it then hands out as its words -
    // DESIGN.md 6.5 - but the fused-end obligation of the contract holds for it all the same)
    let mut it = InfallibleIteratorReadWords::new::<_, u8, ()>(Flaky(0));
    let got: Vec<Option<Result<u8, ()>>> = (0..5).map(|_| ReadWords::<Result<u8, ()>, Queue>::read(&mut it).unwrap_or(None)).collect();
    total += 5;
    if got != [Some(Ok(5)), Some(Ok(6)), None, None, None] {
        bad.push(("InfallibleIteratorReadWords | not fused after the first end-of-data".into(), format!("{:?}", got)));
    }
    let mut it = InfallibleIteratorReadWords::new::<_, u8, ()>(Flaky(0));
    let got: Vec<Option<Result<u8, ()>>> = (0..5).map(|_| ReadWords::<Result<u8, ()>, Stack>::read(&mut it).unwrap_or(None)).collect();
    total += 5;
    if got != [Some(Ok(5)), Some(Ok(6)), None, None, None] {
        bad.push(("InfallibleIteratorReadWords | not fused after the first end-of-data".into(), format!("stack semantics: {:?}", got)));
    }
    let data = [1u8, 2, 3];
    let mut it = FallibleIteratorReadWords::new(data.iter().map(|&w| Ok::<u8, ()>(w)));
    for k in 0..=3usize {
        let rem = BoundedReadWords::<u8, Stack>::remaining(&it);
        if rem != 3 - k {
            bad.push(("FallibleIteratorReadWords::remaining | differs from the reads that succeed".into(), format!("after {k} reads: {rem}")));
        }
        let w = ReadWords::<u8, Stack>::read(&mut it).unwrap();
        total += 1;
        if w != data.get(k).copied() {
            bad.push(("FallibleIteratorReadWords::read | wrong order".into(), format!("read #{k}: {:?}", w)));
        }
    }
    let mut it = FallibleIteratorReadWords::new(vec![Ok(1u8), Err("boom"), Ok(3)]);
    let a = ReadWords::<u8, Queue>::read(&mut it);
    let b = ReadWords::<u8, Queue>::read(&mut it);
    total += 2;
    if a != Ok(Some(1)) || b != Err("boom") {
        bad.push(("FallibleIteratorReadWords::read | error not propagated".into(), format!("{:?} {:?}", a, b)));
    }
    // (InfallibleIteratorReadWords::new demands an iterator of Results and can therefore not be constructed for a source of
    // words, see DESIGN.md 6.5; the fallible adapter is the one that can be used.)
    // the exhaustion contract of every iterator-backed source, for exact-size AND inexact iterators of every
    // length 0..=4: `maybe_exhausted() == false` obliges the next read to yield a word; reads come in order; the
    // end is fused; `remaining` (where offered) is the number of reads that succeed
    for n in 0..=4u8 {
        macro_rules! drive {
            ($name:literal, $src:expr) => {{
                let mut it = $src;
                let expect: Vec<u8> = (0..n).map(|i| 40 + i).collect();
                for k in 0..(n as usize + 3) {
                    let claims_data = !ReadWords::<u8, Queue>::maybe_exhausted(&it);
                    let got = ReadWords::<u8, Queue>::read(&mut it);
                    total += 1;
                    let got = match got { Ok(g) => g, Err(_) => { bad.push((format!("{} | read fails on an infallible source", $name), format!("n {n} read #{k}"))); break; } };
                    if got != expect.get(k).copied() {
                        bad.push((format!("{} | wrong order / not fused", $name), format!("n {n} read #{k}: {:?}", got)));
                    }
                    if claims_data && got.is_none() {
                        bad.push((format!("{} | maybe_exhausted() returned false but the next read found no data", $name), format!("source of {n} words, read #{k}")));
                    }
                }
            }};
        }
        drive!("FallibleIteratorReadWords over an exact-size iterator", FallibleIteratorReadWords::new((0..n).map(|i| Ok::<u8, ()>(40 + i))));
        drive!("FallibleIteratorReadWords over a filtered (inexact) iterator", FallibleIteratorReadWords::new((0..2 * n).filter(|i| i % 2 == 0).map(|i| Ok::<u8, ()>(40 + i / 2))));
        drive!("FallibleIteratorReadWords over iter::from_fn", { let mut k = 0u8; FallibleIteratorReadWords::new(std::iter::from_fn(move || { k += 1; if k <= n { Some(Ok::<u8, ()>(39 + k)) } else { None } })) });
    }
    // the BOUNDED contract (remaining / is_exhausted) of exact-size iterator sources, bare and behind `Reverse` (which
    // swaps the semantics) and behind two `Reverse`s, in both semantics: at every step `remaining()` is the number of
    // reads that will still succeed and `is_exhausted()` says whether that number is zero
    for n in 0..=4u8 {
        macro_rules! bounded {
            ($name:literal, $sem:ty, $src:expr) => {{
                let mut it = $src;
                for k in 0..(n as usize + 2) {
                    let rem = BoundedReadWords::<u8, $sem>::remaining(&it);
                    let exh = BoundedReadWords::<u8, $sem>::is_exhausted(&it);
                    let may = ReadWords::<u8, $sem>::maybe_exhausted(&it);
                    let left = (n as usize).saturating_sub(k);
                    total += 1;
                    if rem != left {
                        bad.push((format!("{} | remaining() differs from the reads that succeed", $name), format!("source of {n} words after {k} reads: {rem}")));
                    }
                    if exh != (left == 0) {
                        bad.push((format!("{} | is_exhausted() disagrees with the reads that succeed", $name), format!("source of {n} words after {k} reads: is_exhausted {exh}, {left} reads still succeed")));
                    }
                    if !may && left == 0 {
                        bad.push((format!("{} | maybe_exhausted() returned false but the next read found no data", $name), format!("source of {n} words after {k} reads")));
                    }
                    let got = ReadWords::<u8, $sem>::read(&mut it);
                    if got.ok().flatten().is_some() != (left > 0) {
                        bad.push((format!("{} | read disagrees with the source", $name), format!("source of {n} words, read #{k}")));
                    }
                }
            }};
        }
        let src = || FallibleIteratorReadWords::new((0..n).map(|i| Ok::<u8, ()>(40 + i)));
        bounded!("FallibleIteratorReadWords (exact size), queue semantics", Queue, src());
        bounded!("FallibleIteratorReadWords (exact size), stack semantics", Stack, src());
        bounded!("Reverse<FallibleIteratorReadWords> (exact size), stack semantics", Stack, Reverse(src()));
        bounded!("Reverse<FallibleIteratorReadWords> (exact size), queue semantics", Queue, Reverse(src()));
        bounded!("Reverse<Reverse<FallibleIteratorReadWords>> (exact size), queue semantics", Queue, Reverse(Reverse(src())));
        bounded!("Reverse<Reverse<FallibleIteratorReadWords>> (exact size), stack semantics", Stack, Reverse(Reverse(src())));
        bounded!("Vec, stack semantics", Stack, (0..n).collect::<Vec<u8>>());
        bounded!("Reverse<Vec>, queue semantics", Queue, Reverse((0..n).collect::<Vec<u8>>()));
        bounded!("SmallVec, stack semantics", Stack, (0..n).collect::<smallvec::SmallVec<[u8; 2]>>());
        bounded!("Reverse<SmallVec>, queue semantics", Queue, Reverse((0..n).collect::<smallvec::SmallVec<[u8; 2]>>()));
    }
    // callback adapters
    let mut sink = vec![];
    {
        let mut w = InfallibleCallbackWriteWords::new(|x: u8| sink.push(x));
        for x in [4u8, 5, 6] { w.write(x).unwrap(); total += 1; }
    }
    if sink != [4, 5, 6] {
        bad.push(("InfallibleCallbackWriteWords | words not forwarded in order".into(), format!("{:?}", sink)));
    }
    let mut sink = vec![];
    {
        let mut w = FallibleCallbackWriteWords::new(|x: u8| if sink.len() < 2 { sink.push(x); Ok(()) } else { Err("full") });
        let r: Vec<Result<(), &str>> = [4u8, 5, 6, 7].iter().map(|&x| w.write(x)).collect();
        total += 4;
        if r != [Ok(()), Ok(()), Err("full"), Err("full")] {
            bad.push(("FallibleCallbackWriteWords | callback result not propagated".into(), format!("{:?}", r)));
        }
    }
    if sink != [4, 5] {
        bad.push(("FallibleCallbackWriteWords | words not forwarded in order".into(), format!("{:?}", sink)));
    }
    report.add_transitions(total);
    report.count("vec_smallvec_adapter_operations", total);
    for (i, d) in bad {
        report.violation(Violation { identity: i, detail: d, case: json!({"kind": "none"}) });
    }
    report.section(json!({"part": "Vec / SmallVec as stacks (all op sequences over 8 ops), iterator + callback adapters", "max_len": depth, "operations": total}));
}

fn bfs(report: &Report, max_len: usize) {
    let t = std::time::Instant::now();
    let mut seen: HashSet<Ref> = HashSet::new();
    let mut q: VecDeque<(Ref, usize)> = VecDeque::new();
    for len in 0..=max_len {
        for pos in 0..=len {
            let buf: Vec<u8> = (0..len as u8).map(|i| 10 + i).collect();
            q.push_back((Ref { buf, pos }, 0));
        }
    }
    let (mut states, mut trans, mut maxd) = (0u64, 0u64, 0usize);
    let mut o = Out { bad: vec![] };
    let mut counters = [0u64; 6];
    let mut rejected_seeks = 0u64;
    while let Some((r, depth)) = q.pop_front() {
        if !seen.insert(r.clone()) {
            continue;
        }
        states += 1;
        maxd = maxd.max(depth);
        observe(&r, &mut o, &mut counters);
        let mut ops = vec![Op::ReadS, Op::ReadQ, Op::Write(1), Op::Write(2), Op::Extend(0), Op::Extend(1), Op::Extend(2), Op::Extend(3)];
        for p in 0..=r.buf.len() + 2 {
            ops.push(Op::Seek(p));
        }
        for op in ops {
            if let Op::Seek(p) = op {
                if p > r.buf.len() { rejected_seeks += 1; }
            }
            for step in [step_cursor_vec as fn(&Ref, Op, &mut Out) -> Option<Ref>, step_cursor_mut, step_cursor_ref, step_reverse] {
                let before = o.bad.len();
                let nxt = step(&r, op, &mut o);
                trans += 1;
                if o.bad.len() == before {
                    if let Some(n) = nxt {
                        if !seen.contains(&n) {
                            q.push_back((n, depth + 1));
                        }
                    }
                }
            }
        }
        if o.bad.len() > 5000 {
            report.cap_hit("backend BFS stopped after 5000 violations");
            break;
        }
    }
    report.add_states(states);
    report.add_transitions(trans);
    report.add_traces(states);
    report.count("states_observed", counters[0]);
    report.count("reverse_views_observed", counters[1]);
    report.count("into_reversed_bisimulation_steps", counters[2]);
    report.count("view_and_clone_comparisons", counters[3]);
    report.count("out_of_range_seeks", rejected_seeks);
    let fixed = q.is_empty();
    if !fixed {
        report.cap_hit("frontier not empty");
    }
    for (i, d) in o.bad {
        report.violation(Violation { identity: i, detail: d, case: json!({"kind": "none"}) });
    }
    report.sample(json!({"state": {"buf": [10, 1, 12], "pos": 1}, "ops_tried": ["read(Stack)", "read(Queue)", "write(1)", "write(2)", "seek(0..=len+2)"],
        "backends": ["Cursor<Vec>", "Cursor<&mut [Word]>", "Cursor<&[Word]>", "Reverse<Cursor<Vec>>"]}));
    report.section(json!({"part": "cursor BFS", "max_buffer_len": max_len, "distinct_states": states, "transitions": trans, "max_depth": maxd,
        "fixed_point_reached": fixed, "wall_s": t.elapsed().as_secs_f64()}));
}

pub fn run(report: &Report) {
    let q = report.tier == Tier::Quick;
    report.bound("all reachable (buffer, position) states with buffer length <= the listed bound under {read(Stack), read(Queue), write(1), write(2), seek(0..=len+2)} on 4 cursor kinds, until the frontier is empty; Vec/SmallVec: all op sequences up to the listed depth");
    report.assume("word values are labels (the backends never inspect them); two written labels suffice to distinguish overwritten cells");
    for n in ["out_of_range_seeks", "into_reversed_bisimulation_steps", "reverse_views_observed"] {
        report.require(n);
    }
    bfs(report, if q { 5 } else { 7 });
    vec_like(report, if q { 5 } else { 7 });
}

pub fn replay(_case: &serde_json::Value) -> Result<String, String> {
    Err("C17 violations carry the failing (state, op) in 'detail'; re-run ./check C17 to reproduce (deterministic BFS)".into())
}
