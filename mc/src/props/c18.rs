//! C18 — size, emptiness and exhaustion queries report exactly what is there; model diagnostics
//! equal their textbook definitions.
//!
//! (a) at every node of the range and ANS walks: num_words/num_bits == length of the export at
//!     that moment, is_empty <=> export empty, decoder at the exact end => maybe_exhausted,
//!     decoder with whole unread words => !maybe_exhausted. (num_valid_bits after from_binary is
//!     checked on every case of C04; bit coder len/is_empty on every transition of C16.)
//! (b) entropy / cross entropy / KL (both directions) / floating-point views for every model of
//!     an exhaustive small space x reference distributions, vs textbook formulas in f64.

use super::common::*;
use crate::models::{all_partitions, to_u128, Cfg, Letter};
use crate::report::{Report, Tier, Violation};
use crate::walk::{ans_walk, merge_accs, range_is_inverted, range_walk, Acc, AnsNode, RangeNode};
use constriction::stream::model::*;
use constriction::stream::queue::RangeDecoder;
use constriction::stream::stack::AnsCoder;
use constriction::stream::{Code, Decode};
use rayon::prelude::*;
use serde_json::json;

pub const NAMES: [&str; 10] = [
    "range_nodes",
    "range_nodes_inverted",
    "range_decoder_states_with_whole_words_left",
    "range_decoder_states_at_exact_end",
    "ans_nodes",
    "ans_nodes_empty",
    "ans_decoder_states_with_whole_words_left",
    "ans_decoder_states_at_exact_end",
    "ans_nodes_from_raw_binary",
    "",
];

fn range_visit<C: Cfg>(n: &RangeNode<C>, acc: &mut Acc) {
    acc.c[0] += 1;
    if range_is_inverted::<C>(n.enc).is_some() {
        acc.c[1] += 1;
    }
    let sealed = n.enc.clone().into_compressed().unwrap();
    let mut fail = |what: &str, detail: String| {
        acc.violation(format!("RangeEncoder/RangeDecoder size queries | {what}"), format!("{}: history {:?}: {detail}", C::NAME, n.hist),
            json!({"kind": "range_history", "cfg": C::NAME, "letters": letters_json(n.hist)}));
    };
    if n.enc.num_words() != sealed.len() {
        fail("num_words differs from the length of into_compressed()", format!("{} vs {}", n.enc.num_words(), sealed.len()));
    }
    if n.enc.num_bits() != sealed.len() * C::WBITS as usize {
        fail("num_bits differs from Word::BITS * length of into_compressed()", format!("{}", n.enc.num_bits()));
    }
    if n.enc.is_empty() != sealed.is_empty() {
        fail("is_empty differs from into_compressed().is_empty()", format!("{}", n.enc.is_empty()));
    }
    // decoder exhaustion along the way
    let mut dec = RangeDecoder::<C::W, C::S, _>::from_compressed(&sealed[..]).unwrap();
    let (mut whole, mut end) = (0, 0);
    for (i, &l) in n.hist.iter().enumerate() {
        let (bulk, _, _) = dec.clone().into_raw_parts();
        let unread = sealed.len() - constriction::Pos::pos(&bulk);
        if unread >= 1 {
            whole += 1;
            if dec.maybe_exhausted() {
                fail("decoder reports maybe_exhausted although whole words are unread", format!("before symbol {i}: {unread} words unread"));
            }
        }
        if !matches!(C::range_decode(&mut dec, l), Ok(1)) {
            return; // round-trip failures are C02's verdict
        }
    }
    end += 1;
    if !dec.maybe_exhausted() {
        fail("decoder does not report maybe_exhausted after consuming precisely the encoded symbols", String::new());
    }
    // the same stream read through a REVERSED backend (the words stored back to front): the decoder's answers are those of
    // the forward one at every symbol boundary (an adapter that falls back to "maybe" would make a fresh decoder over
    // plenty of data claim it may be exhausted)
    {
        let mut rev = sealed.clone();
        rev.reverse();
        let mut fwd = RangeDecoder::<C::W, C::S, _>::from_compressed(&sealed[..]).unwrap();
        if let Ok(mut back) = RangeDecoder::<C::W, C::S, _>::with_backend(constriction::backends::Reverse(constriction::backends::Cursor::new_at_write_end(rev))) {
            for (i, &l) in n.hist.iter().enumerate() {
                if fwd.maybe_exhausted() != back.maybe_exhausted() {
                    fail("decoder over a reversed backend answers maybe_exhausted differently from the decoder over the same words in order", format!("before symbol {i}: {} vs {}", back.maybe_exhausted(), fwd.maybe_exhausted()));
                    break;
                }
                if !matches!(C::range_decode(&mut fwd, l), Ok(1)) || !matches!(C::range_decode(&mut back, l), Ok(1)) { break; }
            }
        }
    }
    // an encoder started on a sink that already holds words is not empty and reports those words, before its first symbol too
    if n.hist.len() == 1 {
        let e = constriction::stream::queue::RangeEncoder::<C::W, C::S, Vec<C::W>>::with_backend(sealed.clone());
        if e.is_empty() != sealed.is_empty() || e.num_words() != sealed.len() || e.num_bits() != sealed.len() * C::WBITS as usize {
            fail("encoder started on a sink that already holds words: is_empty / num_words / num_bits do not report them", format!("{} words on the sink: is_empty {}, num_words {}, num_bits {}", sealed.len(), e.is_empty(), e.num_words(), e.num_bits()));
        }
    }
    acc.c[2] += whole;
    acc.c[3] += end;
    if acc.samples.is_empty() && n.hist.len() >= 3 {
        acc.samples.push(json!({"coder": "range", "cfg": C::NAME, "letters": letters_json(n.hist), "num_words": n.enc.num_words(), "sealed": words_json(&to_u128(&sealed))}));
    }
}

fn ans_visit<C: Cfg>(n: &AnsNode<C>, acc: &mut Acc) {
    acc.c[4] += 1;
    let export = n.exports.last().unwrap();
    let ctx = format!("{}: init {:x?} ops {:?}", C::NAME, n.exports[0], n.ops);
    let mut bad = vec![];
    if n.coder.num_words() != export.len() {
        bad.push(("num_words differs from the length of into_compressed()", format!("{} vs {}", n.coder.num_words(), export.len())));
    }
    if n.coder.num_bits() != export.len() * C::WBITS as usize {
        bad.push(("num_bits differs from Word::BITS * length of into_compressed()", format!("{}", n.coder.num_bits())));
    }
    if n.coder.is_empty() != export.is_empty() {
        bad.push(("is_empty differs from into_compressed().is_empty()", format!("{}", n.coder.is_empty())));
    }
    if export.is_empty() {
        acc.c[5] += 1;
    }
    let it: Vec<C::W> = n.coder.iter_compressed().collect();
    if to_u128(&it) != *export {
        bad.push(("iter_compressed differs from into_compressed()", String::new()));
    }
    // a coder loaded from raw binary data (export ends in the marker word 1): valid bits == data size
    if n.stack.is_empty() && n.exports[0].last() == Some(&1) {
        acc.c[8] += 1;
        let data_words = n.exports[0].len() - 1;
        if n.coder.num_valid_bits() != data_words * C::WBITS as usize {
            bad.push(("num_valid_bits differs from the size of the loaded binary data", format!("{} vs {} words", n.coder.num_valid_bits(), data_words)));
        }
    }
    // decoder over the export: pop everything that was pushed on top of the initial words
    if n.exports[0].is_empty() {
        let words: Vec<C::W> = export.iter().map(|&w| C::w(w)).collect();
        if let Ok(mut d) = AnsCoder::<C::W, C::S, _>::from_compressed_slice(&words[..]) {
            for (k, &l) in n.stack.iter().enumerate().rev() {
                // (symbols with left cumulative 0 pushed onto an empty coder leave it empty: only
                // whole unread WORDS oblige the decoder to report that it is not exhausted)
                let unread = constriction::Pos::pos(&d).0;
                if unread >= 1 {
                    acc.c[6] += 1;
                    if <AnsCoder<C::W, C::S, _> as Decode<1>>::maybe_exhausted(&d) {
                        bad.push(("decoder reports maybe_exhausted although whole words are unread", format!("{} symbols and {unread} words left", k + 1)));
                        break;
                    }
                }
                if !matches!(C::ans_decode(&mut d, l), Ok(1)) {
                    break;
                }
            }
            acc.c[7] += 1;
            if !<AnsCoder<C::W, C::S, _> as Decode<1>>::maybe_exhausted(&d) || !d.is_empty() {
                bad.push(("decoder does not report maybe_exhausted / is_empty after consuming precisely the encoded symbols", String::new()));
            }
        }
    }
    for (what, detail) in bad {
        acc.violation(format!("AnsCoder size queries | {what}"), format!("{ctx}: {detail}"),
            json!({"kind": "none", "cfg": C::NAME, "init": words_json(&n.exports[0]), "ops": super::c06::ops_json(n.ops)}));
    }
}

fn explore_range<C: Cfg>(report: &Report, alphabet: &[Letter], depth: usize, label: &str) {
    let t = std::time::Instant::now();
    let (accs, nodes, trans) = range_walk::<C, Acc, _>(alphabet, depth, range_visit::<C>);
    report.add_states(nodes);
    report.add_transitions(trans);
    report.add_traces(nodes);
    merge_accs(report, accs, &NAMES);
    report.section(json!({"coder": "range", "cfg": C::NAME, "alphabet": label, "depth": depth, "nodes": nodes, "wall_s": t.elapsed().as_secs_f64()}));
}
fn explore_ans<C: Cfg>(report: &Report, inits: &[Vec<u128>], alphabet: &[Letter], depth: usize, label: &str) {
    let t = std::time::Instant::now();
    let (accs, nodes, trans) = ans_walk::<C, Acc, _>(inits, alphabet, depth, true, ans_visit::<C>);
    report.add_states(nodes);
    report.add_transitions(trans);
    report.add_traces(nodes);
    merge_accs(report, accs, &NAMES);
    report.section(json!({"coder": "ans", "cfg": C::NAME, "alphabet": label, "initial_word_strings": inits.len(), "depth": depth, "nodes": nodes, "wall_s": t.elapsed().as_secs_f64()}));
}

// ------------------------------------------------------------------------------------------
// (b) diagnostics

fn close(a: f64, b: f64, tol: f64) -> bool {
    if a.is_nan() || b.is_nan() {
        return a.is_nan() && b.is_nan();
    }
    if a.is_infinite() || b.is_infinite() {
        return a == b;
    }
    (a - b).abs() <= tol * (1.0 + b.abs())
}

struct Textbook {
    h: f64,
    ce: f64,
    rce: f64,
    kl: f64,
    rkl: f64,
}
fn textbook(q: &[f64], p: &[f64]) -> Textbook {
    let xlogy = |x: f64, y: f64| if x == 0.0 { 0.0 } else { x * y.log2() };
    Textbook {
        h: -q.iter().map(|&x| xlogy(x, x)).sum::<f64>(),
        ce: -p.iter().zip(q).map(|(&p, &q)| xlogy(p, q)).sum::<f64>(),
        rce: -q.iter().zip(p).map(|(&q, &p)| q * p.log2()).sum::<f64>(),
        // (log of the ratio written as a difference of logs: the ratio itself overflows for entries like 5e-324)
        kl: p.iter().zip(q).map(|(&p, &q)| if p == 0.0 { 0.0 } else { p * (p.log2() - q.log2()) }).sum::<f64>(),
        rkl: q.iter().zip(p).map(|(&q, &p)| q * (q.log2() - p.log2())).sum::<f64>(),
    }
}

fn ref_dists(q: &[f64]) -> Vec<(&'static str, Vec<f64>)> {
    let k = q.len();
    let mut v = vec![("uniform", vec![1.0 / k as f64; k]), ("the model itself", q.to_vec())];
    let mut onehot = vec![0.0; k];
    onehot[0] = 1.0;
    v.push(("one-hot (zeros)", onehot));
    let mut skew: Vec<f64> = (0..k).map(|i| (i + 1) as f64).collect();
    let s: f64 = skew.iter().sum();
    skew.iter_mut().for_each(|x| *x /= s);
    v.push(("skewed", skew));
    let mut z = vec![0.0; k];
    z[k - 1] = 0.25;
    z[0] = 0.75;
    v.push(("two-point with interior zeros", z));
    // entries many orders of magnitude below the fixed-point resolution (but not zero): the definitions are still
    // finite there (p log p -> 0), a formula that divides by p or multiplies unnormalised weights need not be
    for tiny in [1e-305f64, 5e-324, 1e-40] {
        let mut t = vec![0.0; k];
        t[0] = tiny;
        t[k - 1] = 1.0 - tiny;
        if k >= 3 { t[1] = tiny; }
        v.push(("tiny non-zero entries", t));
    }
    v
}

macro_rules! diag_check {
    ($report:expr, $n:expr, $m:expr, $probs:expr, $P:literal, $symbols:expr, $what:expr) => { diag_check!($report, $n, $m, $probs, $P, $symbols, $what, true) };
    (@f32 true, $e:expr) => { $e };
    (@f32 false, $e:expr) => { () };
    ($report:expr, $n:expr, $m:expr, $probs:expr, $P:literal, $symbols:expr, $what:expr, $f32:tt) => {{
        let total = (1u64 << $P) as f64;
        let q: Vec<f64> = $probs.iter().map(|&p| p as f64 / total).collect();
        let mut fail = |name: &str, detail: String| {
            $report.violation(Violation { identity: format!("model diagnostics | {name} differs from its textbook definition"), detail: format!("{}: probabilities {:?}/2^{}: {detail}", $what, $probs, $P), case: json!({"kind": "none"}) });
        };
        let tb = textbook(&q, &q);
        let h64 = $m.entropy_base2::<f64>();
        $n += 2;
        if !close(h64, tb.h, 1e-9) { fail("entropy_base2::<f64>", format!("{h64} vs {}", tb.h)); }
        diag_check!(@f32 $f32, { let h32 = $m.entropy_base2::<f32>() as f64; if !close(h32, tb.h, 1e-4) { fail("entropy_base2::<f32>", format!("{h32} vs {}", tb.h)); } });
        for (pname, p) in ref_dists(&q) {
            let tb = textbook(&q, &p);
            let got = ($m.cross_entropy_base2::<f64>(p.iter().copied()), $m.reverse_cross_entropy_base2::<f64>(p.iter().copied()),
                $m.kl_divergence_base2::<f64>(p.iter().copied()), $m.reverse_kl_divergence_base2::<f64>(p.iter().copied()));
            $n += 4;
            if !close(got.0, tb.ce, 1e-9) { fail("cross_entropy_base2", format!("p = {pname} {:?}: {} vs {}", p, got.0, tb.ce)); }
            if !close(got.1, tb.rce, 1e-9) { fail("reverse_cross_entropy_base2", format!("p = {pname} {:?}: {} vs {}", p, got.1, tb.rce)); }
            if !close(got.2, tb.kl, 1e-9) { fail("kl_divergence_base2", format!("p = {pname} {:?}: {} vs {}", p, got.2, tb.kl)); }
            if !close(got.3, tb.rkl, 1e-9) { fail("reverse_kl_divergence_base2", format!("p = {pname} {:?}: {} vs {}", p, got.3, tb.rkl)); }
            diag_check!(@f32 $f32, {
                let p32: Vec<f32> = p.iter().map(|&x| x as f32).collect();
                let g32 = ($m.cross_entropy_base2::<f32>(p32.iter().copied()) as f64, $m.kl_divergence_base2::<f32>(p32.iter().copied()) as f64);
                $n += 2;
                if !close(g32.0, tb.ce, 1e-4) { fail("cross_entropy_base2::<f32>", format!("p = {pname}: {} vs {}", g32.0, tb.ce)); }
                if !close(g32.1, tb.kl, 1e-3) && !(tb.kl.abs() < 1e-5 && g32.1.abs() < 1e-4) { fail("kl_divergence_base2::<f32>", format!("p = {pname}: {} vs {}", g32.1, tb.kl)); }
            });
        }
        let fst: Vec<(_, f64, f64)> = $m.floating_point_symbol_table::<f64>().collect();
        let mut acc = 0.0f64;
        $n += 1;
        if fst.len() != q.len() { fail("floating_point_symbol_table", format!("{} rows", fst.len())); }
        for (i, (s, c, p)) in fst.iter().enumerate() {
            if *s != $symbols[i] || *c != acc || *p != q[i] { fail("floating_point_symbol_table", format!("row {i}: ({:?}, {c}, {p}) expected ({:?}, {acc}, {})", s, $symbols[i], q[i])); break; }
            acc += q[i];
        }
    }};
}

fn diagnostics(report: &Report, tier: Tier) {
    let mut n = 0u64;
    // all P=3 models (127) and, thorough, all P=4 models (32767)
    for (prec, parts) in [(3u32, all_partitions(3)), (4, if tier == Tier::Thorough { all_partitions(4) } else { all_partitions(4).into_iter().step_by(97).collect() })] {
        for b in &parts {
            let probs: Vec<u8> = b.windows(2).map(|w| (w[1] - w[0]) as u8).collect();
            let symbols: Vec<usize> = (0..probs.len()).collect();
            if prec == 3 {
                let m = ContiguousCategoricalEntropyModel::<u8, Vec<u8>, 3>::from_nonzero_fixed_point_probabilities(probs.iter().copied(), false).unwrap();
                diag_check!(report, n, m, probs, 3, symbols, "ContiguousCategoricalEntropyModel<u8,3>");
                for i in 0..probs.len() {
                    n += 1;
                    if m.floating_point_probability::<f64>(i) != probs[i] as f64 / 8.0 {
                        report.violation(Violation { identity: "model diagnostics | floating_point_probability differs from its textbook definition".into(), detail: format!("{:?} symbol {i}", probs), case: json!({"kind": "none"}) });
                    }
                }
                if m.floating_point_probability::<f64>(probs.len()) != 0.0 {
                    report.violation(Violation { identity: "model diagnostics | floating_point_probability of a symbol outside the support is not zero".into(), detail: format!("{:?}", probs), case: json!({"kind": "none"}) });
                }
                let labels: Vec<u32> = (0..probs.len() as u32).map(|i| 100 - i * 7).collect();
                let d = NonContiguousCategoricalDecoderModel::<u32, u8, _, 3>::from_symbols_and_nonzero_fixed_point_probabilities(labels.iter().copied(), probs.iter().copied(), false).unwrap();
                diag_check!(report, n, d, probs, 3, labels, "NonContiguousCategoricalDecoderModel<u32,u8,3>");
                let e = NonContiguousCategoricalEncoderModel::<u32, u8, 3>::from_symbols_and_nonzero_fixed_point_probabilities(labels.iter().copied(), probs.iter().copied(), false).unwrap();
                let q: Vec<f64> = probs.iter().map(|&p| p as f64 / 8.0).collect();
                n += 1;
                if !close(e.entropy_base2::<f64>(), textbook(&q, &q).h, 1e-9) {
                    report.violation(Violation { identity: "model diagnostics | NonContiguousCategoricalEncoderModel::entropy_base2 differs from its textbook definition".into(), detail: format!("{:?}", probs), case: json!({"kind": "none"}) });
                }
            } else {
                let m = ContiguousCategoricalEntropyModel::<u8, Vec<u8>, 4>::from_nonzero_fixed_point_probabilities(probs.iter().copied(), false).unwrap();
                diag_check!(report, n, m, probs, 4, symbols, "ContiguousCategoricalEntropyModel<u8,4>");
            }
        }
    }
    // full-precision and wide models
    for probs in [vec![1u8, 255], vec![128, 128], vec![255, 1], vec![85, 85, 86], vec![1, 1, 1, 253]] {
        let m = ContiguousCategoricalEntropyModel::<u8, Vec<u8>, 8>::from_nonzero_fixed_point_probabilities(probs.iter().copied(), false).unwrap();
        let symbols: Vec<usize> = (0..probs.len()).collect();
        diag_check!(report, n, m, probs, 8, symbols, "ContiguousCategoricalEntropyModel<u8,8> (PRECISION == Probability::BITS)");
    }
    // non-contiguous models at PRECISION == Probability::BITS (2^PRECISION does not fit the probability type)
    for probs in [vec![1u8, 255], vec![128, 128], vec![85, 85, 86], vec![1, 1, 1, 253]] {
        let labels: Vec<u32> = (0..probs.len() as u32).map(|i| 100 - i * 7).collect();
        let d = NonContiguousCategoricalDecoderModel::<u32, u8, _, 8>::from_symbols_and_nonzero_fixed_point_probabilities(labels.iter().copied(), probs.iter().copied(), false).unwrap();
        diag_check!(report, n, d, probs, 8, labels, "NonContiguousCategoricalDecoderModel<u32,u8,8> (PRECISION == Probability::BITS)");
        let e = NonContiguousCategoricalEncoderModel::<u32, u8, 8>::from_symbols_and_nonzero_fixed_point_probabilities(labels.iter().copied(), probs.iter().copied(), false).unwrap();
        let q: Vec<f64> = probs.iter().map(|&p| p as f64 / 256.0).collect();
        n += 1;
        if !close(e.entropy_base2::<f64>(), textbook(&q, &q).h, 1e-9) {
            report.violation(Violation { identity: "model diagnostics | NonContiguousCategoricalEncoderModel::entropy_base2 differs from its textbook definition".into(), detail: format!("{:?} at PRECISION == Probability::BITS", probs), case: json!({"kind": "none"}) });
        }
    }
    for probs in [vec![1u16, 65535], vec![32768, 32768], vec![21845, 21845, 21846]] {
        let labels: Vec<u32> = (0..probs.len() as u32).map(|i| 100 - i * 7).collect();
        let d = NonContiguousCategoricalDecoderModel::<u32, u16, _, 16>::from_symbols_and_nonzero_fixed_point_probabilities(labels.iter().copied(), probs.iter().copied(), false).unwrap();
        diag_check!(report, n, d, probs, 16, labels, "NonContiguousCategoricalDecoderModel<u32,u16,16> (PRECISION == Probability::BITS)");
        let m = ContiguousCategoricalEntropyModel::<u16, Vec<u16>, 16>::from_nonzero_fixed_point_probabilities(probs.iter().copied(), false).unwrap();
        let symbols: Vec<usize> = (0..probs.len()).collect();
        diag_check!(report, n, m, probs, 16, symbols, "ContiguousCategoricalEntropyModel<u16,16> (PRECISION == Probability::BITS)");
    }
    for probs in [vec![1u32, (1 << 24) - 1], vec![1 << 23, 1 << 23], vec![5_000_000, 5_000_000, 6_777_216]] {
        let m = ContiguousCategoricalEntropyModel::<u32, Vec<u32>, 24>::from_nonzero_fixed_point_probabilities(probs.iter().copied(), false).unwrap();
        let symbols: Vec<usize> = (0..probs.len()).collect();
        diag_check!(report, n, m, probs, 24, symbols, "ContiguousCategoricalEntropyModel<u32,24>", false);
    }
    // uniform and quantised models: probabilities taken from direct queries
    for range in [2usize, 3, 5, 16, 100] {
        let m = UniformModel::<u16, 12>::new(range);
        let probs: Vec<u64> = (0..range).map(|s| { use constriction::NonZeroBitArray; m.left_cumulative_and_probability(s).unwrap().1.get() as u64 }).collect();
        let symbols: Vec<usize> = (0..range).collect();
        diag_check!(report, n, m, probs, 12, symbols, "UniformModel<u16,12>");
    }
    for (mu, sigma, lo, hi) in [(0.3, 2.0, -5i32, 5), (10.0, 0.1, -3, 3), (0.0, 100.0, -20, 20), (-7.7, 1.0, -10, -5)] {
        let quantizer = LeakyQuantizer::<f64, i32, u16, 12>::new(lo..=hi);
        let m = quantizer.quantize(probability::distribution::Gaussian::new(mu, sigma));
        let probs: Vec<u64> = (lo..=hi).map(|s| { use constriction::NonZeroBitArray; m.left_cumulative_and_probability(s).unwrap().1.get() as u64 }).collect();
        let symbols: Vec<i32> = (lo..=hi).collect();
        diag_check!(report, n, m, probs, 12, symbols, "quantised Gaussian <i32,u16,12>");
    }
    // narrow SIGNED symbol types with supports wider than half the type (offsets from the lowest symbol do not fit the
    // symbol type itself): the diagnostics iterate the symbol table, the reference probabilities come from direct queries
    for (mu, sigma, lo, hi) in [(0.3, 20.0, -100i8, 100i8), (-90.0, 3.0, -128, 127), (100.0, 50.0, -128, 127), (0.0, 1.0, -1, 127)] {
        let quantizer = LeakyQuantizer::<f64, i8, u16, 12>::new(lo..=hi);
        let m = quantizer.quantize(probability::distribution::Gaussian::new(mu, sigma));
        let probs: Vec<u64> = (lo..=hi).map(|s| { use constriction::NonZeroBitArray; m.left_cumulative_and_probability(s).unwrap().1.get() as u64 }).collect();
        let symbols: Vec<i8> = (lo..=hi).collect();
        diag_check!(report, n, m, probs, 12, symbols, "quantised Gaussian <i8,u16,12>");
    }
    report.count("diagnostic_values_compared", n);
    report.add_traces(n);
    report.add_transitions(n);
    report.section(json!({"part": "diagnostics vs textbook", "models": "all 127 models at P=3 (contiguous + non-contiguous enc/dec), P=4 models, full-precision, u32/24, uniform, quantised Gaussians",
        "reference_distributions": ["uniform", "the model itself", "one-hot", "skewed", "two-point with zeros", "tiny non-zero entries (1e-305, 5e-324, 1e-40)"], "values_compared": n}));
}

/// raw-binary loads: for every word string, `from_binary(data)` reports exactly W * len valid bits, is not
/// empty, and its size queries agree with what exporting it returns (data followed by the marker word)
fn binary_loads<C: Cfg>(report: &Report, letters: &[u128], max_len: usize, label: &str) {
    let mut datas: Vec<Vec<u128>> = vec![vec![]];
    let mut frontier: Vec<Vec<u128>> = vec![vec![]];
    for _ in 0..max_len {
        frontier = frontier.iter().flat_map(|s| letters.iter().map(move |&w| { let mut t = s.clone(); t.push(w); t })).collect();
        datas.extend(frontier.iter().cloned());
    }
    let bad: Vec<(String, String)> = datas.par_iter().flat_map_iter(|d| {
        let mut bad = vec![];
        let words: Vec<C::W> = d.iter().map(|&w| C::w(w)).collect();
        let c = AnsCoder::<C::W, C::S>::from_binary(words).unwrap();
        let export = to_u128(&c.clone().into_compressed().unwrap());
        let mut fail = |what: &str, detail: String| bad.push((format!("AnsCoder::from_binary size queries | {what}"), format!("{}: data {:x?}: {detail}", C::NAME, d)));
        if c.num_valid_bits() != d.len() * C::WBITS as usize { fail("num_valid_bits differs from the size of the loaded binary data", format!("{} bits for {} words", c.num_valid_bits(), d.len())); }
        if c.is_empty() { fail("coder loaded from raw binary data reports empty", String::new()); }
        if c.num_words() != export.len() || c.num_bits() != export.len() * C::WBITS as usize { fail("num_words / num_bits differ from the length of into_compressed()", format!("{} words, {} bits, export {:x?}", c.num_words(), c.num_bits(), export)); }
        let mut expect = d.clone(); expect.push(1);
        if export != expect { fail("export of a coder loaded from raw binary data is not the data followed by the marker word", format!("{:x?}", export)); }
        bad
    }).collect();
    report.count("raw_binary_loads", datas.len() as u64);
    report.count("raw_binary_loads_ending_in_zero_words", datas.iter().filter(|d| d.last() == Some(&0)).count() as u64);
    report.add_states(datas.len() as u64);
    report.add_transitions(4 * datas.len() as u64);
    report.section(json!({"part": "raw-binary loads", "cfg": C::NAME, "data": label, "data_strings": datas.len()}));
    for (i, d) in bad { report.violation(Violation { identity: i, detail: d, case: json!({"kind": "none"}) }); }
}

pub fn run(report: &Report) {
    use crate::models::*;
    let q = report.tier == Tier::Quick;
    report.bound("(a) every node of the range-coder sequence walk and of the ANS history walk (from empty / imported / raw-binary words) up to the listed depths; (b) every model of the listed exhaustive small spaces x 5 reference distributions");
    report.assume("num_valid_bits after from_binary is also asserted on every case of C04; the bit-level coders are judged here through the C16 explorers (bit-stack BFS: len / is_empty at every state; bit queue: maybe_exhausted after every bit of every bit string), filtered to the size / exhaustion identities");
    for n in ["range_nodes_inverted", "range_decoder_states_with_whole_words_left", "ans_nodes_empty", "ans_decoder_states_with_whole_words_left", "ans_nodes_from_raw_binary", "diagnostic_values_compared", "raw_binary_loads_ending_in_zero_words"] {
        report.require(n);
    }
    diagnostics(report, report.tier);
    super::c16::size_query_checks(report);
    explore_range::<U8U16>(report, &range_alphabet12::<U8U16>(), if q { 6 } else { 7 }, "a12@P8");
    explore_range::<U8U32>(report, &range_alphabet12::<U8U32>(), if q { 6 } else { 7 }, "a12@P8");
    explore_range::<U8U32>(report, &range_alphabet5::<U8U32>(), if q { 9 } else { 10 }, "a5@P8");
    explore_range::<U8U16>(report, &small_alphabet::<U8U16>(), if q { 5 } else { 6 }, "mixed-precision-14");
    explore_range::<U8U64>(report, &range_alphabet12::<U8U64>(), if q { 5 } else { 6 }, "a12@P8");
    explore_range::<U16U32>(report, &range_alphabet12::<U16U32>(), if q { 5 } else { 6 }, "a12@P16");
    explore_range::<U16U64>(report, &small_alphabet::<U16U64>(), if q { 4 } else { 5 }, "mixed-precision-14");
    explore_range::<U32U64>(report, &small_alphabet::<U32U64>(), if q { 5 } else { 6 }, "mixed-precision-14");
    explore_range::<U64U128>(report, &small_alphabet::<U64U128>(), if q { 4 } else { 5 }, "mixed-precision-14");
    {
        let all8: Vec<u128> = (0..=255u128).collect();
        let few8: Vec<u128> = vec![0x00, 0x01, 0x80, 0xff];
        let few16: Vec<u128> = vec![0, 1, 0x8000, 0xffff];
        let few32: Vec<u128> = vec![0, 1, 0x8000_0000, 0xffff_ffff];
        let few64: Vec<u128> = vec![0, 1, 1 << 63, u64::MAX as u128];
        binary_loads::<U8U16>(report, &all8, 2, "all u8 strings, len 0..=2");
        binary_loads::<U8U32>(report, &all8, 2, "all u8 strings, len 0..=2");
        binary_loads::<U8U16>(report, &few8, if q { 7 } else { 9 }, "strings over {00,01,80,ff}");
        binary_loads::<U8U32>(report, &few8, if q { 7 } else { 9 }, "strings over {00,01,80,ff}");
        binary_loads::<U8U64>(report, &few8, if q { 8 } else { 10 }, "strings over {00,01,80,ff} (9 and more words matter: S/W = 8)");
        binary_loads::<U16U32>(report, &few16, 6, "strings over 4 boundary words, len 0..=6");
        binary_loads::<U16U64>(report, &few16, 7, "strings over 4 boundary words, len 0..=7");
        binary_loads::<U32U64>(report, &few32, 6, "strings over 4 boundary words, len 0..=6");
        binary_loads::<U64U128>(report, &few64, 6, "strings over 4 boundary words, len 0..=6");
    }
    let empty: Vec<Vec<u128>> = vec![vec![]];
    explore_ans::<U8U16>(report, &empty, &small_alphabet::<U8U16>(), if q { 6 } else { 7 }, "mixed-precision-14");
    explore_ans::<U8U32>(report, &empty, &small_alphabet::<U8U32>(), if q { 6 } else { 7 }, "mixed-precision-14");
    explore_ans::<U8U16>(report, &super::c08::inits_with_binary::<U8U16>(), &small_alphabet::<U8U16>(), if q { 4 } else { 5 }, "mixed-precision-14");
    explore_ans::<U8U32>(report, &super::c08::inits_with_binary::<U8U32>(), &small_alphabet::<U8U32>(), if q { 4 } else { 5 }, "mixed-precision-14");
    explore_ans::<U8U64>(report, &super::c08::inits_with_binary::<U8U64>(), &small_alphabet::<U8U64>(), if q { 3 } else { 4 }, "mixed-precision-14");
    explore_ans::<U16U32>(report, &super::c08::inits_with_binary::<U16U32>(), &small_alphabet::<U16U32>(), if q { 3 } else { 5 }, "mixed-precision-14");
    explore_ans::<U16U64>(report, &super::c08::inits_with_binary::<U16U64>(), &small_alphabet::<U16U64>(), if q { 3 } else { 4 }, "mixed-precision-14");
    explore_ans::<U32U64>(report, &super::c08::inits_with_binary::<U32U64>(), &small_alphabet::<U32U64>(), if q { 3 } else { 5 }, "mixed-precision-14");
    explore_ans::<U64U128>(report, &super::c08::inits_with_binary::<U64U128>(), &small_alphabet::<U64U128>(), if q { 3 } else { 4 }, "mixed-precision-14");
    super::pyfront::sweep(report, "sizes", if q { 5 } else { 7 },
        "every message up to the listed length over 3 symbols x 2 models on the Python AnsCoder and RangeEncoder: num_words / num_bits / is_empty vs get_compressed, num_valid_bits, maybe_exhausted after decoding exactly the message, clear",
        &[], &["inspections", "second call", "get_decoder"]);
}

pub fn replay(case: &serde_json::Value) -> Result<String, String> {
    if case["kind"] == "range_history" {
        // re-run the node visit on the replayed history
        fn go<C: Cfg>(letters: &[Letter]) -> Result<String, String> {
            let mut enc = constriction::stream::queue::RangeEncoder::<C::W, C::S>::new();
            let rf = crate::refs::RefRange::new(C::WBITS, C::SBITS);
            for &l in letters { C::range_encode(&mut enc, l).map_err(|e| format!("{e:?}"))?; }
            let mut acc = Acc::default();
            let snaps = vec![];
            let inv = vec![];
            range_visit::<C>(&RangeNode { enc: &enc, hist: letters, rf: &rf, snaps: &snaps, inverted: &inv, parent: None }, &mut acc);
            if acc.viol.is_empty() { Ok("size queries agree with the export".into()) } else { Err(acc.viol.values().map(|(_, v)| format!("[{}] {}", v.identity, v.detail)).collect::<Vec<_>>().join("\n")) }
        }
        let cfg = case["cfg"].as_str().ok_or("cfg")?;
        let letters = letters_from_json(&case["letters"])?;
        return crate::dispatch_cfg!(cfg, go, &letters);
    }
    Err("no stand-alone replay for this class; the failing case is in 'detail'".into())
}
