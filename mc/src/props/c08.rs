//! C08 — inspecting a coder never changes what it will output.
//!
//! Twin execution at every node of the walks: apply each inspection op (once and twice in a
//! row) to a clone; the view must equal what finishing the coder at that moment returns, the
//! complete observable state (raw parts) must be untouched afterwards, and encoding one more
//! symbol on the inspected clone and on the untouched twin must give identical final output.

use super::common::*;
use crate::dispatch_cfg;
use crate::models::{to_u128, Cfg, Letter};
use crate::report::{Report, Tier};
use crate::walk::{ans_walk, merge_accs, range_is_inverted, range_walk, Acc, AnsNode, RangeNode};
use constriction::stream::queue::RangeEncoder;
use constriction::stream::stack::AnsCoder;
use constriction::stream::Code;
use constriction::Pos;
use serde_json::json;

pub const NAMES: [&str; 10] = [
    "range_inspections",
    "range_inspections_while_inverted",
    "range_inspections_on_empty_encoder",
    "ans_inspections",
    "ans_inspections_on_empty_coder",
    "ans_get_binary_ok",
    "ans_get_binary_refused",
    "ans_inspections_with_interior_zero_state_word",
    "bit_coder_inspections",
    "bit_coder_inspections_at_word_boundary",
];

pub fn range_check<C: Cfg>(enc: &RangeEncoder<C::W, C::S>, hist: &[Letter], next: Letter, acc: Option<&mut Acc>) -> Vec<(String, String)> {
    let mut out = vec![];
    let sealed = enc.clone().into_compressed().unwrap();
    let raw = enc.clone().into_raw_parts();
    let mut twin = enc.clone();
    C::range_encode(&mut twin, next).unwrap();
    let twin_out = twin.into_compressed().unwrap();
    let mut nins = 0u64;
    let mut fail = |op: &str, what: &str, detail: String| {
        out.push((format!("RangeEncoder::{op} | {what}"), format!("{}: history {:?}: {detail}", C::NAME, hist)));
    };
    for op in 0..8 {
        for reps in 1..=2 {
            let mut e = enc.clone();
            for _ in 0..reps {
                nins += 1;
                match op {
                    0 => {
                        let g = e.get_compressed();
                        if &*g != &sealed[..] {
                            fail("get_compressed", "view differs from into_compressed() at that moment", format!("view {:x?} expected {:x?}", to_u128(&g), to_u128(&sealed)));
                        }
                    }
                    1 => {
                        let mut d = e.decoder();
                        for &l in hist.iter().take(2) {
                            if !matches!(C::range_decode(&mut d, l), Ok(1)) {
                                fail("decoder", "temporary decoder decodes wrongly", String::new());
                            }
                        }
                    }
                    2 => {
                        let c = e.clone();
                        if c.into_raw_parts() != raw {
                            fail("clone", "clone differs from the original", String::new());
                        }
                    }
                    3 => {
                        if e.num_words() != sealed.len() || e.num_bits() != sealed.len() * C::WBITS as usize {
                            fail("num_words", "size query differs from length of into_compressed()", format!("num_words {} num_bits {} sealed len {}", e.num_words(), e.num_bits(), sealed.len()));
                        }
                    }
                    4 => {
                        if e.is_empty() != sealed.is_empty() {
                            fail("is_empty", "emptiness query differs from into_compressed().is_empty()", String::new());
                        }
                    }
                    5 => {
                        let _ = e.pos();
                        let _ = e.state();
                        let _ = e.maybe_full();
                        let _ = e.bulk().len();
                    }
                    6 => {
                        // a full decode through the temporary decoder
                        let mut d = e.decoder();
                        for &l in hist {
                            if !matches!(C::range_decode(&mut d, l), Ok(1)) {
                                fail("decoder", "temporary decoder decodes wrongly", String::new());
                                break;
                            }
                        }
                    }
                    _ => {
                        // view held while reading from it, then dropped; then a second kind of inspection
                        {
                            let g = e.get_compressed();
                            let _ = g.len();
                        }
                        let _ = e.decoder();
                    }
                }
            }
            if e.clone().into_raw_parts() != raw {
                let (b, s, sit) = e.clone().into_raw_parts();
                fail(["get_compressed", "decoder", "clone", "num_words", "is_empty", "pos", "decoder", "get_compressed"][op],
                    "encoder state changed by the inspection",
                    format!("op #{op} x{reps}: (bulk {:x?}, lower {:x}, situation {:?}) was (bulk {:x?}, lower {:x}, situation {:?})",
                        to_u128(&b), s.lower().into(), sit, to_u128(&raw.0), raw.1.lower().into(), raw.2));
            }
            C::range_encode(&mut e, next).unwrap();
            let o = e.into_compressed().unwrap();
            if o != twin_out {
                fail(["get_compressed", "decoder", "clone", "num_words", "is_empty", "pos", "decoder", "get_compressed"][op],
                    "final output differs from the uninspected twin", format!("op #{op} x{reps}: {:x?} vs twin {:x?}", to_u128(&o), to_u128(&twin_out)));
            }
        }
    }
    if let Some(acc) = acc {
        acc.c[0] += nins;
        if range_is_inverted::<C>(enc).is_some() { acc.c[1] += nins; }
        if hist.is_empty() { acc.c[2] += nins; }
    }
    out
}

pub fn ans_check<C: Cfg>(coder: &AnsCoder<C::W, C::S>, ctx: &str, top: Option<Letter>, next: Letter, acc: Option<&mut Acc>) -> Vec<(String, String)> {
    let mut out = vec![];
    let export = coder.clone().into_compressed().unwrap();
    let binary = coder.clone().into_binary();
    let raw: (Vec<C::W>, C::S) = coder.clone().into_raw_parts();
    let mut twin = coder.clone();
    C::ans_encode(&mut twin, next).unwrap();
    let twin_out = twin.into_compressed().unwrap();
    let mut nins = 0u64;
    let (mut bin_ok, mut bin_err) = (0u64, 0u64);
    let names = ["get_compressed", "get_binary", "iter_compressed", "as_decoder", "as_seekable_decoder", "clone", "num_words", "is_empty"];
    let mut fail = |op: &str, what: &str, detail: String| {
        out.push((format!("AnsCoder::{op} | {what}"), format!("{}: {ctx}: {detail}", C::NAME)));
    };
    for op in 0..8 {
        for reps in 1..=2 {
            let mut c = coder.clone();
            for _ in 0..reps {
                nins += 1;
                match op {
                    0 => {
                        let g = c.get_compressed().unwrap();
                        if **g != export[..] {
                            fail("get_compressed", "view differs from into_compressed() at that moment", format!("view {:x?} expected {:x?}", to_u128(&g), to_u128(&export)));
                        }
                    }
                    1 => match (c.get_binary(), &binary) {
                        (Ok(g), Ok(b)) => {
                            bin_ok += 1;
                            if **g != b[..] {
                                fail("get_binary", "view differs from into_binary() at that moment", format!("view {:x?} expected {:x?}", to_u128(&g), to_u128(b)));
                            }
                        }
                        (Err(_), Err(_)) => bin_err += 1,
                        (Ok(g), Err(_)) => fail("get_binary", "view handed out where into_binary() refuses", format!("view {:x?}", to_u128(&g))),
                        (Err(_), Ok(b)) => fail("get_binary", "refused where into_binary() succeeds", format!("into_binary {:x?}", to_u128(b))),
                    },
                    2 => {
                        let v: Vec<C::W> = c.iter_compressed().collect();
                        if v != export {
                            fail("iter_compressed", "iterator differs from into_compressed() at that moment", format!("{:x?} expected {:x?}", to_u128(&v), to_u128(&export)));
                        }
                    }
                    3 => {
                        let mut d = c.as_decoder();
                        if let Some(l) = top {
                            if !matches!(C::ans_decode(&mut d, l), Ok(1)) {
                                fail("as_decoder", "temporary decoder decodes wrongly", String::new());
                            }
                        }
                    }
                    4 => {
                        let mut d = c.as_seekable_decoder();
                        if let Some(l) = top {
                            if !matches!(C::ans_decode(&mut d, l), Ok(1)) {
                                fail("as_seekable_decoder", "temporary decoder decodes wrongly", String::new());
                            }
                        }
                    }
                    5 => {
                        let k = c.clone();
                        if k.into_raw_parts() != raw {
                            fail("clone", "clone differs from the original", String::new());
                        }
                    }
                    6 => {
                        if c.num_words() != export.len() || c.num_bits() != export.len() * C::WBITS as usize {
                            fail("num_words", "size query differs from length of into_compressed()", format!("{} vs {}", c.num_words(), export.len()));
                        }
                        let _ = c.num_valid_bits();
                        let _ = c.pos();
                    }
                    _ => {
                        if c.is_empty() != export.is_empty() {
                            fail("is_empty", "emptiness query differs from into_compressed().is_empty()", String::new());
                        }
                    }
                }
            }
            let now: (Vec<C::W>, C::S) = c.clone().into_raw_parts();
            if now != raw {
                fail(names[op], "coder state changed by the inspection",
                    format!("op x{reps}: (bulk {:x?}, state {:x}) was (bulk {:x?}, state {:x})", to_u128(&now.0), now.1.into(), to_u128(&raw.0), raw.1.into()));
            }
            C::ans_encode(&mut c, next).unwrap();
            let o = c.into_compressed().unwrap();
            if o != twin_out {
                fail(names[op], "final output differs from the uninspected twin", format!("op x{reps}: {:x?} vs twin {:x?}", to_u128(&o), to_u128(&twin_out)));
            }
        }
    }
    if let Some(acc) = acc {
        acc.c[3] += nins;
        if export.is_empty() { acc.c[4] += nins; }
        acc.c[5] += bin_ok;
        acc.c[6] += bin_err;
        // a state whose exported words contain a zero word below the top one
        let st: u128 = raw.1.into();
        let nw = (128 - st.leading_zeros() + C::WBITS - 1) / C::WBITS;
        let m = (1u128 << C::WBITS) - 1;
        if (0..nw.saturating_sub(1)).any(|i| (st >> (i * C::WBITS)) & m == 0) { acc.c[7] += nins; }
    }
    out
}

fn explore_range<C: Cfg>(report: &Report, alphabet: &[Letter], depth: usize, label: &str) {
    let t = std::time::Instant::now();
    let next = alphabet[alphabet.len() / 2];
    let (accs, nodes, trans) = range_walk::<C, Acc, _>(alphabet, depth, |n: &RangeNode<C>, acc: &mut Acc| {
        for (i, d) in range_check::<C>(n.enc, n.hist, next, Some(acc)) {
            acc.violation(i, d, json!({"kind": "range_history", "cfg": C::NAME, "letters": letters_json(n.hist), "next": [next.prec, next.c, next.p]}));
        }
        if acc.samples.is_empty() && n.hist.len() >= 3 && range_is_inverted::<C>(n.enc).is_some() {
            acc.samples.push(json!({"coder": "range", "cfg": C::NAME, "letters": letters_json(n.hist), "inverted": true,
                "inspections": ["get_compressed", "decoder(2 symbols)", "clone", "num_words/num_bits", "is_empty", "pos/state/maybe_full", "decoder(all)", "get_compressed+decoder"], "each": "x1 and x2"}));
        }
    });
    report.add_states(nodes);
    report.add_transitions(trans);
    report.add_traces(nodes * 16);
    merge_accs(report, accs, &NAMES);
    report.section(json!({"coder": "range", "cfg": C::NAME, "alphabet": label, "alphabet_size": alphabet.len(), "depth": depth, "nodes": nodes, "wall_s": t.elapsed().as_secs_f64()}));
}

fn explore_ans<C: Cfg>(report: &Report, inits: &[Vec<u128>], alphabet: &[Letter], depth: usize, label: &str) {
    let t = std::time::Instant::now();
    let next = alphabet[alphabet.len() / 2];
    let (accs, nodes, trans) = ans_walk::<C, Acc, _>(inits, alphabet, depth, true, |n: &AnsNode<C>, acc: &mut Acc| {
        let ctx = format!("init {:x?} ops {:?}", n.exports[0], n.ops);
        for (i, d) in ans_check::<C>(n.coder, &ctx, n.stack.last().copied(), next, Some(acc)) {
            acc.violation(i, d, json!({"kind": "ans_state", "cfg": C::NAME, "bulk": words_json(&to_u128(n.coder.bulk())), "state": format!("{:x}", n.coder.state().into()),
                "top": n.stack.last().map(|l| vec![l.prec as u64, l.c, l.p]), "next": [next.prec, next.c, next.p]}));
        }
        if acc.samples.is_empty() && n.ops.len() >= 3 {
            acc.samples.push(json!({"coder": "ans", "cfg": C::NAME, "init": words_json(&n.exports[0]), "ops": super::c06::ops_json(n.ops),
                "inspections": ["get_compressed", "get_binary", "iter_compressed", "as_decoder", "as_seekable_decoder", "clone", "num_words/num_bits/num_valid_bits/pos", "is_empty"], "each": "x1 and x2"}));
        }
    });
    report.add_states(nodes);
    report.add_transitions(trans);
    report.add_traces(nodes * 16);
    merge_accs(report, accs, &NAMES);
    report.section(json!({"coder": "ans", "cfg": C::NAME, "alphabet": label, "alphabet_size": alphabet.len(), "initial_word_strings": inits.len(), "depth": depth, "nodes": nodes, "wall_s": t.elapsed().as_secs_f64()}));
}

/// initial word strings: empty, imported words, and raw binary loads (`data ++ [1]`), incl. data ending in zero words
pub fn inits_with_binary<C: Cfg>() -> Vec<Vec<u128>> {
    let m = (1u128 << C::WBITS) - 1;
    let mut v = super::c01::import_inits::<C>();
    for data in [vec![], vec![0], vec![m], vec![0, 0], vec![m, 0], vec![0x5a & m, 0, 0], vec![1, m, 0, 0, 0]] {
        let mut d: Vec<u128> = data;
        d.push(1);
        v.push(d);
    }
    v.sort();
    v.dedup();
    v
}

pub fn run(report: &Report) {
    use crate::models::*;
    let q = report.tier == Tier::Quick;
    report.bound("every node of the range-coder sequence walk and of the ANS history walk (encode+decode ops, from empty / imported / raw-binary initial words) up to the listed depths; 8 inspection ops x {once, twice} per node; bit-level stack/queue coders: all bit strings up to the listed length with an inspection inserted at every point");
    report.assume("an encoder's complete state is visible through into_raw_parts(); equality of raw parts after the inspection implies identical futures; one continued encode is executed on both twins as a direct confirmation");
    for n in ["range_inspections_while_inverted", "range_inspections_on_empty_encoder", "ans_inspections_on_empty_coder", "ans_get_binary_ok", "ans_get_binary_refused",
        "ans_inspections_with_interior_zero_state_word", "bit_coder_inspections", "bit_coder_inspections_at_word_boundary"] {
        report.require(n);
    }
    explore_range::<U8U16>(report, &range_alphabet12::<U8U16>(), if q { 6 } else { 7 }, "a12@P8");
    explore_range::<U8U32>(report, &range_alphabet12::<U8U32>(), if q { 6 } else { 7 }, "a12@P8");
    explore_range::<U8U32>(report, &range_alphabet5::<U8U32>(), if q { 8 } else { 9 }, "a5@P8");
    explore_range::<U8U16>(report, &small_alphabet::<U8U16>(), if q { 4 } else { 5 }, "mixed-precision-14");
    explore_range::<U8U64>(report, &range_alphabet5::<U8U64>(), if q { 6 } else { 8 }, "a5@P8");
    explore_range::<U16U32>(report, &range_alphabet12::<U16U32>(), if q { 4 } else { 5 }, "a12@P16");
    explore_range::<U32U64>(report, &small_alphabet::<U32U64>(), if q { 4 } else { 5 }, "mixed-precision-14");
    explore_range::<U64U128>(report, &small_alphabet::<U64U128>(), if q { 3 } else { 4 }, "mixed-precision-14");
    explore_ans::<U8U16>(report, &inits_with_binary::<U8U16>(), &small_alphabet::<U8U16>(), if q { 3 } else { 5 }, "mixed-precision-14");
    explore_ans::<U8U32>(report, &inits_with_binary::<U8U32>(), &small_alphabet::<U8U32>(), if q { 3 } else { 5 }, "mixed-precision-14");
    explore_ans::<U8U32>(report, &[vec![]], &small_alphabet::<U8U32>(), if q { 6 } else { 7 }, "mixed-precision-14");
    explore_ans::<U8U64>(report, &inits_with_binary::<U8U64>(), &small_alphabet::<U8U64>(), if q { 3 } else { 4 }, "mixed-precision-14");
    explore_ans::<U16U32>(report, &inits_with_binary::<U16U32>(), &small_alphabet::<U16U32>(), if q { 3 } else { 4 }, "mixed-precision-14");
    explore_ans::<U16U64>(report, &inits_with_binary::<U16U64>(), &small_alphabet::<U16U64>(), if q { 2 } else { 4 }, "mixed-precision-14");
    explore_ans::<U32U64>(report, &inits_with_binary::<U32U64>(), &small_alphabet::<U32U64>(), if q { 3 } else { 4 }, "mixed-precision-14");
    explore_ans::<U64U128>(report, &inits_with_binary::<U64U128>(), &small_alphabet::<U64U128>(), if q { 2 } else { 3 }, "mixed-precision-14");
    super::c16::inspection_checks(report);
    super::pyfront::sweep(report, "symbol", if q { 3 } else { 4 },
        "Python symbol.StackCoder / QueueEncoder with every Huffman book of the sweep and every message up to 3 symbols: a twin on which get_compressed_and_bitrate and get_decoder are called between all symbols gives the same words and bit rate",
        &["inspections"], &[]);
    super::pyfront::sweep(report, "views", 3,
        "Python: an array returned by get_compressed / get_remainders / get_compressed_and_bitrate is a value: using the coder afterwards (40 steps, across reallocations) does not change it, and writing to it does not change the coder",
        &["returned array"], &[]);
    super::pyfront::sweep(report, "misuse", 0,
        "Python AnsCoder.get_compressed(unseal=True) on coders that are not in a sealed state (new, loaded from compressed words): the view must be refused like the export it stands for, and leave the coder unchanged",
        &["unseal=True"], &[]);
    super::pyfront::sweep(report, "sizes", if q { 5 } else { 7 },
        "every message up to the listed length over 3 symbols x 2 models on the Python AnsCoder and RangeEncoder: a twin that is inspected between all symbols (get_compressed, num_words, num_bits, num_valid_bits, is_empty, pos, clone, get_decoder) produces the same words",
        &["inspections", "second call", "get_decoder"], &[]);
}

fn replay_range<C: Cfg>(letters: &[Letter], next: Letter) -> Result<String, String> {
    let mut enc = RangeEncoder::<C::W, C::S>::new();
    for &l in letters {
        C::range_encode(&mut enc, l).map_err(|e| format!("{e:?}"))?;
    }
    let v = range_check::<C>(&enc, letters, next, None);
    if v.is_empty() { Ok("no inspection changes the encoder".into()) } else { Err(v.into_iter().map(|(i, d)| format!("[{i}] {d}")).collect::<Vec<_>>().join("\n")) }
}
fn replay_ans<C: Cfg>(bulk: &[u128], state: u128, top: Option<Letter>, next: Letter) -> Result<String, String> {
    let c = AnsCoder::<C::W, C::S>::from_raw_parts(bulk.iter().map(|&w| C::w(w)).collect(), C::s(state));
    let v = ans_check::<C>(&c, "replayed state", top, next, None);
    if v.is_empty() { Ok("no inspection changes the coder".into()) } else { Err(v.into_iter().map(|(i, d)| format!("[{i}] {d}")).collect::<Vec<_>>().join("\n")) }
}

pub fn replay(case: &serde_json::Value) -> Result<String, String> {
    let lt = |v: &serde_json::Value| -> Option<Letter> { let a = v.as_array()?; Some(Letter::new(a[0].as_u64()? as u8, a[1].as_u64()?, a[2].as_u64()?)) };
    match case["kind"].as_str() {
        Some("range_history") => {
            let cfg = case["cfg"].as_str().ok_or("cfg")?;
            let letters = letters_from_json(&case["letters"])?;
            let next = lt(&case["next"]).ok_or("next")?;
            dispatch_cfg!(cfg, replay_range, &letters, next)
        }
        Some("ans_state") => {
            let cfg = case["cfg"].as_str().ok_or("cfg")?;
            let bulk = words_from_json(&case["bulk"])?;
            let state = u128::from_str_radix(case["state"].as_str().ok_or("state")?, 16).map_err(|e| e.to_string())?;
            let next = lt(&case["next"]).ok_or("next")?;
            dispatch_cfg!(cfg, replay_ans, &bulk, state, lt(&case["top"]), next)
        }
        Some("bit_ops") => super::c16::replay(case),
        _ => Err("unknown case kind".into()),
    }
}
