//! Shared alphabets and helpers.
use crate::models::{all_pairs, extremes, Cfg, Letter};

/// Highest precision configured for `C` (= Probability::BITS, and = Word::BITS except for u64 words).
pub fn max_prec<C: Cfg>() -> u8 {
    *C::PRECS.last().unwrap()
}

/// ~14 letter mixed-precision alphabet: both P=1 letters, a spread at P=2/3, extremes at max P.
pub fn small_alphabet<C: Cfg>() -> Vec<Letter> {
    let mut v = vec![
        Letter::new(1, 0, 1),
        Letter::new(1, 1, 1),
        Letter::new(2, 0, 1),
        Letter::new(2, 3, 1),
        Letter::new(2, 1, 2),
        Letter::new(2, 0, 3),
        Letter::new(2, 1, 3),
        Letter::new(3, 2, 5),
        Letter::new(3, 7, 1),
    ];
    let mp = max_prec::<C>();
    let t = 1u64 << mp;
    v.extend([
        Letter::new(mp, 0, 1),
        Letter::new(mp, t - 1, 1),
        Letter::new(mp, 1, t - 2),
        Letter::new(mp, 0, t - 1),
        Letter::new(mp, t / 2, t / 2 - 1),
    ]);
    v
}

/// All pairs at P in {1,2,3} plus extremes at every configured precision > 3.
pub fn pairs_alphabet<C: Cfg>() -> Vec<Letter> {
    let mut v = vec![];
    for p in [1u8, 2, 3] {
        v.extend(all_pairs(p));
    }
    for &p in C::PRECS {
        if p > 3 {
            v.extend(extremes(p));
        }
    }
    v
}

/// The 12-letter alphabet at max precision used for range-coder carry exploration
/// (scaled version of the P=8 alphabet that reaches every carry situation at depth <= 6 on u8 words).
pub fn range_alphabet12<C: Cfg>() -> Vec<Letter> {
    let mp = max_prec::<C>();
    let t = 1u128 << mp;
    let sc = |c: u128, p: u128| -> Letter {
        // scale (c,p) given at P=8 to precision mp keeping 1-quantum letters 1 quantum
        if mp == 8 {
            return Letter::new(8, c as u64, p as u64);
        }
        let f = t / 256;
        let (mut cc, mut pp) = (c * f, p * f);
        if p == 1 {
            pp = 1;
            if c == 255 { cc = t - 1; }
        }
        if c + p == 256 { pp = t - cc; }
        Letter::new(mp, cc as u64, pp as u64)
    };
    let v: Vec<Letter> = [(0u128, 1u128), (255, 1), (1, 254), (0, 255), (3, 5), (128, 127), (100, 3), (17, 239), (64, 129), (250, 6), (0, 128), (200, 7)]
        .iter().map(|&(c, p)| sc(c, p)).collect();
    for l in &v { assert!(l.well_formed(), "HARNESS: bad letter {:?}", l); }
    v
}

pub fn range_alphabet5<C: Cfg>() -> Vec<Letter> {
    let a = range_alphabet12::<C>();
    vec![a[0], a[1], a[7], a[5], a[4]]
}

pub fn letters_json(h: &[Letter]) -> serde_json::Value {
    serde_json::Value::Array(h.iter().map(|l| serde_json::json!([l.prec, l.c, l.p])).collect())
}

pub fn letters_from_json(v: &serde_json::Value) -> Result<Vec<Letter>, String> {
    let a = v.as_array().ok_or("letters: not an array")?;
    a.iter().map(|x| {
        let t = x.as_array().ok_or("letter: not an array")?;
        if t.len() != 3 { return Err("letter: need [prec,c,p]".to_string()); }
        Ok(Letter::new(t[0].as_u64().ok_or("prec")? as u8, t[1].as_u64().ok_or("c")?, t[2].as_u64().ok_or("p")?))
    }).collect()
}

pub fn words_json(w: &[u128]) -> serde_json::Value {
    serde_json::Value::Array(w.iter().map(|x| serde_json::json!(format!("{:x}", x))).collect())
}
pub fn words_from_json(v: &serde_json::Value) -> Result<Vec<u128>, String> {
    v.as_array().ok_or("words: not an array")?.iter().map(|x| {
        u128::from_str_radix(x.as_str().ok_or("word: not a string")?, 16).map_err(|e| e.to_string())
    }).collect()
}

/// Dispatch a generic function over the type matrix by configuration name.
#[macro_export]
macro_rules! dispatch_cfg {
    ($name:expr, $f:ident, $($arg:expr),*) => {
        match $name {
            "u8/u16" => $f::<$crate::models::U8U16>($($arg),*),
            "u8/u32" => $f::<$crate::models::U8U32>($($arg),*),
            "u8/u64" => $f::<$crate::models::U8U64>($($arg),*),
            "u16/u32" => $f::<$crate::models::U16U32>($($arg),*),
            "u16/u64" => $f::<$crate::models::U16U64>($($arg),*),
            "u32/u64" => $f::<$crate::models::U32U64>($($arg),*),
            "u64/u128" => $f::<$crate::models::U64U128>($($arg),*),
            other => panic!("unknown configuration {other}"),
        }
    };
}
