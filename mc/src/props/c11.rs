//! C11 — range-coded data is unaffected by whatever words follow it.
//!
//! At every node of the range-coder sequence walk: decode `sealed ++ suffix` for a family of
//! suffixes (all-ones, all-zeros, 0x5a.., every boundary word followed by ones / zeros) and
//! compare with the encoded symbols; start a second encoder on a sink that already holds the
//! sealed first message and decode both messages back to back.

use super::common::*;
use crate::dispatch_cfg;
use crate::models::{to_u128, Cfg, Letter};
use crate::report::{Report, Tier};
use crate::walk::{merge_accs, range_is_inverted, range_walk, Acc, RangeNode};
use constriction::backends::Cursor;
use constriction::stream::queue::{RangeDecoder, RangeEncoder};
use serde_json::json;

pub const NAMES: [&str; 8] = [
    "suffix_decodes",
    "nodes_sealed_with_zero_word",
    "nodes_sealed_with_more_than_one_zero_word",
    "nodes_inverted_at_seal",
    "back_to_back_messages",
    "symbols_decoded",
    "nodes_state_wider_than_two_words",
    "",
];

fn suffixes<C: Cfg>() -> Vec<Vec<u128>> {
    let m = if C::WBITS >= 128 { u128::MAX } else { (1u128 << C::WBITS) - 1 };
    let n = (C::SBITS / C::WBITS + 2) as usize;
    let mut v = vec![vec![m; n], vec![0; n], vec![0x5a & m; n]];
    for first in [0u128, 1, m / 2, m / 2 + 1, m - 1, m] {
        let mut s = vec![first];
        s.extend(vec![m; n - 1]);
        v.push(s);
    }
    // one zero word followed by ones: the classic case the second seal word protects against
    let mut s = vec![0u128];
    s.extend(vec![m; n - 1]);
    v.push(s);
    v.sort();
    v.dedup();
    v
}

pub fn check_node<C: Cfg>(enc: &RangeEncoder<C::W, C::S>, hist: &[Letter], sfx: &[Vec<u128>], acc: Option<&mut Acc>) -> Vec<(String, String)> {
    let mut out = vec![];
    if hist.is_empty() {
        return out;
    }
    let sealed = enc.clone().into_compressed().unwrap();
    // an encoder writing BEHIND data that is already on the sink must leave that data alone also when it is
    // looked at in between (a temporary view seals and unseals on the shared sink)
    {
        let prefix: Vec<C::W> = vec![C::w(0x5a), C::w(0), C::w(1)];
        let mut e = RangeEncoder::<C::W, C::S, Vec<C::W>>::with_backend(prefix.clone());
        let mut ok = true;
        // (also BEFORE the first symbol: nothing of this encoder is on the sink yet)
        let before: Vec<C::W> = e.get_compressed().to_vec();
        let _ = e.decoder();
        if to_u128(&before) != to_u128(&prefix) {
            out.push(("RangeEncoder::with_backend | a view taken before the first symbol does not show exactly the data already on the sink".to_string(),
                format!("{}: sink {:x?}, view {:x?}", C::NAME, to_u128(&prefix), to_u128(&before))));
        }
        for &l in hist {
            if C::range_encode(&mut e, l).is_err() { ok = false; break; }
            let _ = e.get_compressed().len();
        }
        if ok {
            let all = e.into_compressed().unwrap();
            let mut expect = prefix.clone();
            expect.extend(sealed.iter().cloned());
            if to_u128(&all) != to_u128(&expect) {
                out.push(("RangeEncoder::with_backend | data already on the sink (or the message behind it) is damaged when the encoder is inspected between symbols".to_string(),
                    format!("{}: history {:?}: sink holds {:x?}, expected {:x?}", C::NAME, hist, to_u128(&all), to_u128(&expect))));
            }
        }
    }
    // sealing onto a BOUNDED sink of every capacity around what is needed: an error, or exactly the words of the
    // unbounded encoder (words that were silently cut short no longer identify the message on their own)
    for cap in sealed.len().saturating_sub(2)..=sealed.len() + 1 {
        let mut e = RangeEncoder::<C::W, C::S, Cursor<C::W, Vec<C::W>>>::with_backend(Cursor::new_at_write_beginning(vec![C::w(0); cap]));
        if hist.iter().any(|&l| C::range_encode(&mut e, l).is_err()) { continue; }
        if let Ok(cursor) = e.into_compressed() {
            let (buf, pos) = cursor.into_buf_and_pos();
            if to_u128(&buf[..pos]) != to_u128(&sealed) {
                out.push(("RangeEncoder::into_compressed on a bounded sink | succeeds with words that are not the sealed message".to_string(),
                    format!("{}: history {:?}, capacity {cap}: {:x?} instead of {:x?}", C::NAME, hist, to_u128(&buf[..pos]), to_u128(&sealed))));
            }
        }
    }
    let wide = C::SBITS > 2 * C::WBITS;
    let class = if wide { "State wider than two Words" } else { "State == two Words" };
    let mut ndec = 0u64;
    for s in sfx {
        let mut data = sealed.clone();
        data.extend(s.iter().map(|&w| C::w(w)));
        let mut dec = RangeDecoder::<C::W, C::S, _>::from_compressed(&data[..]).unwrap();
        for (i, &l) in hist.iter().enumerate() {
            match C::range_decode(&mut dec, l) {
                Ok(1) => ndec += 1,
                other => {
                    out.push((
                        format!("RangeEncoder::seal | {class} | appended words change the decoded symbols"),
                        format!("{}: history {:?} sealed {:x?} ++ suffix {:x?}: symbol {i} decoded as {:?}", C::NAME, hist, to_u128(&sealed), s, other.map_err(|e| format!("{e:?}"))),
                    ));
                    break;
                }
            }
        }
    }
    // back to back: second message = the history reversed, encoded on a sink holding the first
    let mut e2 = RangeEncoder::<C::W, C::S, Vec<C::W>>::with_backend(sealed.clone());
    let _ = e2.get_compressed().len(); // (a look at the sink before the second message starts)
    for &l in hist.iter().rev() {
        C::range_encode(&mut e2, l).unwrap();
    }
    let both = e2.into_compressed().unwrap();
    if both.len() < sealed.len() || both[..sealed.len()] != sealed[..] {
        out.push((
            "RangeEncoder::with_backend | second message modifies the words of the first".to_string(),
            format!("{}: first {:x?}, both {:x?}", C::NAME, to_u128(&sealed), to_u128(&both)),
        ));
    } else {
        let mut d1 = RangeDecoder::<C::W, C::S, _>::from_compressed(&both[..]).unwrap();
        let ok1 = hist.iter().all(|&l| matches!(C::range_decode(&mut d1, l), Ok(1)));
        let mut d2 = RangeDecoder::<C::W, C::S, _>::from_compressed(&both[sealed.len()..]).unwrap();
        let ok2 = hist.iter().rev().all(|&l| matches!(C::range_decode(&mut d2, l), Ok(1)));
        if !ok1 {
            out.push((
                format!("RangeEncoder::seal | {class} | appended words change the decoded symbols"),
                format!("{}: history {:?}: first of two back-to-back messages decodes wrongly from {:x?}", C::NAME, hist, to_u128(&both)),
            ));
        }
        if !ok2 {
            out.push((
                "RangeEncoder::with_backend | second of two back-to-back messages decodes wrongly".to_string(),
                format!("{}: history {:?} reversed as second message, words {:x?} offset {}", C::NAME, hist, to_u128(&both), sealed.len()),
            ));
        }
    }
    if let Some(acc) = acc {
        acc.c[0] += sfx.len() as u64;
        acc.c[4] += 1;
        acc.c[5] += ndec;
        let inv = range_is_inverted::<C>(enc).unwrap_or(0);
        let zeros = sealed.len() as i64 - enc.bulk().len() as i64 - inv as i64 - 1;
        if zeros >= 1 { acc.c[1] += 1; }
        if zeros >= 2 { acc.c[2] += 1; }
        if inv > 0 { acc.c[3] += 1; }
        if wide { acc.c[6] += 1; }
    }
    out
}

fn explore<C: Cfg>(report: &Report, alphabet: &[Letter], depth: usize, label: &str) {
    let t = std::time::Instant::now();
    let sfx = suffixes::<C>();
    let (accs, nodes, trans) = range_walk::<C, Acc, _>(alphabet, depth, |n: &RangeNode<C>, acc: &mut Acc| {
        for (i, d) in check_node::<C>(n.enc, n.hist, &sfx, Some(acc)) {
            acc.violation(i, d, json!({"kind": "range_history", "cfg": C::NAME, "letters": letters_json(n.hist)}));
        }
        if acc.samples.is_empty() && n.hist.len() >= 3 {
            acc.samples.push(json!({"cfg": C::NAME, "history": letters_json(n.hist), "sealed": words_json(&to_u128(&n.enc.clone().into_compressed().unwrap())),
                "suffixes_tried": sfx.iter().map(|s| words_json(s)).collect::<Vec<_>>()}));
        }
    });
    report.add_states(nodes);
    report.add_transitions(trans);
    report.add_traces(nodes * (sfx.len() as u64 + 1));
    merge_accs(report, accs, &NAMES);
    report.section(json!({"cfg": C::NAME, "alphabet": label, "alphabet_size": alphabet.len(), "depth": depth, "nodes": nodes,
        "suffixes_per_node": sfx.len(), "wall_s": t.elapsed().as_secs_f64()}));
}

/// every 5-letter sub-alphabet of a12 that contains the two 1-quantum letters
fn sub_alphabets5(a12: &[Letter]) -> Vec<Vec<Letter>> {
    let rest: Vec<Letter> = a12[2..].to_vec();
    let mut out = vec![];
    for i in 0..rest.len() {
        for j in i + 1..rest.len() {
            for k in j + 1..rest.len() {
                out.push(vec![a12[0], a12[1], rest[i], rest[j], rest[k]]);
            }
        }
    }
    out
}

pub fn run(report: &Report) {
    use crate::models::*;
    let q = report.tier == Tier::Quick;
    report.bound("every node of the range-coder sequence walk up to the listed depths, each with 10 suffixes of S/W+2 words and one back-to-back second message");
    report.assume("suffix family: all-ones, all-zeros, 0x5a.., {0,1,mid,mid+1,max-1,max} followed by all-ones; longer suffixes cannot matter because a decoder looks at most S/W words beyond the point where the message's symbols are determined");
    for n in ["nodes_sealed_with_zero_word", "nodes_sealed_with_more_than_one_zero_word", "nodes_inverted_at_seal", "nodes_state_wider_than_two_words"] {
        report.require(n);
    }
    explore::<U8U16>(report, &range_alphabet12::<U8U16>(), if q { 6 } else { 7 }, "a12@P8");
    explore::<U8U32>(report, &range_alphabet12::<U8U32>(), if q { 6 } else { 7 }, "a12@P8");
    explore::<U8U32>(report, &range_alphabet5::<U8U32>(), if q { 9 } else { 10 }, "a5@P8 {(0,1),(255,1),(17,239),(128,127),(3,5)}");
    explore::<U8U64>(report, &range_alphabet5::<U8U64>(), if q { 8 } else { 9 }, "a5@P8");
    if !q {
        let a12 = range_alphabet12::<U8U32>();
        for (i, sub) in sub_alphabets5(&a12).iter().enumerate() {
            explore::<U8U32>(report, sub, 8, &format!("a5 sub-alphabet #{i} of a12"));
        }
    }
    explore::<U8U16>(report, &small_alphabet::<U8U16>(), if q { 4 } else { 6 }, "mixed-precision-14");
    explore::<U8U32>(report, &small_alphabet::<U8U32>(), if q { 4 } else { 6 }, "mixed-precision-14");
    explore::<U16U32>(report, &range_alphabet12::<U16U32>(), if q { 5 } else { 6 }, "a12@P16");
    explore::<U16U64>(report, &range_alphabet12::<U16U64>(), if q { 4 } else { 5 }, "a12@P16");
    explore::<U16U64>(report, &range_alphabet5::<U16U64>(), if q { 6 } else { 8 }, "a5@P16");
    explore::<U32U64>(report, &range_alphabet12::<U32U64>(), if q { 3 } else { 5 }, "a12@P32");
    explore::<U64U128>(report, &small_alphabet::<U64U128>(), if q { 3 } else { 4 }, "mixed-precision-14");
}

fn replay_cfg<C: Cfg>(letters: &[Letter]) -> Result<String, String> {
    let mut enc = RangeEncoder::<C::W, C::S>::new();
    for &l in letters {
        C::range_encode(&mut enc, l).map_err(|e| format!("{e:?}"))?;
    }
    let v = check_node::<C>(&enc, letters, &suffixes::<C>(), None);
    if v.is_empty() {
        Ok(format!("sealed {:x?} decodes correctly under every suffix", to_u128(&enc.into_compressed().unwrap())))
    } else {
        Err(v.into_iter().map(|(i, d)| format!("[{i}] {d}")).collect::<Vec<_>>().join("\n"))
    }
}

pub fn replay(case: &serde_json::Value) -> Result<String, String> {
    let cfg = case["cfg"].as_str().ok_or("cfg")?;
    let letters = letters_from_json(&case["letters"])?;
    dispatch_cfg!(cfg, replay_cfg, &letters)
}
