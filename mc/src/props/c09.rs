//! C09 — impossible symbols are rejected and a failed encode leaves the coder intact.
//!
//! (A) every model type x a dense set of out-of-support symbols (support edge +-k, MIN, MAX and the
//!     aliasing candidates s + k*2^ProbabilityBits, s + k*2^32): no probability, ever.
//! (B) impossible symbols inserted at EVERY position of every short encode history on the ANS
//!     coder, range encoder, chain coder and the bit-level coders with a Huffman codebook:
//!     ImpossibleSymbol error, complete coder state identical to before, the continued history
//!     round-trips.
//! (C) fault enumeration: ANS coder over a bounded sink of every capacity 0..=needed and over a
//!     callback sink failing at its k-th call for every k: the failing encode reports a backend
//!     error, the coder is bit-identical to before the call, everything encoded earlier decodes,
//!     encoding continues once room is made; a failing get_compressed / get_binary must not
//!     corrupt the coder.

use crate::models::to_u128;
use crate::report::{Report, Tier, Violation};
use constriction::backends::{BoundedWriteError, Cursor, FallibleCallbackWriteWords, Reverse};
use constriction::stream::chain::ChainCoder;
use constriction::stream::model::*;
use constriction::stream::queue::{RangeDecoder, RangeEncoder};
use constriction::stream::stack::AnsCoder;
use constriction::stream::{Code, Decode, Encode};
use constriction::symbol::huffman::{DecoderHuffmanTree, EncoderHuffmanTree};
use constriction::symbol::{QueueEncoder, ReadBitStream, StackCoder, WriteBitStream};
use constriction::{CoderError, DefaultEncoderFrontendError, Pos, UnwrapInfallible};
use probability::distribution::Gaussian;
use serde_json::json;

fn viol(report: &Report, identity: String, detail: String) {
    report.violation(Violation { identity, detail, case: json!({"kind": "none"}) });
}

/// a model query on ANY symbol value must return (no probability / a probability), never panic
fn mq<T>(report: &Report, what: &str, sym: &dyn std::fmt::Debug, f: impl FnOnce() -> Option<T>) -> Option<Option<T>> {
    match crate::isolate::guarded(f) {
        crate::isolate::Outcome::Value(v) => Some(v),
        crate::isolate::Outcome::CleanPanic { msg, loc } | crate::isolate::Outcome::OverflowPanic { msg, loc } => {
            viol(report, format!("{what} | model query panics instead of rejecting the symbol"), format!("symbol {:?}: '{msg}' at {loc}", sym));
            None
        }
    }
}

fn alias_candidates(inside: &[u64], first_outside: u64) -> Vec<u64> {
    let mut v: Vec<u64> = (first_outside..first_outside + 70).collect();
    for &s in inside.iter().take(4).chain(inside.iter().rev().take(2)) {
        for sh in [8u32, 12, 16, 24, 32, 33, 48, 63] {
            for k in [1u64, 2, 3] {
                if let Some(x) = k.checked_shl(sh).and_then(|b| b.checked_add(s)) {
                    v.push(x);
                }
            }
        }
    }
    v.extend([u64::MAX, u64::MAX - 1, u64::MAX / 2, (1 << 32) - 1, 1 << 32, 65535, 65536, 255, 256]);
    v.retain(|x| *x >= first_outside);
    v.sort();
    v.dedup();
    v
}

// ------------------------------------------------------------------------------------------
// (A) models

macro_rules! model_outside_usize {
    ($report:expr, $n:expr, $m:expr, $size:expr, $what:expr, $P:literal) => {{
        let inside: Vec<u64> = (0..$size as u64).collect();
        for &s in &inside {
            $n += 1;
            if let Some(None) = mq($report, $what, &s, || EncoderModel::<$P>::left_cumulative_and_probability(&$m, s as usize)) {
                viol($report, format!("{} | in-support symbol rejected", $what), format!("symbol {s} of 0..{}", $size));
            }
        }
        for s in alias_candidates(&inside, $size as u64) {
            $n += 1;
            if let Some(Some((c, p))) = mq($report, $what, &s, || EncoderModel::<$P>::left_cumulative_and_probability(&$m, s as usize)) {
                viol($report, format!("{} | symbol outside the support gets a probability (aliases an in-support symbol)", $what),
                    format!("support 0..{}: symbol {s} reported as (cumulative {c}, probability {p})", $size));
            }
        }
    }};
}

fn models_part(report: &Report) {
    let mut n = 0u64;
    // contiguous / lazy / lookup over usize symbols
    for size in [2usize, 3, 7, 200] {
        let probs: Vec<f64> = (0..size).map(|i| 1.0 + (i % 5) as f64).collect();
        let m = ContiguousCategoricalEntropyModel::<u16, Vec<u16>, 12>::from_floating_point_probabilities_fast(&probs, None).unwrap();
        model_outside_usize!(report, n, m, size, "ContiguousCategoricalEntropyModel<u16,12>", 12);
        let m = ContiguousCategoricalEntropyModel::<u32, Vec<u32>, 32>::from_floating_point_probabilities_fast(&probs, None).unwrap();
        model_outside_usize!(report, n, m, size, "ContiguousCategoricalEntropyModel<u32,32>", 32);
        let m = LazyContiguousCategoricalEntropyModel::<u16, f64, _, 12>::from_floating_point_probabilities_fast(probs.clone(), None).unwrap();
        model_outside_usize!(report, n, m, size, "LazyContiguousCategoricalEntropyModel<u16,f64,12>", 12);
        if size <= 200 {
            let m = ContiguousCategoricalEntropyModel::<u8, Vec<u8>, 8>::from_floating_point_probabilities_fast(&probs, None).unwrap();
            model_outside_usize!(report, n, m, size, "ContiguousCategoricalEntropyModel<u8,8>", 8);
        }
    }
    // uniform models: every range up to 300 and boundary ranges, all precisions
    for range in (2usize..=256).chain([1000, 4095, 4096]) {
        if range <= 256 {
            let m = UniformModel::<u8, 8>::new(range);
            model_outside_usize!(report, n, m, range, "UniformModel<u8,8>", 8);
        }
        let m = UniformModel::<u16, 12>::new(range);
        model_outside_usize!(report, n, m, range, "UniformModel<u16,12>", 12);
        let m = UniformModel::<u16, 16>::new(range);
        model_outside_usize!(report, n, m, range, "UniformModel<u16,16>", 16);
        let m = UniformModel::<u32, 24>::new(range);
        model_outside_usize!(report, n, m, range, "UniformModel<u32,24>", 24);
        let m = UniformModel::<u32, 32>::new(range);
        model_outside_usize!(report, n, m, range, "UniformModel<u32,32>", 32);
    }
    // non-contiguous encoder over u64 labels incl. labels that alias after narrowing
    let labels: Vec<u64> = vec![5, 7, 9, (1 << 32) + 5, 65536 + 7];
    let m = NonContiguousCategoricalEncoderModel::<u64, u16, 12>::from_symbols_and_floating_point_probabilities_fast(labels.iter().copied(), &[0.1f64, 0.2, 0.3, 0.2, 0.2], None).unwrap();
    for s in alias_candidates(&[5, 7, 9], 0) {
        n += 1;
        let inside = labels.contains(&s);
        if let Some(r) = mq(report, "NonContiguousCategoricalEncoderModel", &s, || m.left_cumulative_and_probability(s)) {
            if r.is_some() != inside {
                viol(report, "NonContiguousCategoricalEncoderModel | membership of a symbol misjudged".into(), format!("labels {:?}: symbol {s}", labels));
            }
        }
    }
    // quantised distributions over signed / narrow / wide symbol types
    macro_rules! quant {
        ($Sym:ty, $Pr:ty, $P:literal, $lo:expr, $hi:expr) => {{
            let q = LeakyQuantizer::<f64, $Sym, $Pr, $P>::new($lo..=$hi);
            let m = q.quantize(Gaussian::new(($lo as f64 + $hi as f64) / 2.0, 3.0));
            let (lo, hi) = ($lo as i128, $hi as i128);
            let mut cands: Vec<i128> = vec![];
            for d in 1..70i128 { cands.push(lo - d); cands.push(hi + d); }
            for sh in [8u32, 12, 16, 24, 32] { for k in [-2i128, -1, 1, 2] { for s in [lo, lo + 1, hi] { cands.push(s + k * (1i128 << sh)); } } }
            cands.extend([<$Sym>::MIN as i128, <$Sym>::MAX as i128, <$Sym>::MIN as i128 + 1, <$Sym>::MAX as i128 - 1]);
            for s in lo..=hi {
                n += 1;
                let name = format!("LeakilyQuantizedDistribution<{},{},{}>", stringify!($Sym), stringify!($Pr), $P);
                if let Some(None) = mq(report, &name, &s, || m.left_cumulative_and_probability(s as $Sym)) {
                    viol(report, format!("{name} | in-support symbol rejected"), format!("symbol {s}"));
                }
            }
            for s in cands {
                if s < <$Sym>::MIN as i128 || s > <$Sym>::MAX as i128 || (s >= lo && s <= hi) { continue; }
                n += 1;
                let name = format!("LeakilyQuantizedDistribution<{},{},{}>", stringify!($Sym), stringify!($Pr), $P);
                if let Some(Some(_)) = mq(report, &name, &s, || m.left_cumulative_and_probability(s as $Sym)) {
                    viol(report, format!("{name} | symbol outside the support gets a probability"),
                        format!("support {lo}..={hi}: symbol {s}"));
                }
            }
        }};
    }
    quant!(i32, u16, 12, -5, 5);
    quant!(i32, u8, 8, -100, 100);
    quant!(i8, u16, 12, -100, 100);
    quant!(i8, u32, 24, -128, 127);
    quant!(u8, u16, 12, 3, 250);
    quant!(i16, u16, 16, -300, 300);
    quant!(u16, u32, 24, 0, 65535);
    quant!(i32, u32, 32, i32::MAX - 10, i32::MAX);
    quant!(i32, u32, 24, i32::MIN, i32::MIN + 10);
    report.count("model_level_symbol_queries", n);
    report.add_transitions(n);
    report.section(json!({"part": "A: models x out-of-support symbols", "queries": n}));
}

// ------------------------------------------------------------------------------------------
// (B) coders: impossible symbol at every position of every short history

type Cat8 = ContiguousCategoricalEntropyModel<u8, Vec<u8>, 8>;

fn is_impossible<T, E>(r: &Result<T, CoderError<DefaultEncoderFrontendError, E>>) -> bool {
    matches!(r, Err(CoderError::Frontend(DefaultEncoderFrontendError::ImpossibleSymbol)))
}

fn histories(nsym: usize, depth: usize) -> Vec<Vec<usize>> {
    let mut out = vec![vec![]];
    let mut fr: Vec<Vec<usize>> = vec![vec![]];
    for _ in 0..depth {
        fr = fr.iter().flat_map(|h| (0..nsym).map(move |s| { let mut g = h.clone(); g.push(s); g })).collect();
        out.extend(fr.iter().cloned());
    }
    out
}

fn coders_part(report: &Report, depth: usize) {
    let cat: Cat8 = Cat8::from_nonzero_fixed_point_probabilities([100u8, 1, 55, 100], false).unwrap();
    let uni = UniformModel::<u8, 8>::new(10);
    let bad_cat: Vec<usize> = vec![4, 5, 256, 257, 65536 + 1, (1 << 32) + 2, usize::MAX];
    let bad_uni: Vec<usize> = vec![10, 11, 256, 256 + 1, 256 + 9, 65536 + 3, (1 << 32) + 1, usize::MAX];
    let hs = histories(4, depth);
    let mut n = 0u64;
    for h in &hs {
        for pos in 0..=h.len() {
            // ---------------- ANS
            {
                let mut c = AnsCoder::<u8, u32>::new();
                for &s in &h[..pos] { c.encode_symbol(s, &cat).unwrap(); }
                let before = (c.bulk().clone(), c.state());
                for &b in &bad_cat {
                    n += 1;
                    let r = c.encode_symbol(b, &cat);
                    if !is_impossible(&r) { viol(report, "AnsCoder::encode_symbol | impossible symbol not rejected with ImpossibleSymbol".into(), format!("history {:?} then symbol {b}: {:?}", &h[..pos], r)); }
                    if (c.bulk().clone(), c.state()) != before { viol(report, "AnsCoder::encode_symbol | coder changed by a rejected symbol".into(), format!("history {:?} then symbol {b}", &h[..pos])); }
                }
                for &b in &bad_uni {
                    n += 1;
                    let r = c.encode_symbol(b, uni);
                    if !is_impossible(&r) { viol(report, "AnsCoder::encode_symbol | impossible symbol not rejected with ImpossibleSymbol".into(), format!("history {:?} then symbol {b} under UniformModel(10): {:?}", &h[..pos], r)); }
                    if (c.bulk().clone(), c.state()) != before { viol(report, "AnsCoder::encode_symbol | coder changed by a rejected symbol".into(), format!("history {:?} then symbol {b} (uniform)", &h[..pos])); }
                }
                for &s in &h[pos..] { c.encode_symbol(s, &cat).unwrap(); }
                let dec: Vec<usize> = h.iter().rev().map(|_| c.decode_symbol(&cat).unwrap()).collect();
                let exp: Vec<usize> = h.iter().rev().copied().collect();
                if dec != exp || !c.is_empty() { viol(report, "AnsCoder | history with a rejected symbol in the middle does not round-trip".into(), format!("history {:?} rejected at {pos}: decoded {:?}", h, dec)); }
            }
            // ---------------- range encoder
            {
                let mut e = RangeEncoder::<u8, u32>::new();
                for &s in &h[..pos] { e.encode_symbol(s, &cat).unwrap(); }
                let before = e.clone().into_raw_parts();
                for &b in bad_cat.iter() {
                    n += 1;
                    let r = e.encode_symbol(b, &cat);
                    if !is_impossible(&r) { viol(report, "RangeEncoder::encode_symbol | impossible symbol not rejected with ImpossibleSymbol".into(), format!("history {:?} then symbol {b}: {:?}", &h[..pos], r)); }
                    if e.clone().into_raw_parts() != before { viol(report, "RangeEncoder::encode_symbol | encoder changed by a rejected symbol".into(), format!("history {:?} then symbol {b}", &h[..pos])); }
                }
                for &b in bad_uni.iter() {
                    n += 1;
                    let r = e.encode_symbol(b, uni);
                    if !is_impossible(&r) || e.clone().into_raw_parts() != before { viol(report, "RangeEncoder::encode_symbol | impossible symbol not rejected with ImpossibleSymbol".into(), format!("history {:?} then symbol {b} under UniformModel(10): {:?}", &h[..pos], r)); }
                }
                for &s in &h[pos..] { e.encode_symbol(s, &cat).unwrap(); }
                let mut d = RangeDecoder::<u8, u32, _>::from_compressed(e.into_compressed().unwrap()).unwrap();
                let dec: Vec<Option<usize>> = h.iter().map(|_| d.decode_symbol(&cat).ok()).collect();
                if dec != h.iter().map(|&s| Some(s)).collect::<Vec<_>>() { viol(report, "RangeEncoder | history with a rejected symbol in the middle does not round-trip".into(), format!("history {:?} rejected at {pos}: decoded {:?}", h, dec)); }
            }
            // ---------------- chain coder (encoding side): first decode len symbols from data, then re-encode with a rejected symbol in between
            {
                type CC = ChainCoder<u8, u32, Vec<u8>, Vec<u8>, 8>;
                let data: Vec<u8> = (0..12u8).map(|i| i.wrapping_mul(37).wrapping_add(11)).collect();
                let mut c = CC::from_binary(data.clone()).unwrap();
                let syms: Vec<usize> = h.iter().map(|_| c.decode_symbol(&cat).unwrap()).collect();
                let back: Vec<usize> = syms.iter().rev().copied().collect();
                for &s in &back[..pos] { c.encode_symbol(s, &cat).unwrap(); }
                let before = format!("{:?}", c);
                for &b in bad_cat.iter() {
                    n += 1;
                    let r = c.encode_symbol(b, &cat);
                    let ok = matches!(r, Err(CoderError::Frontend(constriction::stream::chain::EncoderFrontendError::ImpossibleSymbol)));
                    if !ok { viol(report, "ChainCoder::encode_symbol | impossible symbol not rejected with ImpossibleSymbol".into(), format!("after re-encoding {pos} symbols, symbol {b}: {:?}", r)); }
                    if format!("{:?}", c) != before { viol(report, "ChainCoder::encode_symbol | coder changed by a rejected symbol".into(), format!("after re-encoding {pos} of {:?}, symbol {b}", back)); }
                }
                for &s in &back[pos..] { c.encode_symbol(s, &cat).unwrap(); }
                match c.into_binary() {
                    Ok((rem, comp)) => { if comp != data || !rem.is_empty() { viol(report, "ChainCoder | history with a rejected symbol in the middle does not restore the data".into(), format!("history {:?} at {pos}", h)); } }
                    Err(_) => viol(report, "ChainCoder | history with a rejected symbol in the middle does not restore the data".into(), format!("history {:?} at {pos}: into_binary refused", h)),
                }
            }
            // ---------------- bit-level coders with a Huffman codebook over 4 symbols
            {
                let henc = EncoderHuffmanTree::from_probabilities::<u32, _>(&[5u32, 1, 2, 2]);
                let hdec = DecoderHuffmanTree::from_probabilities::<u32, _>(&[5u32, 1, 2, 2]);
                let mut st = StackCoder::<u8>::new();
                let mut qu = QueueEncoder::<u8>::new();
                for &s in &h[..pos] { st.encode_symbol(s, &henc).unwrap(); qu.encode_symbol(s, &henc).unwrap(); }
                let (bs, bq) = (format!("{:?}", st), format!("{:?}", qu));
                for b in [4usize, 5, 7, 8, usize::MAX] {
                    n += 2;
                    let r1 = st.encode_symbol(b, &henc);
                    let r2 = qu.encode_symbol(b, &henc);
                    if !is_impossible(&r1) || !is_impossible(&r2) { viol(report, "Huffman codebook on a bit coder | impossible symbol not rejected with ImpossibleSymbol".into(), format!("symbol {b}: {:?} {:?}", r1, r2)); }
                    if format!("{:?}", st) != bs || format!("{:?}", qu) != bq { viol(report, "Huffman codebook on a bit coder | coder changed by a rejected symbol".into(), format!("history {:?} then {b}", &h[..pos])); }
                }
                for &s in &h[pos..] { st.encode_symbol(s, &henc).unwrap(); qu.encode_symbol(s, &henc).unwrap(); }
                let ds: Vec<Option<usize>> = h.iter().rev().map(|_| st.decode_symbol(&hdec).ok()).collect();
                let mut qd = qu.into_decoder().unwrap_infallible();
                let dq: Vec<Option<usize>> = h.iter().map(|_| qd.decode_symbol(&hdec).ok()).collect();
                if ds != h.iter().rev().map(|&s| Some(s)).collect::<Vec<_>>() || dq != h.iter().map(|&s| Some(s)).collect::<Vec<_>>() {
                    viol(report, "Huffman codebook on a bit coder | history with a rejected symbol in the middle does not round-trip".into(), format!("history {:?} at {pos}", h));
                }
            }
        }
    }
    report.count("rejected_symbol_insertions", n);
    report.add_states(hs.len() as u64);
    report.add_transitions(n);
    report.add_traces(hs.iter().map(|h| h.len() as u64 + 1).sum::<u64>() * 4);
    report.sample(json!({"history": [0, 3, 1], "insert_at": 2, "impossible_symbols_tried": bad_uni, "coders": ["AnsCoder<u8,u32>", "RangeEncoder<u8,u32>", "ChainCoder<u8,u32,8>", "StackCoder/QueueEncoder + Huffman"]}));
    report.section(json!({"part": "B: impossible symbol at every position of every history", "symbols": 4, "max_history_len": depth, "histories": hs.len(), "rejected_insertions": n}));
}

// ------------------------------------------------------------------------------------------
// (C) fault enumeration on the ANS coder's sink

pub fn faults_part(report: &Report, depth: usize) {
    let cat: Cat8 = Cat8::from_nonzero_fixed_point_probabilities([100u8, 1, 55, 100], false).unwrap();
    let hs = histories(4, depth);
    let mut n = 0u64;
    let mut failures = 0u64;
    let mut guard_failures = 0u64;
    for h in &hs {
        // how many words does the unbounded coder need?
        let mut full = AnsCoder::<u8, u32>::new();
        for &s in h { full.encode_symbol(s, &cat).unwrap(); }
        let needed = full.bulk().len();
        // ---- bounded sink of every capacity
        for cap in 0..=needed + 1 {
            let mut c = AnsCoder::<u8, u32, Cursor<u8, Vec<u8>>>::from_raw_parts(Cursor::new_at_write_beginning(vec![0xEE; cap]), 0);
            let mut done = 0usize;
            let mut failed = false;
            for (i, &s) in h.iter().enumerate() {
                let before = (c.bulk().buf().clone(), c.bulk().pos(), c.state());
                n += 1;
                match c.encode_symbol(s, &cat) {
                    Ok(()) => done = i + 1,
                    Err(CoderError::Backend(BoundedWriteError::OutOfSpace)) => {
                        failed = true;
                        failures += 1;
                        let after = (c.bulk().buf().clone(), c.bulk().pos(), c.state());
                        if after.1 != before.1 || after.2 != before.2 || after.0[..after.1] != before.0[..before.1] {
                            viol(report, "AnsCoder::encode_symbol on a full bounded backend | coder changed by the failed write".into(),
                                format!("history {:?} capacity {cap}: symbol #{i}: (pos {}, state {:x}) -> (pos {}, state {:x})", h, before.1, before.2, after.1, after.2));
                        }
                        break;
                    }
                    Err(e) => { viol(report, "AnsCoder::encode_symbol on a full bounded backend | wrong error".into(), format!("history {:?} capacity {cap}: {:?}", h, e)); break; }
                }
            }
            if !failed && cap < needed { viol(report, "AnsCoder::encode_symbol on a bounded backend | wrote beyond the capacity".into(), format!("history {:?} capacity {cap} needed {needed}", h)); }
            // everything encoded before the failure still decodes
            let mut d = c.clone();
            let dec: Vec<Option<usize>> = (0..done).map(|_| d.decode_symbol(&cat).ok()).collect();
            if dec != h[..done].iter().rev().map(|&s| Some(s)).collect::<Vec<_>>() {
                viol(report, "AnsCoder on a bounded backend | symbols encoded before a failed write do not decode".into(), format!("history {:?} capacity {cap}: decoded {:?}", h, dec));
            }
            // encoding continues after room is made (pop one symbol, then push it again); a second refused
            // write in between must be as harmless as the first
            if failed && done > 0 {
                let _ = c.encode_symbol(h[done], &cat);
                let s_top = match c.decode_symbol(&cat) { Ok(s) => s, Err(_) => { viol(report, "AnsCoder on a bounded backend | cannot decode after a refused write".into(), format!("history {:?} capacity {cap}", h)); continue; } };
                if c.encode_symbol(s_top, &cat).is_err() {
                    viol(report, "AnsCoder on a bounded backend | cannot continue encoding after room was made".into(), format!("history {:?} capacity {cap}", h));
                }
                let mut d = c.clone();
                let dec: Vec<Option<usize>> = (0..done).map(|_| d.decode_symbol(&cat).ok()).collect();
                if dec != h[..done].iter().rev().map(|&s| Some(s)).collect::<Vec<_>>() {
                    viol(report, "AnsCoder on a bounded backend | corrupted after failure + pop + push".into(), format!("history {:?} capacity {cap}", h));
                }
            }
            // inspection on a sink that cannot take all state words must fail cleanly and leave the coder intact
            {
                let before = (c.bulk().buf()[..c.bulk().pos()].to_vec(), c.bulk().pos(), c.state());
                let state_words = (32 - c.state().leading_zeros() as usize + 7) / 8;
                let room = cap - c.bulk().pos();
                let r = c.get_compressed().map(|g| g.buf()[..g.pos()].to_vec());
                n += 1;
                match r {
                    Ok(view) => {
                        if room < state_words { viol(report, "AnsCoder::get_compressed on a bounded backend | succeeded without room for the state".into(), format!("history {:?} capacity {cap}", h)); }
                        let mut exp = before.0.clone();
                        let mut st = before.2;
                        while st != 0 { exp.push(st as u8); st >>= 8; }
                        if view != exp { viol(report, "AnsCoder::get_compressed on a bounded backend | wrong view".into(), format!("history {:?} capacity {cap}: {:x?} vs {:x?}", h, view, exp)); }
                    }
                    Err(_) => {
                        guard_failures += 1;
                        if room >= state_words { viol(report, "AnsCoder::get_compressed on a bounded backend | failed although there was room".into(), format!("history {:?} capacity {cap}", h)); }
                    }
                }
                let after = (c.bulk().buf()[..c.bulk().pos()].to_vec(), c.bulk().pos(), c.state());
                if after != before {
                    viol(report, "AnsCoder::get_compressed on a bounded backend | coder corrupted by a (partially) failing write of the state words".into(),
                        format!("history {:?} capacity {cap}: (words {:x?}, pos {}, state {:x}) -> (words {:x?}, pos {}, state {:x})", h, before.0, before.1, before.2, after.0, after.1, after.2));
                }
                let mut d = c.clone();
                let dec: Vec<Option<usize>> = (0..done).map(|_| d.decode_symbol(&cat).ok()).collect();
                if dec != h[..done].iter().rev().map(|&s| Some(s)).collect::<Vec<_>>() {
                    viol(report, "AnsCoder::get_compressed on a bounded backend | coder corrupted by a (partially) failing write of the state words".into(), format!("history {:?} capacity {cap}: later decode {:?}", h, dec));
                }
            }
        }
        // ---- the same fault points on a bounded REVERSED cursor (writes run towards the start of the buffer)
        for cap in 0..=needed + 1 {
            let mut c = AnsCoder::<u8, u32, Reverse<Cursor<u8, Vec<u8>>>>::from_raw_parts(Cursor::new_at_write_beginning(vec![0xEE; cap]).into_reversed(), 0);
            let mut done = 0usize;
            let mut failed = false;
            for (i, &s) in h.iter().enumerate() {
                let before = (c.bulk().0.pos(), c.state());
                n += 1;
                match c.encode_symbol(s, &cat) {
                    Ok(()) => done = i + 1,
                    Err(CoderError::Backend(BoundedWriteError::OutOfSpace)) => {
                        failed = true;
                        failures += 1;
                        let after = (c.bulk().0.pos(), c.state());
                        if after != before {
                            viol(report, "AnsCoder::encode_symbol on a full bounded reversed backend | coder changed by the failed write".into(),
                                format!("history {:?} capacity {cap}: symbol #{i}: (pos {}, state {:x}) -> (pos {}, state {:x})", h, before.0, before.1, after.0, after.1));
                        }
                        break;
                    }
                    Err(e) => { viol(report, "AnsCoder::encode_symbol on a full bounded reversed backend | wrong error".into(), format!("history {:?} capacity {cap}: {:?}", h, e)); break; }
                }
            }
            if !failed && cap < needed { viol(report, "AnsCoder::encode_symbol on a bounded reversed backend | wrote beyond the capacity".into(), format!("history {:?} capacity {cap} needed {needed}", h)); }
            let expect: Vec<Option<usize>> = h[..done].iter().rev().map(|&s| Some(s)).collect();
            let mut d = AnsCoder::<u8, u32, Reverse<Cursor<u8, Vec<u8>>>>::from_raw_parts(Reverse(c.bulk().0.clone()), c.state());
            let dec: Vec<Option<usize>> = (0..done).map(|_| d.decode_symbol(&cat).ok()).collect();
            if dec != expect {
                viol(report, "AnsCoder on a bounded reversed backend | symbols encoded before a failed write do not decode".into(), format!("history {:?} capacity {cap}: decoded {:?}", h, dec));
            }
            // a temporary view on the reversed bounded sink (it writes the state words and takes them back): whether it
            // succeeds or fails for lack of room, the coder is as before
            {
                let before = (c.bulk().0.pos(), c.state(), c.bulk().0.buf().clone());
                let ok = c.get_compressed().is_ok();
                n += 1;
                if !ok { guard_failures += 1; }
                let after = (c.bulk().0.pos(), c.state(), c.bulk().0.buf().clone());
                let kept = |x: &(usize, u32, Vec<u8>)| x.2[x.0..].to_vec();
                if after.0 != before.0 || after.1 != before.1 || kept(&after) != kept(&before) {
                    viol(report, "AnsCoder::get_compressed on a bounded reversed backend | coder changed by the (failing) temporary write of the state words".into(),
                        format!("history {:?} capacity {cap}: view {}: (pos {}, state {:x}) -> (pos {}, state {:x})", h, if ok { "succeeded" } else { "failed" }, before.0, before.1, after.0, after.1));
                }
                let mut d = AnsCoder::<u8, u32, Reverse<Cursor<u8, Vec<u8>>>>::from_raw_parts(Reverse(c.bulk().0.clone()), c.state());
                let dec: Vec<Option<usize>> = (0..done).map(|_| d.decode_symbol(&cat).ok()).collect();
                if dec != expect {
                    viol(report, "AnsCoder::get_compressed on a bounded reversed backend | coder changed by the (failing) temporary write of the state words".into(), format!("history {:?} capacity {cap}: later decode {:?}", h, dec));
                }
            }
            if failed && done > 0 {
                // a second refused write must be as harmless as the first, then room is made and encoding continues
                let _ = c.encode_symbol(h[done], &cat);
                let s_top = match c.decode_symbol(&cat) { Ok(s) => s, Err(_) => { viol(report, "AnsCoder on a bounded reversed backend | cannot decode after a refused write".into(), format!("history {:?} capacity {cap}", h)); continue; } };
                if c.encode_symbol(s_top, &cat).is_err() {
                    viol(report, "AnsCoder on a bounded reversed backend | cannot continue encoding after room was made".into(), format!("history {:?} capacity {cap}", h));
                }
                let mut d = AnsCoder::<u8, u32, Reverse<Cursor<u8, Vec<u8>>>>::from_raw_parts(Reverse(c.bulk().0.clone()), c.state());
                let dec: Vec<Option<usize>> = (0..done).map(|_| d.decode_symbol(&cat).ok()).collect();
                if dec != expect {
                    viol(report, "AnsCoder on a bounded reversed backend | corrupted after failure + pop + push".into(), format!("history {:?} capacity {cap}: {:?}", h, dec));
                }
            }
        }
        // ---- callback sink failing at its k-th call (k = 1..=needed), then recovering
        for k in 1..=needed {
            let sink = std::cell::RefCell::new(Vec::<u8>::new());
            let calls = std::cell::Cell::new(0usize);
            let cb = |w: u8| -> Result<(), &'static str> {
                calls.set(calls.get() + 1);
                if calls.get() == k { Err("sink failure") } else { sink.borrow_mut().push(w); Ok(()) }
            };
            let mut c = AnsCoder::<u8, u32, _>::from_raw_parts(FallibleCallbackWriteWords::new(cb), 0);
            let mut saw_failure = false;
            for (i, &s) in h.iter().enumerate() {
                let before = c.state();
                n += 1;
                match c.encode_symbol(s, &cat) {
                    Ok(()) => {}
                    Err(CoderError::Backend("sink failure")) => {
                        saw_failure = true;
                        failures += 1;
                        if c.state() != before { viol(report, "AnsCoder::encode_symbol on a failing callback backend | state changed by the failed write".into(), format!("history {:?} failure at call {k}, symbol #{i}", h)); }
                        // retry: the sink works again
                        if c.encode_symbol(s, &cat).is_err() { viol(report, "AnsCoder::encode_symbol on a failing callback backend | retry fails".into(), format!("history {:?} k {k}", h)); }
                    }
                    Err(e) => viol(report, "AnsCoder::encode_symbol on a failing callback backend | wrong error".into(), format!("{:?}", e)),
                }
            }
            if !saw_failure { viol(report, "HARNESS-CHECK | callback failure point not reached".into(), format!("history {:?} k {k} needed {needed}", h)); }
            let state = c.state();
            drop(c);
            let words = sink.into_inner();
            let mut d = AnsCoder::<u8, u32>::from_raw_parts(words, state);
            let dec: Vec<Option<usize>> = h.iter().map(|_| d.decode_symbol(&cat).ok()).collect();
            if dec != h.iter().rev().map(|&s| Some(s)).collect::<Vec<_>>() || !d.is_empty() {
                viol(report, "AnsCoder on a failing callback backend | message does not decode after failure + retry".into(), format!("history {:?} failure at call {k}: decoded {:?}", h, dec));
            }
        }
    }
    report.count("encode_calls_on_fallible_sinks", n);
    report.count("write_failures_injected", failures);
    report.count("inspections_that_failed_for_lack_of_room", guard_failures);
    report.add_transitions(n);
    report.add_traces(hs.len() as u64);
    report.section(json!({"part": "C: fault enumeration (bounded Cursor sink of every capacity; callback sink failing at every k)", "histories": hs.len(), "max_history_len": depth,
        "encode_calls": n, "write_failures_injected": failures, "failing_inspections": guard_failures}));
    let _ = to_u128::<u8>;
}

pub fn run(report: &Report) {
    let q = report.tier == Tier::Quick;
    report.bound("(A) 9 model types x dense out-of-support candidates; (B) all histories of length <= d over 4 symbols x every insertion position x 7-8 impossible symbols x 4 coder families; (C) same histories x every sink capacity 0..=needed+1 and every failing call index k");
    report.assume("ANS fault enumeration uses AnsCoder<u8,u32> so that multi-word states and word flushes occur within depth 5");
    for n in ["model_level_symbol_queries", "rejected_symbol_insertions", "write_failures_injected", "inspections_that_failed_for_lack_of_room"] {
        report.require(n);
    }
    models_part(report);
    coders_part(report, if q { 6 } else { 7 });
    faults_part(report, if q { 7 } else { 8 });
    // impossible symbols inside BATCH calls (encode_symbols, the _reverse / try_ / iid forms): the batch must stop
    // at the impossible symbol exactly like the per-symbol loop and leave the coder as the loop does
    super::c01::batch_forms::<crate::models::U8U32>(report, if q { 3 } else { 4 });
    super::c01::batch_forms::<crate::models::U32U64>(report, 2);
    super::pyfront::sweep(report, "misuse", 0,
        "Python AnsCoder / RangeEncoder / ChainCoder, fresh and after 3 symbols: symbol and parameter arrays of every pair of different lengths 0..4, parameter arrays of different lengths, int64 / uint32 / float symbol arrays and scalar symbols holding values that do not fit (incl. values whose low 32 bits are a support symbol), a scalar symbol with parameter arrays: the call raises and the coder is unchanged",
        &[], &[]);
    super::pyfront::sweep(report, "impossible", if q { 3 } else { 5 },
        "Python AnsCoder, RangeEncoder and ChainCoder x 4 models x every message up to the listed length x every insertion position x 4-8 impossible symbols (incl. values aliasing a support symbol modulo 2^24 and 2^32 boundaries): KeyError, coder unchanged, the history round-trips; array batches containing an impossible symbol leave exactly the symbols coded before it",
        &[], &[]);
}

pub fn replay(_case: &serde_json::Value) -> Result<String, String> {
    Err("C09 violations carry the failing history / capacity / symbol in 'detail'; re-run ./check C09 (deterministic)".into())
}
