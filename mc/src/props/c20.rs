//! C20 — no sequence of safe API calls causes undefined behaviour.
//!
//! Every explorer of this crate runs with std's unsafe-precondition checks, overflow checks and
//! debug assertions compiled into `constriction`; C20 re-runs the input sweeps of C19 and C10 in
//! classification mode and adds hostile programs that use only the safe public API:
//!   * buffers manipulated through `Cursor::buf_mut()` followed by every backend operation;
//!   * `Cursor` constructors / `seek` / `into_reversed` with every position;
//!   * user-written (safe) `IterableEntropyModel` impls with truncated, overfull, non-monotone or
//!     empty tables pushed through every conversion and then queried everywhere;
//!   * every decoder model's `quantile_function` at EVERY value of its probability type;
//!   * coders built with `from_raw_parts` from arbitrary (also invariant-violating) raw states.
//! A child that aborts (`unsafe precondition(s) violated`, allocation failure), dies on a signal,
//! hangs, or panics with `attempt to ... with overflow` raised inside the library is a violation;
//! error values and any other panic are fine.

use crate::isolate::{guarded, run_isolated, ChildSink, Outcome};
use crate::models::Part;
use crate::report::{Report, Tier, Violation};
use constriction::backends::*;
use constriction::stream::model::*;
use constriction::stream::queue::{EncoderSituation, RangeCoderState, RangeDecoder, RangeEncoder};
use constriction::stream::stack::AnsCoder;
use constriction::stream::{Decode, Encode};
use constriction::{Pos, Queue, Seek, Stack};
use core::num::{NonZeroU16, NonZeroU8};
use probability::distribution::Gaussian;
use serde_json::json;

/// runs a hostile program; clean outcomes are fine, overflow panics are recorded
fn hostile(sink: &mut ChildSink, i: u64, what: &str, desc: impl Fn() -> String, f: impl FnOnce()) {
    sink.count("hostile_programs", 1);
    match guarded(f) {
        Outcome::Value(()) => sink.count("programs_ending_in_a_value_or_error", 1),
        Outcome::CleanPanic { .. } => sink.count("programs_ending_in_a_clean_panic", 1),
        Outcome::OverflowPanic { msg, loc } => sink.violation(
            &format!("{what} | arithmetic that only works because release builds wrap ({}: {msg})", loc.rsplit_once(':').map(|x| x.0).unwrap_or(&loc)),
            &desc(),
            i,
        ),
    }
}

// ---------------------------------------------------------------- cursor programs
// index space: len 0..=4, pos 0..=len, mutation 0..8, op 0..16
const N_MUT: u64 = 8;
const N_OP: u64 = 16;

fn cursor_cases() -> Vec<(usize, usize)> {
    let mut v = vec![];
    for len in 0..=4usize {
        for pos in 0..=len {
            v.push((len, pos));
        }
    }
    v
}

fn cursor_program(i: u64, sink: &mut ChildSink) {
    let cases = cursor_cases();
    let (len, pos) = cases[(i / (N_MUT * N_OP)) as usize];
    let mutation = (i / N_OP) % N_MUT;
    let op = i % N_OP;
    let desc = move || format!("Cursor over {len} words at pos {pos}; buf_mut mutation #{mutation} (0 none, 1 clear, 2 truncate(len-1), 3 truncate(pos-1), 4 push, 5 replace by 1 word, 6 truncate(0)+push, 7 shrink_to_fit after clear); then operation #{op}");
    hostile(sink, i, "Cursor after Cursor::buf_mut", desc, || {
        let buf: Vec<u32> = (0..len as u32).map(|x| 100 + x).collect();
        let mut c = Cursor::new_at_pos(buf, pos).unwrap();
        match mutation {
            0 => {}
            1 => c.buf_mut().clear(),
            2 => { let l = c.buf_mut().len(); c.buf_mut().truncate(l.saturating_sub(1)) }
            3 => c.buf_mut().truncate(pos.saturating_sub(1)),
            4 => c.buf_mut().push(7),
            5 => *c.buf_mut() = vec![1],
            6 => { c.buf_mut().truncate(0); c.buf_mut().push(9) }
            _ => { c.buf_mut().clear(); c.buf_mut().shrink_to_fit() }
        }
        match op {
            0 => { let _ = ReadWords::<u32, Stack>::read(&mut c); let _ = ReadWords::<u32, Stack>::read(&mut c); }
            1 => { let _ = ReadWords::<u32, Queue>::read(&mut c); let _ = ReadWords::<u32, Queue>::read(&mut c); }
            2 => { let _ = c.write(5); let _ = c.write(6); }
            3 => { let _ = BoundedWriteWords::<u32>::space_left(&c); let _ = BoundedWriteWords::<u32>::is_full(&c); }
            4 => { let _ = BoundedReadWords::<u32, Stack>::remaining(&c); let _ = BoundedReadWords::<u32, Stack>::is_exhausted(&c); }
            5 => { let _ = BoundedReadWords::<u32, Queue>::remaining(&c); let _ = BoundedReadWords::<u32, Queue>::is_exhausted(&c); }
            6 => { let mut r = c.into_reversed(); let _ = ReadWords::<u32, Stack>::read(&mut r); let _ = ReadWords::<u32, Queue>::read(&mut r); let _ = r.write(3); }
            7 => { let mut r = Reverse(c); let _ = r.write(3); let _ = r.write(4); let _ = BoundedWriteWords::<u32>::space_left(&r); }
            8 => { let mut r = Reverse(c); let _ = ReadWords::<u32, Queue>::read(&mut r); let _ = ReadWords::<u32, Stack>::read(&mut r); let _ = BoundedReadWords::<u32, Stack>::remaining(&r); let _ = BoundedReadWords::<u32, Queue>::remaining(&r); }
            9 => { for p in 0..=6 { let _ = c.seek(p); let _ = ReadWords::<u32, Stack>::read(&mut c); } }
            10 => { let v = c.as_view(); let mut v2 = v.clone(); let _ = ReadWords::<u32, Stack>::read(&mut v2); let k = c.cloned(); let _ = BoundedReadWords::<u32, Queue>::remaining(&k); }
            11 => { let mut v = c.as_mut_view(); let _ = v.write(1); let _ = ReadWords::<u32, Stack>::read(&mut v); }
            12 => { // as the bulk of an ANS coder
                let mut a = AnsCoder::<u32, u64, _>::from_raw_parts(c, 1 << 40);
                let m = UniformModel::<u32, 24>::new(10);
                let _ = a.decode_symbol(m); let _ = a.decode_symbol(m); let _ = a.encode_symbol(3usize, m); let _ = a.encode_symbol(3usize, m); let _ = a.encode_symbol(3usize, m);
            }
            13 => { // as the source of a range decoder
                if let Ok(mut d) = RangeDecoder::<u32, u64, _>::with_backend(c) { let m = UniformModel::<u32, 24>::new(10); for _ in 0..4 { let _ = d.decode_symbol(m); } let _ = d.maybe_exhausted(); }
            }
            14 => { let (b, p) = c.into_buf_and_pos(); let _ = Cursor::<u32, _>::new_at_pos(b, p); }
            _ => { let mut r = c.into_reversed(); let _ = r.write(1); let mut back = r.into_reversed(); let _ = ReadWords::<u32, Stack>::read(&mut back); let _ = BoundedWriteWords::<u32>::space_left(&back); }
        }
    });
}

// ---------------------------------------------------------------- user-written table models
#[derive(Clone, Debug)]
pub struct Rows8 {
    pub rows: Vec<(u8, u8, u8)>, // (symbol, cumulative, probability != 0)
}
impl EntropyModel<4> for Rows8 {
    type Symbol = u8;
    type Probability = u8;
}
impl<'m> IterableEntropyModel<'m, 4> for Rows8 {
    fn symbol_table(&'m self) -> impl Iterator<Item = (u8, u8, NonZeroU8)> {
        self.rows.iter().map(|&(s, c, p)| (s, c, NonZeroU8::new(p).unwrap()))
    }
}
#[derive(Clone, Debug)]
struct Rows16 {
    rows: Vec<(u8, u16, u16)>,
}
impl EntropyModel<12> for Rows16 {
    type Symbol = u8;
    type Probability = u16;
}
impl<'m> IterableEntropyModel<'m, 12> for Rows16 {
    fn symbol_table(&'m self) -> impl Iterator<Item = (u8, u16, NonZeroU16)> {
        self.rows.iter().map(|&(s, c, p)| (s, c, NonZeroU16::new(p).unwrap()))
    }
}

pub fn table_cases() -> Vec<Vec<(u8, u8, u8)>> {
    // every table of 0..=2 rows over cumulative in {0,5,15} and probability in {1,8,15,16,200}, plus classics
    let cs = [0u8, 5, 15];
    let ps = [1u8, 8, 15, 16, 200];
    let mut v: Vec<Vec<(u8, u8, u8)>> = vec![vec![]];
    for &c in &cs { for &p in &ps { v.push(vec![(0, c, p)]); } }
    for &c1 in &cs { for &p1 in &ps { for &c2 in &cs { for &p2 in &ps { v.push(vec![(0, c1, p1), (1, c2, p2)]); v.push(vec![(3, c1, p1), (3, c2, p2)]); } } } }
    v.push(vec![(0, 0, 4), (1, 4, 4), (2, 8, 4), (3, 12, 4)]); // valid
    v.push(vec![(0, 0, 4), (1, 4, 4), (2, 8, 4)]); // truncated
    v.push(vec![(0, 0, 8), (1, 8, 8), (2, 16, 8)]); // overfull
    v.push(vec![(0, 8, 8), (1, 0, 8)]); // non-monotone
    // tables that overshoot 2^P, wrap around the probability type once or twice and land on 2^P again
    v.push(vec![(0, 0, 200), (1, 200, 72)]);
    v.push(vec![(0, 0, 128), (1, 128, 128), (2, 0, 16)]);
    v.push(vec![(0, 0, 255), (1, 255, 17)]);
    v.push(vec![(0, 0, 200), (1, 200, 200), (2, 144, 128)]);
    v.push(vec![(0, 0, 16), (1, 16, 255), (2, 15, 1)]);
    v
}
const N_TABLE_OPS: u64 = 4;

fn table_program(i: u64, sink: &mut ChildSink) {
    let cases = table_cases();
    let t = cases[(i / N_TABLE_OPS) as usize].clone();
    let op = i % N_TABLE_OPS;
    let desc = format!("user IterableEntropyModel<4> with rows (symbol, cumulative, probability) {:?}; conversion #{op} (0 generic encoder, 1 generic decoder, 2 generic lookup decoder, 3 diagnostics); then all queries", t);
    let what = "conversion of a user-written IterableEntropyModel";
    let m = Rows8 { rows: t };
    sink.count("hostile_programs", 1);
    // every query is judged on its own: a clean panic at one quantile must not hide an abort at the next
    let mut judge = |sink: &mut ChildSink, o: Outcome<()>| match o {
        Outcome::Value(()) => sink.count("programs_ending_in_a_value_or_error", 1),
        Outcome::CleanPanic { .. } => sink.count("programs_ending_in_a_clean_panic", 1),
        Outcome::OverflowPanic { msg, loc } => sink.violation(&format!("{what} | arithmetic that only works because release builds wrap ({}: {msg})", loc.rsplit_once(':').map(|x| x.0).unwrap_or(&loc)), &desc, i),
    };
    match op {
        0 => {
            if let Outcome::Value(g) = guarded(|| m.to_generic_encoder_model()) {
                for s in 0..=5u8 { let o = guarded(|| { let _ = g.left_cumulative_and_probability(s); }); judge(sink, o); }
                let o = guarded(|| { let _ = g.entropy_base2::<f64>(); }); judge(sink, o);
            } else { sink.count("programs_ending_in_a_clean_panic", 1); }
        }
        1 => {
            match guarded(|| m.to_generic_decoder_model()) {
                Outcome::Value(g) => {
                    for q in 0..=255u8 { let o = guarded(|| { let _ = g.quantile_function(q); }); judge(sink, o); }
                    let o = guarded(|| { let _ = g.support_size(); let _: Vec<_> = g.symbol_table().collect(); let _ = g.as_view().quantile_function(3); }); judge(sink, o);
                }
                Outcome::CleanPanic { .. } => sink.count("programs_ending_in_a_clean_panic", 1),
                o => judge(sink, match o { Outcome::OverflowPanic { msg, loc } => Outcome::OverflowPanic { msg, loc }, _ => Outcome::Value(()) }),
            }
        }
        2 => {
            match guarded(|| m.to_generic_lookup_decoder_model()) {
                Outcome::Value(g) => {
                    for q in 0..=255u8 { let o = guarded(|| { let _ = g.quantile_function(q); }); judge(sink, o); }
                    let o = guarded(|| { let _ = g.as_view().quantile_function(3); let _: Vec<_> = g.symbol_table().collect(); }); judge(sink, o);
                }
                Outcome::CleanPanic { .. } => sink.count("programs_ending_in_a_clean_panic", 1),
                o => judge(sink, match o { Outcome::OverflowPanic { msg, loc } => Outcome::OverflowPanic { msg, loc }, _ => Outcome::Value(()) }),
            }
        }
        _ => {
            let o = guarded(|| { let _ = m.entropy_base2::<f64>(); let _ = m.cross_entropy_base2::<f64>([0.5, 0.5]); let _ = m.kl_divergence_base2::<f64>([0.1, 0.9, 0.0]); let _: Vec<_> = m.floating_point_symbol_table::<f64>().collect(); });
            judge(sink, o);
        }
    }
}

// ---------------------------------------------------------------- quantile_function at every value of the probability type
const N_QMODELS: u64 = 12;
fn quantile_program(i: u64, sink: &mut ChildSink) {
    // i = model * 65536 + q   (u8 models only use q < 256)
    let model = i / 65536;
    let q = i % 65536;
    if model < 7 && q >= 256 {
        return;
    }
    let desc = move || format!("quantile_function({q}) on decoder model #{model} (0 contiguous<u8,4>, 1 lookup-contiguous<u8,4>, 2 lookup-non-contiguous<u8,5>, 3 non-contiguous<u8,3>, 4 lazy<u8,7>, 5 uniform<u8,4>, 6 quantised<u8,4>; 7.. the same over u16 at P=12)");
    hostile(sink, i, "DecoderModel::quantile_function at an arbitrary value of the probability type", desc, || {
        let q8 = q as u8;
        let q16 = q as u16;
        match model {
            0 => { let m = ContiguousCategoricalEntropyModel::<u8, Vec<u8>, 4>::from_nonzero_fixed_point_probabilities([3u8, 5, 8], false).unwrap(); let _ = m.quantile_function(q8); }
            1 => { let m = ContiguousLookupDecoderModel::<u8, Vec<u8>, Box<[u8]>, 4>::from_nonzero_fixed_point_probabilities([3u8, 5, 8], false).unwrap(); let _ = m.quantile_function(q8); }
            2 => { let m = NonContiguousLookupDecoderModel::<u32, u8, Vec<(u8, u32)>, Box<[u8]>, 5>::from_symbols_and_nonzero_fixed_point_probabilities([70u32, 3, 900, 12], [7u8, 1, 16, 8], false).unwrap(); let _ = m.quantile_function(q8); }
            3 => { let m = NonContiguousCategoricalDecoderModel::<u32, u8, Vec<(u8, u32)>, 3>::from_symbols_and_nonzero_fixed_point_probabilities([70u32, 3, 900], [1u8, 6, 1], false).unwrap(); let _ = m.quantile_function(q8); }
            4 => { let m = LazyContiguousCategoricalEntropyModel::<u8, f32, Vec<f32>, 7>::from_floating_point_probabilities_fast(vec![0.3f32, 0.2, 0.5], None).unwrap(); let _ = m.quantile_function(q8); }
            5 => { let m = UniformModel::<u8, 4>::new(10); let _ = m.quantile_function(q8); }
            6 => { let m = LeakyQuantizer::<f64, i32, u8, 4>::new(-3..=3).quantize(Gaussian::new(0.0, 2.0)); let _ = m.quantile_function(q8); }
            7 => { let m = ContiguousCategoricalEntropyModel::<u16, Vec<u16>, 12>::from_floating_point_probabilities_fast(&[0.1f64, 0.2, 0.7], None).unwrap(); let _ = m.quantile_function(q16); }
            8 => { let m = ContiguousLookupDecoderModel::<u16, Vec<u16>, Box<[u16]>, 12>::from_floating_point_probabilities_fast(&[0.1f64, 0.2, 0.7], None).unwrap(); let _ = m.quantile_function(q16); }
            9 => { let m = NonContiguousLookupDecoderModel::<u32, u16, Vec<(u16, u32)>, Box<[u16]>, 12>::from_symbols_and_floating_point_probabilities_fast([9u32, 2, 77], &[0.5f64, 0.25, 0.25], None).unwrap(); let _ = m.quantile_function(q16); }
            10 => { let m = UniformModel::<u16, 12>::new(1000); let _ = m.quantile_function(q16); }
            _ => { let m = LeakyQuantizer::<f64, i16, u16, 12>::new(-300..=300).quantize(Gaussian::new(0.0, 90.0)); let _ = m.quantile_function(q16); }
        }
    });
}

// ---------------------------------------------------------------- coders from arbitrary raw parts
fn raw_ans_program(i: u64, sink: &mut ChildSink) {
    // all 2^16 head values x 3 bulks x 4 ops on AnsCoder<u8,u16>
    let state = (i % 65536) as u16;
    let bulk_kind = (i / 65536) % 3;
    let op = i / (65536 * 3);
    let desc = move || format!("AnsCoder::<u8,u16>::from_raw_parts(bulk #{bulk_kind}, state {state:#x}) then operation #{op}");
    hostile(sink, i, "AnsCoder::from_raw_parts with an arbitrary state", desc, || {
        let bulk: Vec<u8> = match bulk_kind { 0 => vec![], 1 => vec![0], _ => vec![0xff, 0x00, 0x7f] };
        let mut a = AnsCoder::<u8, u16>::from_raw_parts(bulk, state);
        let lk = ContiguousLookupDecoderModel::<u8, Vec<u8>, Box<[u8]>, 8>::from_nonzero_fixed_point_probabilities([100u8, 1, 55, 100], false).unwrap();
        match op {
            0 => { for _ in 0..3 { let _ = a.decode_symbol(&lk); } }
            1 => { for _ in 0..3 { let _ = a.encode_symbol((), crate::models::Raw::<u8, 8> { c: 255, p: 1 }); } let _ = a.into_compressed(); }
            2 => { let _ = a.num_valid_bits(); let _ = a.num_words(); let _ = a.get_binary().map(|g| g.len()); let _ = a.clone().into_binary(); let _: Vec<u8> = a.iter_compressed().collect(); }
            _ => { let _ = a.decode_symbol(Part::<u8, 1> { c: 0, p: 1 }); let _ = a.encode_symbol((), crate::models::Raw::<u8, 1> { c: 1, p: 1 }); let _ = a.get_compressed().map(|g| g.len()); }
        }
    });
}

fn raw_range_program(i: u64, sink: &mut ChildSink) {
    // RangeEncoder::from_raw_parts / RangeDecoder::from_raw_parts over boundary values
    let vals: [u16; 8] = [0, 1, 0x00ff, 0x0100, 0x7fff, 0x8000, 0xff00, 0xffff];
    let words: [u8; 4] = [0, 1, 0xfe, 0xff];
    let lower = vals[(i % 8) as usize];
    let range = vals[((i / 8) % 8) as usize];
    let sit = (i / 64) % 9; // 0 normal, else inverted(n in {1,2}, word)
    let op = i / 576;
    let desc = move || format!("Range coder from_raw_parts(lower {lower:#x}, range {range:#x}, situation #{sit}) then operation #{op}");
    hostile(sink, i, "RangeEncoder/RangeDecoder::from_raw_parts with arbitrary parts", desc, || {
        let Ok(state) = RangeCoderState::<u8, u16>::new(lower, range) else { return };
        let situation = if sit == 0 { EncoderSituation::Normal } else { EncoderSituation::Inverted(core::num::NonZeroUsize::new(1 + ((sit - 1) / 4) as usize).unwrap(), words[((sit - 1) % 4) as usize]) };
        match op {
            0 => { let mut e = RangeEncoder::<u8, u16>::from_raw_parts(vec![3, 4], state, situation); for _ in 0..3 { let _ = e.encode_symbol((), crate::models::Raw::<u8, 8> { c: 255, p: 1 }); } let _ = e.into_compressed(); }
            1 => { let mut e = RangeEncoder::<u8, u16>::from_raw_parts(vec![], state, situation); let _ = e.num_words(); let _ = e.get_compressed().len(); let _ = e.encode_symbol((), crate::models::Raw::<u8, 2> { c: 1, p: 2 }); let _ = e.clear(); }
            2 => { let e = RangeEncoder::<u8, u16>::from_raw_parts(vec![0xff, 0xff], state, situation); let _ = e.into_compressed(); }
            _ => {
                for point in vals {
                    if let Ok(mut d) = RangeDecoder::<u8, u16, _>::from_raw_parts(Cursor::new_at_write_beginning(vec![1u8, 2, 3]), state, point) {
                        let lk = ContiguousLookupDecoderModel::<u8, Vec<u8>, Box<[u8]>, 8>::from_nonzero_fixed_point_probabilities([100u8, 1, 55, 100], false).unwrap();
                        for _ in 0..3 { let _ = d.decode_symbol(&lk); }
                        let _ = d.maybe_exhausted();
                    }
                }
            }
        }
    });
}

pub fn hostile_parts(tier: Tier) -> Vec<(&'static str, u64, u64, &'static str)> {
    let _ = tier;
    vec![
        ("hostile/cursor", cursor_cases().len() as u64 * N_MUT * N_OP, 64, "Cursor::buf_mut mutations x backend operations, buffer length <= 4, every position"),
        ("hostile/table", table_cases().len() as u64 * N_TABLE_OPS, 50, "user-written IterableEntropyModel tables (every table of <= 2 rows over boundary values + truncated/overfull/non-monotone) x every conversion, then all queries"),
        ("hostile/quantile", N_QMODELS * 65536, 8192, "quantile_function at every value of the probability type on 12 decoder models"),
        ("hostile/rawans", 65536 * 3 * 4, 16384, "AnsCoder<u8,u16>::from_raw_parts: all 65536 head values x 3 bulks x 4 operation groups"),
        ("hostile/rawrange", 576 * 4, 144, "RangeEncoder/RangeDecoder::from_raw_parts over boundary lower/range/situation/point values"),
        ("hostile/huffman", super::c20b::huffman_total(), 64, "Huffman trees from every weight vector of length <= 5 over {0,1,2,5} (u32, f32, and a weight type whose Ord is inconsistent in 6 ways) + hostile floats: every symbol 0..=2n+3 and far outside, every bit string of length <= 7"),
        ("hostile/bits", super::c20b::bits_total(), 256, "bit coders over arbitrary words; Exp-Golomb<u8> on every bit string of length <= 18, boundary prefixes for u16/u32/u64"),
        ("hostile/seek", super::c20b::seek_total(), 64, "seek((pos, state)) with every position 0..=len+2 x 10 boundary states on ANS / range decoders over owned, borrowed, consuming, reversed backends"),
        ("hostile/chain", super::c20b::chain_total(), 128, "ChainCoder constructors over word strings of length <= 3 (+ longer) x 10 hostile operation orders (incl. precision changes in the middle of decoding)"),
        ("hostile/model", super::c20b::liar_total(), 256, "user-written EncoderModel / DecoderModel impls that return arbitrary (left cumulative, probability) pairs (all ordered pairs over 7 x 5 boundary values, also pairs that do not fit the precision) and answer every quantile with a constant, at PRECISION 8 and 4, driven through AnsCoder<u8,u16> / <u8,u32>, RangeEncoder / RangeDecoder <u8,u16> / <u8,u32> and ChainCoder<u8,u16>: only memory safety is demanded"),
        ("hostile/faults", super::c20b::faults_total(), 43, "user-written ReadWords / WriteWords backends that return Err once / from then on / lie once (end of data that is not the end, a dropped word) at every call index 0..14, under RangeEncoder, RangeDecoder, AnsCoder (compressed / binary / raw parts), ChainCoder (3 constructors, Default-constructed second backend faulty as well), bit-level StackCoder / QueueEncoder / QueueDecoder and Exp-Golomb callbacks, each coder used on after the fault"),
        ("hostile/distribution", super::c20b::dist_total(), 64, "user-written Distribution / Inverse impls behind LeakyQuantizer (18 cdf shapes: constants 2 / 1 / 0 / -1 / NaN / +-inf / 1e300, decreasing, steps, sawtooth, zig-zag, unbounded, valid controls; 7 inverse hints) on 8 (Symbol, Probability, PRECISION) configurations x 4 supports: quantile_function at every quantile (P <= 12) or boundary quantiles, left_cumulative_and_probability, symbol_table"),
    ]
}

pub fn child(part: &str, from: u64, to: u64) -> i32 {
    crate::isolate::install_panic_recorder();
    let mut sink = ChildSink::default();
    for i in from..to {
        sink.begin_case(i);
        sink.n += 1;
        match part {
            "hostile/cursor" => cursor_program(i, &mut sink),
            "hostile/table" => table_program(i, &mut sink),
            "hostile/quantile" => quantile_program(i, &mut sink),
            "hostile/rawans" => raw_ans_program(i, &mut sink),
            "hostile/rawrange" => raw_range_program(i, &mut sink),
            "hostile/huffman" => super::c20b::huffman_program(i, &mut sink),
            "hostile/bits" => super::c20b::bits_program(i, &mut sink),
            "hostile/seek" => super::c20b::seek_program(i, &mut sink),
            "hostile/chain" => super::c20b::chain_program(i, &mut sink),
            "hostile/distribution" => super::c20b::dist_program(i, &mut sink),
            "hostile/faults" => super::c20b::faults_program(i, &mut sink),
            "hostile/model" => super::c20b::liar_program(i, &mut sink),
            other => { eprintln!("unknown hostile part {other}"); return 2; }
        }
    }
    sink.finish()
}

pub fn run(report: &Report) {
    report.bound("(i) the complete C19 constructor sweep and the complete C10 decoding sweep re-run in classification mode; (ii) hostile programs: every (buffer length <= 4, position, buf_mut mutation, backend operation) combination; every user table of <= 2 rows x conversions; quantile_function at every probability value on 12 models; AnsCoder from all 65536 raw head values; range coders from boundary raw parts; Huffman codebooks with every symbol in and around the alphabet and every short bit string; bit coders and Exp-Golomb on arbitrary bits; seek with arbitrary positions and states; ChainCoder in hostile orders");
    report.assume("memory-safety verdicts are those of std's unsafe-precondition checks (get_unchecked, NonZero::new_unchecked, unreachable_unchecked, slice::from_raw_parts ...), overflow checks and debug assertions compiled into constriction, on the executions enumerated");
    report.assume("a program's outcome is judged from the child's exit status and panic message; clean panics and error values are allowed");
    for n in ["hostile_programs", "programs_ending_in_a_clean_panic", "models_built", "symbols_decoded"] {
        report.require(n);
    }
    report.sample(json!({"hostile_program": "let mut c = Cursor::new_at_pos(vec![100,101,102], 3); c.buf_mut().clear(); ReadWords::<u32, Stack>::read(&mut c)", "allowed_outcomes": ["value", "Err", "clean panic"], "violations": ["abort: unsafe precondition(s) violated", "signal", "overflow panic inside the library", "hang"]}));
    let timeout = if report.tier == Tier::Quick { 90 } else { 600 };
    for (part, total, chunk, label) in hostile_parts(report.tier) {
        let t = std::time::Instant::now();
        let m = run_isolated("C20", part, total, chunk, timeout);
        report.add_states(m.cases);
        report.add_traces(m.cases);
        report.add_transitions(m.cases);
        for (k, v) in &m.counters { report.count(k, *v); }
        report.count("child_processes", m.children_spawned);
        for (identity, detail, i) in &m.violations {
            report.violation(Violation { identity: identity.clone(), detail: format!("{detail} [{part} case #{i}]"), case: json!({"kind": "hostile", "part": part, "index": i}) });
        }
        for a in &m.abnormal {
            report.count("cases_ending_in_abort_or_timeout", 1);
            let site: String = a.stderr_tail.split(" | ").find(|l| l.contains("unsafe precondition") || l.contains("panicked") || l.contains("memory allocation")).unwrap_or("").chars().take(160).collect();
            report.violation(Violation { identity: format!("{part} | process {} | {site}", a.kind), detail: format!("{part} case #{}: {}", a.index, a.stderr_tail), case: json!({"kind": "hostile", "part": part, "index": a.index}) });
        }
        if m.skipped > 0 { report.cap_hit(format!("{part}: {} cases not explored after {} aborting/hanging cases", m.skipped, m.abnormal.len())); }
        report.section(json!({"part": part, "what": label, "cases": m.cases, "child_processes": m.children_spawned, "aborts_or_timeouts": m.abnormal.len(), "violations": m.violations.len(), "wall_s": t.elapsed().as_secs_f64()}));
    }
    // (i) classification mode over the C19 and C10 spaces
    super::mfamily::run(report, "C20");
    super::c10::run_with(report, "C20");
    // the Python front end hands out and takes numpy arrays: a result that still points into a coder's buffer, or an
    // object that still points into the caller's array, is memory the safe side of the API must never expose
    super::pyfront::sweep(report, "views", 3,
        "Python front end: arrays returned by the coders stay what they were while the coder is used on (40 steps, across reallocations of its buffer); objects built from arrays do not follow later writes to those arrays",
        &["returned array", "still refers"], &[]);
    super::pyfront::sweep(report, "callbacks", 0,
        "Python front end: CustomModel callbacks returning ints, bools, numpy scalars or Fractions are refused or read as the same number; callbacks that are not cdfs never bring the interpreter down; a callback that re-enters the busy coder (9 inner calls x 4 invocation indices x 3 outer operations) is refused or harmless",
        &["another numeric type", "not a cdf", "re-entrant"], &[]);
}

pub fn replay(case: &serde_json::Value) -> Result<String, String> {
    match case["kind"].as_str() {
        Some("hostile") => {
            let part = case["part"].as_str().ok_or("part")?;
            let i = case["index"].as_u64().ok_or("index")?;
            let exe = std::env::current_exe().map_err(|e| e.to_string())?;
            let out = std::process::Command::new(exe).args(["child", "C20", part, &i.to_string(), &(i + 1).to_string()]).output().map_err(|e| e.to_string())?;
            if !out.status.success() {
                return Err(format!("{part} case #{i}: child ended with {:?}: {}", out.status, String::from_utf8_lossy(&out.stderr).lines().filter(|l| !l.starts_with('@')).last().unwrap_or("")));
            }
            let stdout = String::from_utf8_lossy(&out.stdout);
            let v: Vec<&str> = stdout.lines().filter(|l| l.contains("\"v\"")).collect();
            if v.is_empty() { Ok(format!("{part} case #{i}: ends in a value, an error or a clean panic")) } else { Err(v.join("\n")) }
        }
        Some("model_case") => super::mfamily::replay(case),
        Some("decode_case") => super::c10::replay(case),
        _ => Err("unknown case kind".into()),
    }
}
