//! C07 — random access: seeking to a recorded position resumes decoding exactly there.
//!
//! For every message of the walks: `pos()` recorded at EVERY symbol boundary (incl. 0 and the
//! final one, incl. while words are held back); decoders over owned, borrowed, reversed and
//! consuming backends; all ordered pairs of seeks (the decoder is moved by one decode between
//! them), after the last seek decode to the end / bottom and compare with the reference.
//! Positions beyond the data are rejected and leave the decoder usable.

use super::common::*;
use crate::dispatch_cfg;
use crate::models::{to_u128, Cfg, Letter};
use crate::report::{Report, Tier};
use crate::walk::{ans_walk, merge_accs, range_walk, Acc, AnsNode, RangeNode};
use constriction::backends::{Cursor, ReadWords, Reverse};
use constriction::stream::queue::{RangeCoderState, RangeDecoder, RangeEncoder};
use constriction::stream::stack::AnsCoder;
use constriction::stream::Code;
use constriction::{Pos, PosSeek, Queue, Seek, Stack};
use serde_json::json;

pub const NAMES: [&str; 10] = [
    "range_snapshots",
    "range_snapshots_taken_while_inverted",
    "range_seeks",
    "range_seek_to_final_position",
    "range_rejected_seeks",
    "ans_snapshots",
    "ans_seeks",
    "ans_rejected_seeks",
    "ans_vec_backend_seeks_refused_because_truncated",
    "decoder_kinds_exercised",
];

type RSnap<C> = (usize, RangeCoderState<<C as Cfg>::W, <C as Cfg>::S>);

/// A user-written seekable word source: forwards reading, `pos` and `seek` to a cursor but keeps the DEFAULT
/// `maybe_exhausted` of the trait ("maybe": always true), as any backend written outside the crate may.
struct Plain<W>(Cursor<W, Vec<W>>);
impl<W> constriction::PosSeek for Plain<W> { type Position = usize; }
impl<W: Clone> ReadWords<W, Queue> for Plain<W> {
    type ReadError = core::convert::Infallible;
    fn read(&mut self) -> Result<Option<W>, Self::ReadError> { ReadWords::<W, Queue>::read(&mut self.0) }
}
impl<W> Seek for Plain<W> {
    fn seek(&mut self, pos: usize) -> Result<(), ()> { self.0.seek(pos) }
}

/// all checks for one range decoder kind; `mk` builds a fresh decoder, `map` mirrors positions
fn range_seek_checks<C: Cfg, B>(
    kind: &str,
    mk: &dyn Fn() -> RangeDecoder<C::W, C::S, B>,
    map: &dyn Fn(usize) -> usize,
    beyond: &[usize],
    hist: &[Letter],
    snaps: &[RSnap<C>],
    out: &mut Vec<(String, String)>,
    acc: &mut [u64; 4],
) where
    B: ReadWords<C::W, Queue> + Seek + PosSeek<Position = usize>,
    B::ReadError: core::fmt::Debug,
{
    let n = hist.len();
    let fail = |out: &mut Vec<(String, String)>, what: &str, detail: String| {
        out.push((format!("RangeDecoder::seek | {kind} | {what}"), format!("{}: history {:?}: {detail}", C::NAME, hist)));
    };
    for i in 0..=n {
        for j in 0..=n {
            let mut d = mk();
            if d.seek((map(snaps[i].0), snaps[i].1)).is_err() {
                fail(out, "recorded position refused", format!("seek to snapshot {i} {:?} -> Err", snaps[i].0));
                continue;
            }
            acc[0] += 1;
            // move the decoder: decode one symbol if there is one
            if i < n {
                match C::range_decode(&mut d, hist[i]) {
                    Ok(1) => {}
                    other => {
                        fail(out, "wrong symbol after seek", format!("after seek to {i}: symbol {i} decoded as {:?}", other.map_err(|e| format!("{e:?}"))));
                        continue;
                    }
                }
            }
            if d.seek((map(snaps[j].0), snaps[j].1)).is_err() {
                fail(out, "recorded position refused", format!("second seek to snapshot {j} -> Err"));
                continue;
            }
            acc[0] += 1;
            let mut ok = true;
            for k in j..n {
                match C::range_decode(&mut d, hist[k]) {
                    Ok(1) => {}
                    other => {
                        fail(out, "wrong symbol after seek", format!("seek {i} then {j}: symbol {k} decoded as {:?}", other.map_err(|e| format!("{e:?}"))));
                        ok = false;
                        break;
                    }
                }
            }
            if ok && !d.maybe_exhausted() {
                fail(out, "not maybe_exhausted at the end", format!("seek {i} then {j}, decoded to the end"));
            }
            if j == n {
                acc[1] += 1;
            }
        }
    }
    // positions beyond the data are rejected and the decoder still works
    for &p in beyond {
        let mut d = mk();
        let k0 = n / 2;
        for k in 0..k0 {
            let _ = C::range_decode(&mut d, hist[k]);
        }
        let r = d.seek((p, snaps[0].1));
        acc[2] += 1;
        if r.is_ok() {
            fail(out, "position beyond the data accepted", format!("seek to position {p} -> Ok"));
            continue;
        }
        for k in k0..n {
            match C::range_decode(&mut d, hist[k]) {
                Ok(1) => {}
                other => {
                    fail(out, "decoder unusable after a refused seek", format!("after refused seek to {p}: symbol {k} decoded as {:?}", other.map_err(|e| format!("{e:?}"))));
                    break;
                }
            }
        }
    }
}

pub fn range_check<C: Cfg>(enc: &RangeEncoder<C::W, C::S>, hist: &[Letter], snaps: &[RSnap<C>], acc: Option<&mut Acc>) -> Vec<(String, String)> {
    let mut out = vec![];
    let sealed = enc.clone().into_compressed().unwrap();
    let len = sealed.len();
    let mut a = [0u64; 4];
    let id = |p: usize| p;
    let beyond = [len + 1, len + 2, len + 3, usize::MAX];
    range_seek_checks::<C, _>("Cursor<Vec> (owned)", &|| RangeDecoder::<C::W, C::S, _>::from_compressed(sealed.clone()).unwrap(), &id, &beyond, hist, snaps, &mut out, &mut a);
    range_seek_checks::<C, _>("Cursor<&[Word]> (borrowed)", &|| RangeDecoder::<C::W, C::S, _>::from_compressed(&sealed[..]).unwrap(), &id, &beyond, hist, snaps, &mut out, &mut a);
    range_seek_checks::<C, _>("into_decoder()", &|| enc.clone().into_decoder().unwrap(), &id, &beyond, hist, snaps, &mut out, &mut a);
    range_seek_checks::<C, _>("user-written source with the default maybe_exhausted", &|| RangeDecoder::<C::W, C::S, _>::with_backend(Plain(Cursor::new_at_write_beginning(sealed.clone()))).unwrap(), &id, &beyond, hist, snaps, &mut out, &mut a);
    let mut rev = sealed.clone();
    rev.reverse();
    let mirror = |p: usize| len - p;
    // for the reversed backend a too-large mirrored position is `len + k` as well
    range_seek_checks::<C, _>(
        "Reverse<Cursor<Vec>> over reversed data",
        &|| RangeDecoder::<C::W, C::S, _>::with_backend(Reverse(Cursor::new_at_write_end(rev.clone()))).unwrap(),
        &mirror, &beyond, hist, snaps, &mut out, &mut a,
    );
    // temporary decoder handed out by the encoder itself
    {
        let mut e = enc.clone();
        let mut d = e.decoder();
        for j in (0..=hist.len()).rev() {
            if d.seek(snaps[j]).is_err() {
                out.push(("RangeDecoder::seek | encoder.decoder() | recorded position refused".into(), format!("{}: history {:?} snapshot {j}", C::NAME, hist)));
                continue;
            }
            a[0] += 1;
            for k in j..hist.len() {
                if !matches!(C::range_decode(&mut d, hist[k]), Ok(1)) {
                    out.push(("RangeDecoder::seek | encoder.decoder() | wrong symbol after seek".into(), format!("{}: history {:?} seek {j} symbol {k}", C::NAME, hist)));
                    break;
                }
            }
        }
    }
    if let Some(acc) = acc {
        acc.c[2] += a[0];
        acc.c[3] += a[1];
        acc.c[4] += a[2];
        acc.c[9] += 6;
    }
    out
}

type ASnap<C> = (usize, <C as Cfg>::S);

fn ans_seek_checks<C: Cfg, B>(
    kind: &str,
    mk: &dyn Fn() -> AnsCoder<C::W, C::S, B>,
    map: &dyn Fn(usize) -> usize,
    beyond: &[usize],
    truncating: bool,
    hist: &[Letter],
    snaps: &[ASnap<C>],
    out: &mut Vec<(String, String)>,
    acc: &mut [u64; 4],
) where
    B: ReadWords<C::W, Stack> + Seek + PosSeek<Position = usize> + Pos,
    B::ReadError: core::fmt::Debug,
{
    let n = hist.len();
    let fail = |out: &mut Vec<(String, String)>, what: &str, detail: String| {
        out.push((format!("AnsCoder::seek | {kind} | {what}"), format!("{}: letters {:?}: {detail}", C::NAME, hist)));
    };
    // decode `count` symbols downwards starting below snapshot `from`
    let drain = |d: &mut AnsCoder<C::W, C::S, B>, from: usize| -> Result<(), String> {
        for k in (0..from).rev() {
            match C::ans_decode(d, hist[k]) {
                Ok(1) => {}
                other => return Err(format!("symbol {k} decoded as {:?}", other.map_err(|e| format!("{e:?}")))),
            }
        }
        Ok(())
    };
    for i in 0..=n {
        for j in 0..=n {
            let mut d = mk();
            if d.seek((map(snaps[i].0), snaps[i].1)).is_err() {
                fail(out, "recorded position refused", format!("seek to snapshot {i} (pos {})", snaps[i].0));
                continue;
            }
            acc[0] += 1;
            let mut cur = i;
            if i > 0 {
                if !matches!(C::ans_decode(&mut d, hist[i - 1]), Ok(1)) {
                    fail(out, "wrong symbol after seek", format!("after seek to {i}: symbol {} wrong", i - 1));
                    continue;
                }
                cur = i - 1;
            }
            let here = d.pos().0;
            let r = d.seek((map(snaps[j].0), snaps[j].1));
            if truncating && snaps[j].0 > here {
                // consuming Vec backend: data above the current head is gone; must be refused and stay usable
                acc[3] += 1;
                if r.is_ok() {
                    fail(out, "seek beyond the truncated data accepted", format!("seek {i}, decode, then seek {j}"));
                    continue;
                }
                if let Err(e) = drain(&mut d, cur) {
                    fail(out, "decoder unusable after a refused seek", e);
                }
                continue;
            }
            if r.is_err() {
                fail(out, "recorded position refused", format!("second seek to snapshot {j}"));
                continue;
            }
            acc[0] += 1;
            match drain(&mut d, j) {
                Err(e) => fail(out, "wrong symbol after seek", format!("seek {i} then {j}: {e}")),
                Ok(()) => {
                    if d.state() != snaps[0].1 || d.pos().0 != map(snaps[0].0) {
                        fail(out, "not back at the bottom after decoding everything", format!("seek {i} then {j}: state {:x}", d.state().into()));
                    }
                }
            }
        }
    }
    for &p in beyond {
        let mut d = mk();
        let r = d.seek((p, snaps[n].1));
        acc[1] += 1;
        if r.is_ok() {
            fail(out, "position beyond the data accepted", format!("seek to position {p} -> Ok"));
            continue;
        }
        if let Err(e) = drain(&mut d, n) {
            fail(out, "decoder unusable after a refused seek", e);
        }
    }
}

pub fn ans_check<C: Cfg>(hist: &[Letter], acc: Option<&mut Acc>) -> Vec<(String, String)> {
    let mut out = vec![];
    let mut enc = AnsCoder::<C::W, C::S>::new();
    let mut snaps: Vec<ASnap<C>> = vec![enc.pos()];
    for &l in hist {
        C::ans_encode(&mut enc, l).unwrap();
        snaps.push(enc.pos());
    }
    let n = hist.len();
    let mut a = [0u64; 4];
    let id = |p: usize| p;
    let bulk_len = enc.bulk().len();
    let beyond = [bulk_len + 1, bulk_len + 2, bulk_len + 3, usize::MAX];
    ans_seek_checks::<C, _>("as_seekable_decoder()", &|| enc.as_seekable_decoder(), &id, &beyond, false, hist, &snaps, &mut out, &mut a);
    ans_seek_checks::<C, _>("into_seekable_decoder()", &|| enc.clone().into_seekable_decoder(), &id, &beyond, false, hist, &snaps, &mut out, &mut a);
    ans_seek_checks::<C, _>("Vec (consuming)", &|| enc.clone(), &id, &beyond, true, hist, &snaps, &mut out, &mut a);
    // over the exported words: from_compressed on a cursor; positions are those of the bulk (prefix of the export)
    let words = enc.clone().into_compressed().unwrap();
    let beyond_w = [words.len() + 1, words.len() + 2, usize::MAX];
    ans_seek_checks::<C, _>("Cursor<&[Word]> over the exported words", &|| AnsCoder::<C::W, C::S, _>::from_compressed_slice(&words[..]).unwrap(), &id, &beyond_w, false, hist, &snaps, &mut out, &mut a);
    // reversed data, mirrored positions (documented recipe: pos' = len - pos)
    let mut rev = words.clone();
    rev.reverse();
    let len = words.len();
    let mirror = |p: usize| len - p;
    ans_seek_checks::<C, _>("Reverse<Cursor<Vec>> over reversed words", &|| AnsCoder::<C::W, C::S, _>::from_reversed_compressed(rev.clone()).unwrap(), &mirror, &beyond_w, false, hist, &snaps, &mut out, &mut a);
    if let Some(acc) = acc {
        acc.c[5] += (n + 1) as u64;
        acc.c[6] += a[0];
        acc.c[7] += a[1];
        acc.c[8] += a[3];
        acc.c[9] += 5;
    }
    out
}

fn explore_range<C: Cfg>(report: &Report, alphabet: &[Letter], depth: usize, label: &str) {
    let t = std::time::Instant::now();
    let (accs, nodes, trans) = range_walk::<C, Acc, _>(alphabet, depth, |n: &RangeNode<C>, acc: &mut Acc| {
        acc.c[0] += 1;
        if *n.inverted.last().unwrap() {
            acc.c[1] += 1;
        }
        for (i, d) in range_check::<C>(n.enc, n.hist, n.snaps, Some(acc)) {
            acc.violation(i, d, json!({"kind": "range_history", "cfg": C::NAME, "letters": letters_json(n.hist)}));
        }
        if acc.samples.is_empty() && n.hist.len() >= 3 && n.inverted.iter().any(|&b| b) {
            acc.samples.push(json!({"coder": "range", "cfg": C::NAME, "letters": letters_json(n.hist),
                "snapshot_positions": n.snaps.iter().map(|s| s.0).collect::<Vec<_>>(), "inverted_at_boundary": n.inverted,
                "sealed": words_json(&to_u128(&n.enc.clone().into_compressed().unwrap()))}));
        }
    });
    report.add_states(nodes);
    report.add_transitions(trans);
    report.add_traces(nodes);
    merge_accs(report, accs, &NAMES);
    report.section(json!({"coder": "range", "cfg": C::NAME, "alphabet": label, "alphabet_size": alphabet.len(), "depth": depth, "nodes": nodes, "wall_s": t.elapsed().as_secs_f64()}));
}

fn explore_ans<C: Cfg>(report: &Report, alphabet: &[Letter], depth: usize, label: &str) {
    let t = std::time::Instant::now();
    let empty: Vec<Vec<u128>> = vec![vec![]];
    let (accs, nodes, trans) = ans_walk::<C, Acc, _>(&empty, alphabet, depth, false, |n: &AnsNode<C>, acc: &mut Acc| {
        for (i, d) in ans_check::<C>(n.stack, Some(acc)) {
            acc.violation(i, d, json!({"kind": "ans_letters", "cfg": C::NAME, "letters": letters_json(n.stack)}));
        }
    });
    report.add_states(nodes);
    report.add_transitions(trans);
    report.add_traces(nodes);
    merge_accs(report, accs, &NAMES);
    report.section(json!({"coder": "ans", "cfg": C::NAME, "alphabet": label, "alphabet_size": alphabet.len(), "depth": depth, "nodes": nodes, "wall_s": t.elapsed().as_secs_f64()}));
}

pub fn run(report: &Report) {
    use crate::models::*;
    let q = report.tier == Tier::Quick;
    report.bound("every message of the walks up to the listed depth; snapshots at every symbol boundary; all ordered seek pairs (i,j) over the snapshot set with one decode in between; 6 range decoder kinds (incl. a user-written source that keeps the trait's default maybe_exhausted) and 5 ANS kinds; 3-4 positions beyond the data");
    report.assume("a seek overwrites position, head state and (range decoder) the point window, so the decoder state after a seek does not depend on more than the previous state; pairs therefore cover longer seek sequences as long as this holds - and a seek that forgot to reset a field would be exposed by a pair");
    for n in ["range_snapshots_taken_while_inverted", "range_seek_to_final_position", "range_rejected_seeks", "ans_rejected_seeks", "ans_vec_backend_seeks_refused_because_truncated"] {
        report.require(n);
    }
    explore_range::<U8U16>(report, &range_alphabet12::<U8U16>(), if q { 5 } else { 6 }, "a12@P8");
    explore_range::<U8U32>(report, &range_alphabet12::<U8U32>(), if q { 5 } else { 6 }, "a12@P8");
    explore_range::<U8U16>(report, &range_alphabet5::<U8U16>(), if q { 7 } else { 8 }, "a5@P8");
    explore_range::<U8U32>(report, &small_alphabet::<U8U32>(), if q { 4 } else { 5 }, "mixed-precision-14");
    explore_range::<U8U64>(report, &range_alphabet5::<U8U64>(), if q { 6 } else { 8 }, "a5@P8");
    explore_range::<U16U32>(report, &range_alphabet12::<U16U32>(), if q { 4 } else { 5 }, "a12@P16");
    explore_range::<U32U64>(report, &small_alphabet::<U32U64>(), if q { 4 } else { 5 }, "mixed-precision-14");
    explore_range::<U64U128>(report, &small_alphabet::<U64U128>(), if q { 3 } else { 4 }, "mixed-precision-14");
    explore_ans::<U8U16>(report, &small_alphabet::<U8U16>(), if q { 5 } else { 6 }, "mixed-precision-14");
    explore_ans::<U8U32>(report, &small_alphabet::<U8U32>(), if q { 5 } else { 6 }, "mixed-precision-14");
    explore_ans::<U8U16>(report, &range_alphabet5::<U8U16>(), if q { 7 } else { 9 }, "a5@P8");
    explore_ans::<U8U64>(report, &small_alphabet::<U8U64>(), if q { 4 } else { 5 }, "mixed-precision-14");
    explore_ans::<U16U32>(report, &small_alphabet::<U16U32>(), if q { 4 } else { 5 }, "mixed-precision-14");
    explore_ans::<U32U64>(report, &small_alphabet::<U32U64>(), if q { 4 } else { 5 }, "mixed-precision-14");
    explore_ans::<U64U128>(report, &small_alphabet::<U64U128>(), if q { 3 } else { 4 }, "mixed-precision-14");
    super::pyfront::sweep(report, "seek", if q { 4 } else { 6 },
        "every message up to the listed length over 3 symbols x 3 model programs: RangeEncoder.pos() in front of every symbol, every ordered pair of RangeDecoder.seek with a decode in between; AnsCoder.pos() at every stack level, every forward pair of AnsCoder.seek; positions beyond the data refused without harm",
        &[], &[]);
}

fn replay_range<C: Cfg>(letters: &[Letter]) -> Result<String, String> {
    let mut enc = RangeEncoder::<C::W, C::S>::new();
    let mut snaps = vec![enc.pos()];
    for &l in letters {
        C::range_encode(&mut enc, l).map_err(|e| format!("{e:?}"))?;
        snaps.push(enc.pos());
    }
    let v = range_check::<C>(&enc, letters, &snaps, None);
    if v.is_empty() { Ok("all seeks resume correctly".into()) } else { Err(v.into_iter().map(|(i, d)| format!("[{i}] {d}")).collect::<Vec<_>>().join("\n")) }
}
fn replay_ans<C: Cfg>(letters: &[Letter]) -> Result<String, String> {
    let v = ans_check::<C>(letters, None);
    if v.is_empty() { Ok("all seeks resume correctly".into()) } else { Err(v.into_iter().map(|(i, d)| format!("[{i}] {d}")).collect::<Vec<_>>().join("\n")) }
}

pub fn replay(case: &serde_json::Value) -> Result<String, String> {
    let cfg = case["cfg"].as_str().ok_or("cfg")?;
    let letters = letters_from_json(&case["letters"])?;
    match case["kind"].as_str() {
        Some("range_history") => dispatch_cfg!(cfg, replay_range, &letters),
        Some("ans_letters") => dispatch_cfg!(cfg, replay_ans, &letters),
        _ => Err("unknown case kind".into()),
    }
}
