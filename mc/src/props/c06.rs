//! C06 — compressed bit streams conform to the specified rANS / range-coding format.
//!
//! Oracle: at every node of the ANS history walk and of the range-coder sequence walk the words
//! the implementation would return from `into_compressed()` equal those of an independent
//! reference (textbook streaming rANS on u128; carry-propagating range coder with a Vec that is
//! incremented backwards, sealing per notes/range-coding.md). Plus the byte-exact example
//! outputs printed in the project's documentation, replayed as fixed traces.

use super::common::*;
use crate::dispatch_cfg;
use crate::models::{to_u128, Cfg, Letter};
use crate::refs::{RefAns, RefRange};
use crate::report::{Report, Tier, Violation};
use crate::walk::{ans_walk, merge_accs, range_is_inverted, range_walk, Acc, AnsNode, AnsOp, RangeNode};
use constriction::stream::model::{DefaultContiguousCategoricalEntropyModel, DefaultLeakyQuantizer};
use constriction::stream::queue::{DefaultRangeDecoder, DefaultRangeEncoder, RangeEncoder};
use constriction::stream::stack::{AnsCoder, DefaultAnsCoder};
use constriction::stream::{Code, Decode, Encode};
use probability::distribution::Gaussian;
use serde_json::json;

pub const NAMES: [&str; 8] = [
    "ans_nodes_compared",
    "ans_nodes_with_flushed_words",
    "ans_nodes_after_decode",
    "range_nodes_compared",
    "range_nodes_inverted",
    "range_seals_with_zero_word",
    "range_seals_with_more_than_one_zero_word",
    "range_nodes_where_documented_two_word_rule_is_insufficient",
];

fn ans_visit<C: Cfg>(n: &AnsNode<C>, acc: &mut Acc) {
    acc.c[0] += 1;
    if !n.coder.bulk().is_empty() {
        acc.c[1] += 1;
    }
    if n.last_dec.is_some() {
        acc.c[2] += 1;
    }
    let got = to_u128(&n.coder.clone().into_compressed().unwrap());
    let want = n.rf.export();
    if got != want {
        acc.violation(
            format!("AnsCoder::into_compressed | {} | words differ from textbook rANS", C::NAME),
            format!("init {:x?} ops {:?}: implementation {:x?}, reference {:x?}", n.exports[0], n.ops, got, want),
            json!({"kind": "ans_history", "cfg": C::NAME, "init": words_json(&n.exports[0]), "ops": ops_json(n.ops)}),
        );
    }
    // reading direction: the REFERENCE's words must load into exactly the coder that wrote them (a reader that
    // misparses a stream written by another conforming implementation breaks the format as much as a writer)
    {
        let words: Vec<C::W> = want.iter().map(|&w| C::w(w)).collect();
        match AnsCoder::<C::W, C::S>::from_compressed(words) {
            Ok(c) => {
                if to_u128(c.bulk()) != to_u128(n.coder.bulk()) || c.state().into() != n.coder.state().into() {
                    acc.violation(format!("AnsCoder::from_compressed | {} | the reference stream is not read back into the coder that wrote it", C::NAME),
                        format!("init {:x?} ops {:?}: words {:x?} load as (bulk {:x?}, state {:#x}), the writer is (bulk {:x?}, state {:#x})", n.exports[0], n.ops, want,
                            to_u128(c.bulk()), c.state().into(), to_u128(n.coder.bulk()), n.coder.state().into()),
                        json!({"kind": "ans_history", "cfg": C::NAME, "init": words_json(&n.exports[0]), "ops": ops_json(n.ops)}));
                }
            }
            Err(_) => acc.violation(format!("AnsCoder::from_compressed | {} | the reference stream is refused", C::NAME),
                format!("init {:x?} ops {:?}: words {:x?}", n.exports[0], n.ops, want), json!({"kind": "ans_history", "cfg": C::NAME, "init": words_json(&n.exports[0]), "ops": ops_json(n.ops)})),
        }
    }
    if let Some(d) = crate::walk::ans_inspection_changes::<C>(n.coder) {
        acc.violation(format!("AnsCoder | {} | words shown by / emitted after an inspection differ from the specified stream", C::NAME),
            format!("init {:x?} ops {:?}: {d}", n.exports[0], n.ops), json!({"kind": "ans_history", "cfg": C::NAME, "init": words_json(&n.exports[0]), "ops": ops_json(n.ops)}));
    }
    if acc.samples.is_empty() && n.ops.len() >= 4 && n.coder.bulk().len() >= 2 {
        acc.samples.push(json!({"coder": "ans", "cfg": C::NAME, "ops": ops_json(n.ops), "words_impl_eq_ref": words_json(&got)}));
    }
}

pub fn ops_json(ops: &[AnsOp]) -> serde_json::Value {
    serde_json::Value::Array(ops.iter().map(|o| match o {
        AnsOp::Enc(l) => json!(["enc", l.prec, l.c, l.p]),
        AnsOp::Dec => json!(["dec"]),
    }).collect())
}

fn range_check<C: Cfg>(enc: &RangeEncoder<C::W, C::S>, rf: &RefRange, hist: &[Letter]) -> (Vec<(String, String)>, Vec<u128>, Vec<u128>) {
    let got = to_u128(&enc.clone().into_compressed().unwrap());
    let want = rf.seal(true);
    let documented = rf.seal(false);
    let mut out = vec![];
    if C::SBITS == 2 * C::WBITS {
        assert_eq!(want, documented, "HARNESS-REF: generalised and documented sealing rule must coincide for State == 2 Words");
    }
    if got != want {
        let what = if got == documented && C::SBITS > 2 * C::WBITS {
            "State wider than two Words | sealed with the two-word rule where further zero words are needed to pin the interval".to_string()
        } else {
            "words differ from the reference range coder".to_string()
        };
        out.push((
            format!("RangeEncoder::into_compressed | {} | {what}", C::NAME),
            format!("history {:?}: implementation {:x?}, reference {:x?}", hist, got, want),
        ));
    }
    (out, want, documented)
}

fn range_visit<C: Cfg>(n: &RangeNode<C>, acc: &mut Acc) {
    acc.c[3] += 1;
    if range_is_inverted::<C>(n.enc).is_some() {
        acc.c[4] += 1;
    }
    let (bad, want, documented) = range_check::<C>(n.enc, n.rf, n.hist);
    let zeros = want.len() as i64 - n.rf.out.len() as i64 - 1;
    if zeros >= 1 {
        acc.c[5] += 1;
    }
    if zeros >= 2 {
        acc.c[6] += 1;
    }
    if want != documented {
        acc.c[7] += 1;
    }
    for (i, d) in bad {
        acc.violation(i, d, json!({"kind": "range_history", "cfg": C::NAME, "letters": letters_json(n.hist)}));
    }
    if let Some(d) = crate::walk::range_inspection_changes::<C>(n.enc) {
        acc.violation(format!("RangeEncoder | {} | words shown by / emitted after an inspection differ from the specified stream", C::NAME),
            format!("history {:?}: {d}", n.hist), json!({"kind": "range_history", "cfg": C::NAME, "letters": letters_json(n.hist)}));
    }
    if acc.samples.is_empty() && n.hist.len() >= 4 && range_is_inverted::<C>(n.enc).is_some() {
        acc.samples.push(json!({"coder": "range", "cfg": C::NAME, "history": letters_json(n.hist), "words_impl_eq_ref": words_json(&want)}));
    }
}

fn explore_ans<C: Cfg>(report: &Report, inits: &[Vec<u128>], alphabet: &[Letter], depth: usize, label: &str) {
    let t = std::time::Instant::now();
    let (accs, nodes, trans) = ans_walk::<C, Acc, _>(inits, alphabet, depth, true, ans_visit::<C>);
    report.add_states(nodes);
    report.add_transitions(trans);
    report.add_traces(nodes);
    merge_accs(report, accs, &NAMES);
    report.section(json!({"coder": "ans", "cfg": C::NAME, "alphabet": label, "alphabet_size": alphabet.len(), "initial_word_strings": inits.len(),
        "depth": depth, "nodes": nodes, "wall_s": t.elapsed().as_secs_f64()}));
}

fn explore_range<C: Cfg>(report: &Report, alphabet: &[Letter], depth: usize, label: &str) {
    let t = std::time::Instant::now();
    let (accs, nodes, trans) = range_walk::<C, Acc, _>(alphabet, depth, range_visit::<C>);
    report.add_states(nodes);
    report.add_transitions(trans);
    report.add_traces(nodes);
    merge_accs(report, accs, &NAMES);
    report.section(json!({"coder": "range", "cfg": C::NAME, "alphabet": label, "alphabet_size": alphabet.len(),
        "depth": depth, "nodes": nodes, "wall_s": t.elapsed().as_secs_f64()}));
}

/// Byte-exact vectors transcribed from README-rust.md, src/lib.rs, src/stream/mod.rs and the
/// Rust-expressible ones of tests/python/test_docexamples.py.
fn doc_vectors(report: &Report) {
    let mut n = 0u64;
    let mut fail = |name: &str, detail: String| {
        report.violation(Violation {
            identity: format!("documentation vector | {name}"),
            detail,
            case: json!({"kind": "doc_vector", "name": name}),
        });
    };
    let symbols = [23i32, -15, 78, 43, -69];
    let means = [35.2, -1.7, 30.1, 71.2, -75.1];
    let stds = [10.1, 25.3, 23.8, 35.4, 3.9];
    let quantizer = DefaultLeakyQuantizer::new(-100..=100);
    // README-rust.md:82 / src/lib.rs:131 (ANS)
    {
        let mut coder = DefaultAnsCoder::new();
        coder.encode_symbols_reverse(symbols.iter().zip(&means).zip(&stds).map(|((&s, &m), &sd)| (s, quantizer.quantize(Gaussian::new(m, sd))))).unwrap();
        let got = coder.clone().into_compressed().unwrap();
        n += 1;
        if got != [0x421C_7EC3, 0x000B_8ED1] {
            fail("README ANS example", format!("got {:x?}, documented [421c7ec3, b8ed1]", got));
        }
        let mut dec = DefaultAnsCoder::from_compressed(vec![0x421C_7EC3, 0x000B_8ED1]).unwrap();
        let d: Vec<i32> = dec.decode_symbols(means.iter().zip(&stds).map(|(&m, &sd)| quantizer.quantize(Gaussian::new(m, sd)))).map(|r| r.unwrap()).collect();
        n += 1;
        if d != symbols || !dec.is_empty() {
            fail("README ANS decoding example", format!("decoded {:?}", d));
        }
    }
    // README-rust.md:195 / src/lib.rs:244 (range)
    {
        let mut enc = DefaultRangeEncoder::new();
        enc.encode_symbols(symbols.iter().zip(&means).zip(&stds).map(|((&s, &m), &sd)| (s, quantizer.quantize(Gaussian::new(m, sd))))).unwrap();
        let got = enc.into_compressed().unwrap();
        n += 1;
        if got != [0x1C31EFEB, 0x87B430DA] {
            fail("README range coding example", format!("got {:x?}, documented [1c31efeb, 87b430da]", got));
        }
        let mut dec = DefaultRangeDecoder::from_compressed(vec![0x1C31EFEBu32, 0x87B430DA]).unwrap();
        let d: Vec<i32> = dec.decode_symbols(means.iter().zip(&stds).map(|(&m, &sd)| quantizer.quantize(Gaussian::new(m, sd)))).map(|r| r.unwrap()).collect();
        n += 1;
        if d != symbols {
            fail("README range decoding example", format!("decoded {:?}", d));
        }
    }
    // src/stream/mod.rs:783
    {
        let mut c = DefaultAnsCoder::from_compressed(vec![0x1E34_22B0]).unwrap();
        let m = quantizer.quantize(Gaussian::new(0.0, 10.0));
        let a = c.decode_symbol(&m).unwrap();
        let b = c.decode_symbol(m).unwrap();
        n += 1;
        if (a, b) != (-8, 12) || !c.is_empty() {
            fail("stream/mod.rs decode_symbol example", format!("decoded ({a},{b}), empty {}", c.is_empty()));
        }
        // and the words are exactly what encoding those symbols yields
        let mut e = DefaultAnsCoder::new();
        e.encode_symbol(12, m).unwrap();
        e.encode_symbol(-8, m).unwrap();
        n += 1;
        if e.clone().into_compressed().unwrap() != [0x1E34_22B0] {
            fail("stream/mod.rs decode_symbol example (re-encoded)", format!("{:x?}", e.into_compressed().unwrap()));
        }
    }
    // src/stream/mod.rs:844
    {
        let mut c = DefaultAnsCoder::from_compressed(vec![0x2C63_D22E, 0x0000_0377]).unwrap();
        let models = (0..5).map(|i| quantizer.quantize(Gaussian::new((i * 10) as f64, 10.0)));
        let d: Vec<i32> = c.decode_symbols(models).map(|r| r.unwrap()).collect();
        n += 1;
        if d != [-3, 12, 19, 28, 41] {
            fail("stream/mod.rs decode_symbols example", format!("decoded {:?}", d));
        }
        let mut e = DefaultAnsCoder::new();
        for i in (0..5).rev() {
            e.encode_symbol(d[i], quantizer.quantize(Gaussian::new((i * 10) as f64, 10.0))).unwrap();
        }
        n += 1;
        if e.clone().into_compressed().unwrap() != [0x2C63_D22E, 0x0000_0377] {
            fail("stream/mod.rs decode_symbols example (re-encoded)", format!("{:x?}", e.into_compressed().unwrap()));
        }
    }
    // tests/python/test_docexamples.py: test_module_example3 (range coder, Gaussians + categorical) => [3176507208]
    {
        let message = [6i32, 10, -4, 2, 5, 2, 1, 0, 2];
        let means = [2.3, 6.1, -8.5, 4.1, 1.3];
        let stds = [6.2, 5.3, 3.8, 3.2, 4.7];
        let q = DefaultLeakyQuantizer::new(-50..=50);
        let cat = DefaultContiguousCategoricalEntropyModel::from_floating_point_probabilities_fast(&[0.2f64, 0.5, 0.3], None).unwrap();
        let mut enc = DefaultRangeEncoder::new();
        for i in 0..5 {
            enc.encode_symbol(message[i], q.quantize(Gaussian::new(means[i], stds[i]))).unwrap();
        }
        for i in 5..9 {
            enc.encode_symbol(message[i] as usize, &cat).unwrap();
        }
        let got = enc.into_compressed().unwrap();
        n += 1;
        if got != [3176507208u32] {
            fail("python doc example: module example 3 (range)", format!("got {:?}, documented [3176507208]", got));
        }
    }
    // test_ans_decode1/2: categorical [0.1,0.6,0.3]
    {
        let cat = DefaultContiguousCategoricalEntropyModel::from_floating_point_probabilities_fast(&[0.1f64, 0.6, 0.3], None).unwrap();
        let mut c = DefaultAnsCoder::from_compressed(vec![2514924296u32, 114]).unwrap();
        let s = c.decode_symbol(&cat).unwrap();
        n += 1;
        if s != 2 {
            fail("python doc example: ans_decode1", format!("decoded {s}"));
        }
        let mut c = DefaultAnsCoder::from_compressed(vec![1441153686u32, 108]).unwrap();
        let d: Vec<usize> = c.decode_iid_symbols(9, &cat).map(|r| r.unwrap()).collect();
        n += 1;
        if d != [2, 0, 0, 1, 2, 2, 1, 2, 2] {
            fail("python doc example: ans_decode2", format!("decoded {:?}", d));
        }
        let mut e = DefaultAnsCoder::new();
        e.encode_iid_symbols_reverse(&d, &cat).unwrap();
        n += 1;
        if e.clone().into_compressed().unwrap() != [1441153686u32, 108] {
            fail("python doc example: ans_decode2 (re-encoded)", format!("{:?}", e.into_compressed().unwrap()));
        }
    }
    // test_ans_decode3: Gaussians
    {
        let q = DefaultLeakyQuantizer::new(-100..=100);
        let means = [10.3, -4.7, 20.5];
        let stds = [5.2, 24.2, 3.1];
        let mut c = DefaultAnsCoder::from_compressed(vec![597775281u32, 3]).unwrap();
        let d: Vec<i32> = c.decode_symbols(means.iter().zip(&stds).map(|(&m, &s)| q.quantize(Gaussian::new(m, s)))).map(|r| r.unwrap()).collect();
        n += 1;
        if d != [12, -13, 25] {
            fail("python doc example: ans_decode3", format!("decoded {:?}", d));
        }
    }
    // test_ans_decode4: two categorical models
    {
        let m1 = DefaultContiguousCategoricalEntropyModel::from_floating_point_probabilities_fast(&[0.1f64, 0.2, 0.3, 0.1, 0.3], None).unwrap();
        let m2 = DefaultContiguousCategoricalEntropyModel::from_floating_point_probabilities_fast(&[0.3f64, 0.2, 0.2, 0.2, 0.1], None).unwrap();
        let mut c = DefaultAnsCoder::from_compressed(vec![2142112014u32, 31]).unwrap();
        let a = c.decode_symbol(&m1).unwrap();
        let b = c.decode_symbol(&m2).unwrap();
        n += 1;
        if (a, b) != (3, 1) {
            fail("python doc example: ans_decode4", format!("decoded ({a},{b})"));
        }
    }
    report.count("documentation_vectors_checked", n);
    report.add_traces(n);
    report.add_transitions(n);
    report.sample(json!({"doc_vector": "README-rust.md:82", "symbols": symbols, "expected_words": ["421c7ec3", "b8ed1"]}));
}

pub fn run(report: &Report) {
    use crate::models::*;
    let q = report.tier == Tier::Quick;
    report.bound("every node of the ANS history walk (encode and decode ops) and of the range-coder sequence walk, up to the listed depths; 15 documentation vectors; through the Python front end: every message of length <= 4 (thorough 6) over 15 models x {ANS, range} compared word for word with the Rust front end, and all documentation-example functions of tests/python");
    report.assume("reference sealing rule for State wider than two Words is the generalised rule of notes/range-coding.md step 4 (zero words until the interval is pinned); for State == two Words it is asserted identical to the classic one-or-two-word rule on every node");
    report.assume("the Python front end is built from the same working tree by the check driver (pyo3 bindings, offline); if that build is not possible the Python part is listed under caps_hit as not covered");
    for n in ["ans_nodes_with_flushed_words", "ans_nodes_after_decode", "range_nodes_inverted", "range_seals_with_zero_word", "documentation_vectors_checked"] {
        report.require(n);
    }
    doc_vectors(report);
    super::pyfront::c06_part(report, if q { 4 } else { 6 });
    super::pyfront::sweep(report, "representations", if q { 0 } else { 1 },
        "Python Categorical in every flavour and dtype: the model family with per-symbol probability rows emits the words of the concrete model (whose words are those of the Rust front end by the vectors above)",
        &["Categorical"], &[]);
    super::pyfront::sweep(report, "views", if q { 3 } else { 4 }, "every constructor that takes compressed words (8) on every word string up to the listed length over 6 words, and every call form that takes symbol / parameter arrays (3 coders x 2 forms) on every message up to length 4: a negative-stride view, a stride-2 view and an interior slice must be read like a contiguous copy", &[], &[]);
    let empty: Vec<Vec<u128>> = vec![vec![]];
    explore_ans::<U8U16>(report, &empty, &small_alphabet::<U8U16>(), if q { 6 } else { 7 }, "mixed-precision-14");
    explore_ans::<U8U32>(report, &empty, &small_alphabet::<U8U32>(), if q { 6 } else { 7 }, "mixed-precision-14");
    explore_ans::<U8U16>(report, &empty, &pairs_alphabet::<U8U16>(), if q { 3 } else { 4 }, "all-pairs P<=3 + extremes");
    explore_ans::<U8U32>(report, &super::c01::import_inits::<U8U32>(), &small_alphabet::<U8U32>(), if q { 3 } else { 5 }, "mixed-precision-14");
    explore_ans::<U8U64>(report, &empty, &small_alphabet::<U8U64>(), if q { 4 } else { 6 }, "mixed-precision-14");
    explore_ans::<U16U32>(report, &empty, &small_alphabet::<U16U32>(), if q { 4 } else { 6 }, "mixed-precision-14");
    explore_ans::<U16U64>(report, &empty, &small_alphabet::<U16U64>(), if q { 4 } else { 5 }, "mixed-precision-14");
    explore_ans::<U32U64>(report, &empty, &small_alphabet::<U32U64>(), if q { 4 } else { 6 }, "mixed-precision-14");
    explore_ans::<U64U128>(report, &empty, &small_alphabet::<U64U128>(), if q { 4 } else { 5 }, "mixed-precision-14");
    // a user-written model may give a symbol the whole interval (probability 2^PRECISION < 2^ProbabilityBits, zero bits of
    // information): textbook rANS leaves the state alone and flushes nothing
    {
        let mut certain = small_alphabet::<U8U32>();
        certain.truncate(7);
        certain.extend([Letter::new(1, 0, 2), Letter::new(2, 0, 4), Letter::new(3, 0, 8)]);
        explore_ans::<U8U32>(report, &empty, &certain, if q { 5 } else { 6 }, "mixed precision + symbols of probability one");
        explore_ans::<U16U64>(report, &empty, &certain, if q { 4 } else { 5 }, "mixed precision + symbols of probability one");
        explore_ans::<U32U64>(report, &empty, &certain, if q { 4 } else { 5 }, "mixed precision + symbols of probability one");
    }
    explore_range::<U8U16>(report, &range_alphabet12::<U8U16>(), if q { 6 } else { 7 }, "a12@P8");
    explore_range::<U8U32>(report, &range_alphabet12::<U8U32>(), if q { 6 } else { 7 }, "a12@P8");
    explore_range::<U8U32>(report, &range_alphabet5::<U8U32>(), if q { 9 } else { 10 }, "a5@P8 (reaches seals needing >1 zero word)");
    explore_range::<U8U16>(report, &small_alphabet::<U8U16>(), if q { 5 } else { 6 }, "mixed-precision-14");
    explore_range::<U8U32>(report, &small_alphabet::<U8U32>(), if q { 5 } else { 6 }, "mixed-precision-14");
    explore_range::<U8U64>(report, &range_alphabet5::<U8U64>(), if q { 7 } else { 9 }, "a5@P8");
    explore_range::<U16U32>(report, &range_alphabet12::<U16U32>(), if q { 4 } else { 6 }, "a12@P16");
    explore_range::<U16U64>(report, &range_alphabet12::<U16U64>(), if q { 4 } else { 5 }, "a12@P16");
    explore_range::<U32U64>(report, &range_alphabet12::<U32U64>(), if q { 4 } else { 5 }, "a12@P32");
    explore_range::<U32U64>(report, &small_alphabet::<U32U64>(), if q { 4 } else { 5 }, "mixed-precision-14");
    explore_range::<U64U128>(report, &small_alphabet::<U64U128>(), if q { 3 } else { 4 }, "mixed-precision-14");
}

fn replay_range<C: Cfg>(letters: &[Letter]) -> Result<String, String> {
    let mut enc = RangeEncoder::<C::W, C::S>::new();
    let mut rf = RefRange::new(C::WBITS, C::SBITS);
    for &l in letters {
        C::range_encode(&mut enc, l).map_err(|e| format!("{e:?}"))?;
        rf.push(l);
    }
    let (bad, want, _) = range_check::<C>(&enc, &rf, letters);
    if bad.is_empty() {
        Ok(format!("implementation and reference agree: {:x?}", want))
    } else {
        Err(bad.into_iter().map(|(i, d)| format!("[{i}] {d}")).collect::<Vec<_>>().join("\n"))
    }
}

fn replay_ans<C: Cfg>(init: &[u128], ops: &serde_json::Value) -> Result<String, String> {
    let words: Vec<C::W> = init.iter().map(|&w| C::w(w)).collect();
    let mut coder = AnsCoder::<C::W, C::S>::from_compressed(words).map_err(|_| "init rejected")?;
    let mut rf = RefAns::import(C::WBITS, C::SBITS, init);
    let mut stack = vec![];
    for o in ops.as_array().ok_or("ops")? {
        let a = o.as_array().ok_or("op")?;
        if a[0] == "enc" {
            let l = Letter::new(a[1].as_u64().unwrap() as u8, a[2].as_u64().unwrap(), a[3].as_u64().unwrap());
            C::ans_encode(&mut coder, l).map_err(|e| format!("{e:?}"))?;
            rf.push(l);
            stack.push(l);
        } else {
            let l = stack.pop().ok_or("dec on empty stack")?;
            C::ans_decode(&mut coder, l).map_err(|_| "backend")?;
            rf.pop(l);
        }
        let got = to_u128(&coder.clone().into_compressed().unwrap());
        if got != rf.export() {
            return Err(format!("after {:?}: implementation {:x?}, reference {:x?}", o, got, rf.export()));
        }
    }
    Ok("implementation and reference agree after every op".into())
}

pub fn replay(case: &serde_json::Value) -> Result<String, String> {
    match case["kind"].as_str() {
        Some("range_history") => {
            let cfg = case["cfg"].as_str().ok_or("cfg")?;
            let letters = letters_from_json(&case["letters"])?;
            dispatch_cfg!(cfg, replay_range, &letters)
        }
        Some("ans_history") => {
            let cfg = case["cfg"].as_str().ok_or("cfg")?;
            let init = words_from_json(&case["init"])?;
            dispatch_cfg!(cfg, replay_ans, &init, &case["ops"])
        }
        Some("doc_vector") => {
            let r = Report::new("C06", Tier::Quick);
            doc_vectors(&r);
            if r.violation_count() == 0 { Ok("all documentation vectors reproduce".into()) } else { Err(format!("{} documentation vectors differ (run ./check C06 for details)", r.violation_count())) }
        }
        _ => Err("unknown case kind".into()),
    }
}
