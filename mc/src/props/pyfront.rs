//! The Python front end (pyo3 bindings built from the same working tree into `<verif>/pyfront/pkg` by the
//! `check` driver) as a second implementation under test:
//!
//!  * C06 — (a) every message of an exhaustive set of small messages is encoded by the RUST front end; the
//!    words are handed to `tools/pyfront.py`, which encodes the same message through the Python front end
//!    (words must be identical) and decodes the Rust words (symbols must be identical): a change that keeps
//!    one front end self-consistent but alters the stream between them is caught; (b) every `test_*`
//!    function of the repository's own documentation-example files (they assert byte-exact words) is run
//!    through the freshly built bindings.
//!  * C19 — every float table of length <= 3 over a boundary alphabet (f32 and f64, fast / perfect / lazy)
//!    through `constriction.stream.model.Categorical`: a `ValueError`, or a model that is valid.
//!
//! If the bindings could not be built (no Python tooling, a tree whose bindings do not compile) the part is
//! reported as NOT COVERED in the evidence (`caps_hit`), never as a verdict.

use crate::report::{verif_dir, Report, Violation};
use constriction::stream::model::{
    DefaultContiguousCategoricalEntropyModel, DefaultLazyContiguousCategoricalEntropyModel, DefaultLeakyQuantizer, DefaultUniformModel,
};
use constriction::stream::queue::DefaultRangeEncoder;
use constriction::stream::stack::DefaultAnsCoder;
use constriction::stream::Encode;
use probability::distribution::Gaussian;
use serde_json::{json, Value};
use std::path::PathBuf;

/// path of the constriction working tree the harness is built against (read from mc/Cargo.toml)
pub fn repo_dir() -> PathBuf {
    let toml = std::fs::read_to_string(verif_dir().join("mc").join("Cargo.toml")).unwrap_or_default();
    for l in toml.lines() {
        if let Some(rest) = l.strip_prefix("constriction = { path = \"") {
            if let Some(p) = rest.split('"').next() {
                return PathBuf::from(p);
            }
        }
    }
    PathBuf::from("/repo")
}

/// runs tools/pyfront.py; Ok(None) = front end not available
fn run_py(args: &[&str]) -> Result<Option<Value>, String> {
    let dir = verif_dir();
    let so = dir.join("pyfront").join("pkg").join("constriction.so");
    if !so.exists() {
        return Ok(None);
    }
    let out = std::process::Command::new("python3-vt")
        .arg(dir.join("tools").join("pyfront.py"))
        .args(args)
        .env("PYTHONPATH", dir.join("pyfront").join("pkg"))
        .env("PYTHONWARNINGS", "ignore")
        .output();
    let out = match out {
        Ok(o) => o,
        Err(_) => return Ok(None), // no python3-vt on this machine
    };
    if !out.status.success() {
        return Err(format!("pyfront.py {:?} ended with {:?}: {}", args, out.status, String::from_utf8_lossy(&out.stderr).lines().rev().take(5).collect::<Vec<_>>().join(" / ")));
    }
    let stdout = String::from_utf8_lossy(&out.stdout);
    let line = stdout.lines().rev().find(|l| l.starts_with('{')).ok_or("pyfront.py printed no result")?;
    let v: Value = serde_json::from_str(line).map_err(|e| e.to_string())?;
    if v.get("unavailable").is_some() {
        return Ok(None);
    }
    Ok(Some(v))
}

fn messages(alphabet: &[i32], max_len: usize) -> Vec<Vec<i32>> {
    let mut out = vec![vec![]];
    let mut fr: Vec<Vec<i32>> = vec![vec![]];
    for _ in 0..max_len {
        fr = fr.iter().flat_map(|m| alphabet.iter().map(move |&s| { let mut t = m.clone(); t.push(s); t })).collect();
        out.extend(fr.iter().cloned());
    }
    out
}

/// the Rust front end's words for every (model, message, coder)
pub fn vectors(max_len: usize) -> Vec<Value> {
    let mut out = vec![];
    macro_rules! both_coders {
        ($spec:expr, $msgs:expr, $model:expr, $conv:expr) => {{
            for m in $msgs.iter() {
                let syms: Vec<_> = m.iter().map($conv).collect();
                let mut a = DefaultAnsCoder::new();
                a.encode_iid_symbols_reverse(&syms, &$model).expect("HARNESS: valid message refused by the Rust front end");
                out.push(json!({"coder": "ans", "model": $spec, "symbols": m, "words": a.into_compressed().unwrap()}));
                let mut r = DefaultRangeEncoder::new();
                r.encode_iid_symbols(&syms, &$model).expect("HARNESS: valid message refused by the Rust front end");
                out.push(json!({"coder": "range", "model": $spec, "symbols": m, "words": r.into_compressed().unwrap()}));
            }
        }};
    }
    let tables: Vec<Vec<f64>> = vec![vec![0.2, 0.5, 0.3], vec![1e-10, 1.0, 0.0], vec![0.25, 0.25, 0.5], vec![0.1, 0.2, 0.3, 0.4], vec![0.999, 0.001], vec![1.0 / 3.0, 1.0 / 3.0, 1.0 / 3.0], vec![0.1, 0.2, 0.7]];
    let mut fast_and_perfect_differ = false;
    for t in &tables {
        let alphabet: Vec<i32> = (0..t.len() as i32).collect();
        let msgs = messages(&alphabet, if t.len() >= 4 { max_len.min(3) } else { max_len });
        let fast = DefaultContiguousCategoricalEntropyModel::from_floating_point_probabilities_fast(t, None).unwrap();
        both_coders!(json!({"kind": "categorical", "probs": t, "lazy": false, "perfect": false}), msgs, fast, |&s| s as usize);
        let perfect = DefaultContiguousCategoricalEntropyModel::from_floating_point_probabilities_perfect(t).unwrap();
        both_coders!(json!({"kind": "categorical", "probs": t, "lazy": false, "perfect": true}), msgs, perfect, |&s| s as usize);
        let lazy = DefaultLazyContiguousCategoricalEntropyModel::<f64, _>::from_floating_point_probabilities_fast(t.clone(), None).unwrap();
        both_coders!(json!({"kind": "categorical", "probs": t, "lazy": true, "perfect": false}), msgs, lazy, |&s| s as usize);
        // arguments left to the binding's documented defaults: (lazy=False) -> fast; (perfect=False) -> fast;
        // (perfect=True) -> perfect; (lazy=True) -> lazy; nothing -> perfect (backward-compatible default)
        if t.len() == 3 {
            use constriction::stream::model::IterableEntropyModel;
            if fast.symbol_table().map(|(s, c, p)| (s, c, p.get())).collect::<Vec<_>>() != perfect.symbol_table().map(|(s, c, p)| (s, c, p.get())).collect::<Vec<_>>() { fast_and_perfect_differ = true; }
            let short: Vec<Vec<i32>> = msgs.iter().filter(|m| m.len() <= 2).cloned().collect();
            both_coders!(json!({"kind": "categorical", "probs": t, "lazy": false, "perfect": false, "omit": ["perfect"]}), short, fast, |&s| s as usize);
            both_coders!(json!({"kind": "categorical", "probs": t, "lazy": false, "perfect": false, "omit": ["lazy"]}), short, fast, |&s| s as usize);
            both_coders!(json!({"kind": "categorical", "probs": t, "lazy": false, "perfect": true, "omit": ["lazy"]}), short, perfect, |&s| s as usize);
            both_coders!(json!({"kind": "categorical", "probs": t, "lazy": true, "perfect": false, "omit": ["perfect"]}), short, lazy, |&s| s as usize);
            both_coders!(json!({"kind": "categorical", "probs": t, "lazy": false, "perfect": true, "omit": ["lazy", "perfect"]}), short, perfect, |&s| s as usize);
        }
        let t32: Vec<f32> = t.iter().map(|&x| x as f32).collect();
        let fast32 = DefaultContiguousCategoricalEntropyModel::from_floating_point_probabilities_fast(&t32, None).unwrap();
        let t32_as_f64: Vec<f64> = t32.iter().map(|&x| x as f64).collect();
        both_coders!(json!({"kind": "categorical", "probs": t32_as_f64, "lazy": false, "perfect": false, "f32": true}), msgs, fast32, |&s| s as usize);
        // float32 tables through the other two flavours and with the arguments left to their defaults as well (the
        // binding dispatches on the dtype in each of them separately)
        let perfect32 = DefaultContiguousCategoricalEntropyModel::from_floating_point_probabilities_perfect(&t32).unwrap();
        let lazy32 = DefaultLazyContiguousCategoricalEntropyModel::<f32, _>::from_floating_point_probabilities_fast(t32.clone(), None).unwrap();
        let short32: Vec<Vec<i32>> = msgs.iter().filter(|m| m.len() <= 3).cloned().collect();
        both_coders!(json!({"kind": "categorical", "probs": t32_as_f64, "lazy": false, "perfect": true, "f32": true}), short32, perfect32, |&s| s as usize);
        both_coders!(json!({"kind": "categorical", "probs": t32_as_f64, "lazy": true, "perfect": false, "f32": true}), short32, lazy32, |&s| s as usize);
        both_coders!(json!({"kind": "categorical", "probs": t32_as_f64, "lazy": false, "perfect": true, "f32": true, "omit": ["lazy"]}), short32, perfect32, |&s| s as usize);
        both_coders!(json!({"kind": "categorical", "probs": t32_as_f64, "lazy": true, "perfect": false, "f32": true, "omit": ["perfect"]}), short32, lazy32, |&s| s as usize);
        both_coders!(json!({"kind": "categorical", "probs": t32_as_f64, "lazy": false, "perfect": true, "f32": true, "omit": ["lazy", "perfect"]}), short32, perfect32, |&s| s as usize);
    }
    assert!(fast_and_perfect_differ, "HARNESS: the default-argument vectors are vacuous unless the fast and the perfect quantisation differ on some table");
    for (lo, hi, mean, std) in [(-5i32, 5i32, 0.7f64, 2.3f64), (-100, 100, 35.2, 10.1), (0, 1, 0.5, 1e-3)] {
        let q = DefaultLeakyQuantizer::<f64, i32>::new(lo..=hi);
        let m = q.quantize(Gaussian::new(mean, std));
        let mut alphabet = vec![lo, hi, (lo + hi) / 2];
        if hi - lo > 4 { alphabet.push(lo + 1); alphabet.push(3); }
        alphabet.sort(); alphabet.dedup();
        let msgs = messages(&alphabet, max_len.min(3));
        both_coders!(json!({"kind": "gaussian", "min": lo, "max": hi, "mean": mean, "std": std}), msgs, m, |&s| s);
    }
    for size in [2usize, 3, 10, 1000] {
        let m = DefaultUniformModel::new(size);
        let alphabet: Vec<i32> = vec![0, 1, size as i32 - 1];
        let mut alphabet = alphabet; alphabet.sort(); alphabet.dedup();
        let msgs = messages(&alphabet, max_len.min(3));
        both_coders!(json!({"kind": "uniform", "size": size}), msgs, m, |&s| s as usize);
    }
    for p in [0.3f64, 1e-9, 0.5] {
        let m = DefaultContiguousCategoricalEntropyModel::from_floating_point_probabilities_fast(&[1.0 - p, p], None).unwrap();
        let msgs = messages(&[0, 1], max_len.min(5));
        both_coders!(json!({"kind": "bernoulli", "p": p}), msgs, m, |&s| s as usize);
    }
    out
}

fn report_failures(report: &Report, v: &Value, prefix: &str) -> u64 {
    let mut n = 0;
    if let Some(fs) = v["failures"].as_array() {
        for f in fs {
            n += 1;
            report.violation(Violation {
                identity: f["what"].as_str().unwrap_or("Python front end | failure").to_string(),
                detail: format!("{prefix}{}", f["detail"].as_str().unwrap_or("")),
                case: json!({"kind": "none"}),
            });
        }
    }
    if let Some(c) = v["counters"].as_object() {
        for (k, x) in c {
            report.count(&format!("python_{k}"), x.as_u64().unwrap_or(0));
        }
    }
    n
}

fn not_covered(report: &Report, what: &str) {
    report.cap_hit(format!("Python front end not available ({what}): its part of this check is NOT covered by this run"));
    report.count("python_front_end_not_available", 1);
}

pub fn c06_part(report: &Report, max_len: usize) {
    let t = std::time::Instant::now();
    let vs = vectors(max_len);
    let dir = verif_dir().join("pyfront");
    std::fs::create_dir_all(&dir).ok();
    let path = dir.join("vectors_C06.json");
    if std::fs::write(&path, serde_json::to_string(&vs).unwrap()).is_err() {
        return not_covered(report, "cannot write the vector file");
    }
    match run_py(&["vectors", path.to_str().unwrap()]) {
        Ok(None) => return not_covered(report, "bindings not built or python3-vt missing"),
        Err(e) => { eprintln!("MACHINERY: {e}"); std::process::exit(2); }
        Ok(Some(v)) => {
            let n = v["checked"].as_u64().unwrap_or(0);
            report.add_traces(n);
            report.add_transitions(2 * n);
            report.count("python_vectors_replayed", n);
            let f = report_failures(report, &v, "");
            report.section(json!({"part": "Python front end vs Rust front end", "what": "every message up to the listed length over 7 categorical tables x {fast, perfect, lazy, f32, arguments left to their defaults}, 3 quantised Gaussians, 4 uniform models, 3 Bernoulli models, ANS and range coder: identical words, and the Rust words decode to the message",
                "max_message_length": max_len, "vectors": n, "failures": f, "wall_s": t.elapsed().as_secs_f64()}));
        }
    }
    match run_py(&["layouts"]) {
        Ok(None) => not_covered(report, "bindings not built or python3-vt missing"),
        Err(e) => { eprintln!("MACHINERY: {e}"); std::process::exit(2); }
        Ok(Some(v)) => {
            let n = v["checked"].as_u64().unwrap_or(0);
            report.add_traces(n);
            let f = report_failures(report, &v, "");
            report.section(json!({"part": "Python front end: per-symbol parameter arrays in every memory layout", "what": "every message over 3 small tables x {f32, f64} x {fast, perfect, lazy} x {C order, Fortran order, transposed view, strided view, reversed twice}: identical words (ANS and range coder) and round trip; 1-D means / standard deviations as strided and reversed views",
                "comparisons": n, "failures": f}));
        }
    }
    let tests = repo_dir().join("tests").join("python");
    match run_py(&["docexamples", tests.to_str().unwrap()]) {
        Ok(None) => not_covered(report, "bindings not built or python3-vt missing"),
        Err(e) => { eprintln!("MACHINERY: {e}"); std::process::exit(2); }
        Ok(Some(v)) => {
            let n = v["checked"].as_u64().unwrap_or(0);
            report.add_traces(n);
            report.count("python_doc_examples_run", n);
            let f = report_failures(report, &v, "");
            report.section(json!({"part": "documentation examples through the Python front end", "files": "tests/python/test_docexamples*.py, test_lazy_*.py (byte-exact compressed words asserted by the project's own documentation)", "functions": n, "failures": f}));
        }
    }
}

/// runs `tools/pyfront.py families <from> <to>` with a watchdog; returns (result, index of the case that hung)
fn run_py_families(from: u64, to: u64, timeout_s: u64) -> Result<Option<(Option<Value>, Option<u64>)>, String> {
    run_py_watch(&["families", &from.to_string(), &to.to_string()], timeout_s)
}

/// runs `tools/pyfront.py <args>` with a watchdog; Ok(None) = front end not available; Ok(Some((None, marker))) = killed
/// by the watchdog (marker = last progress marker `@i` seen on stderr)
fn run_py_watch(args: &[&str], timeout_s: u64) -> Result<Option<(Option<Value>, Option<u64>)>, String> {
    use std::io::Read;
    let dir = verif_dir();
    let so = dir.join("pyfront").join("pkg").join("constriction.so");
    if !so.exists() { return Ok(None); }
    let mut child = match std::process::Command::new("python3-vt")
        .arg(dir.join("tools").join("pyfront.py")).args(args)
        .env("PYTHONPATH", dir.join("pyfront").join("pkg")).env("PYTHONWARNINGS", "ignore")
        .stdout(std::process::Stdio::piped()).stderr(std::process::Stdio::piped()).spawn() {
        Ok(c) => c,
        Err(_) => return Ok(None),
    };
    let mut err = child.stderr.take().unwrap();
    let errt = std::thread::spawn(move || { let mut s = String::new(); let _ = err.read_to_string(&mut s); s });
    let mut out = child.stdout.take().unwrap();
    let outt = std::thread::spawn(move || { let mut s = String::new(); let _ = out.read_to_string(&mut s); s });
    let start = std::time::Instant::now();
    let mut timed_out = false;
    let mut died_on_signal: Option<i32> = None;
    loop {
        match child.try_wait() {
            Ok(Some(st)) => { use std::os::unix::process::ExitStatusExt; died_on_signal = st.signal(); break }
            Ok(None) => {
                if start.elapsed().as_secs() > timeout_s { timed_out = true; let _ = child.kill(); let _ = child.wait(); break; }
                std::thread::sleep(std::time::Duration::from_millis(50));
            }
            Err(e) => return Err(e.to_string()),
        }
    }
    let stderr = errt.join().unwrap_or_default();
    let stdout = outt.join().unwrap_or_default();
    let last_marker = stderr.lines().rev().find_map(|l| l.strip_prefix('@').and_then(|x| x.trim().parse::<u64>().ok()));
    if let (Some(sig), false) = (died_on_signal, timed_out) {
        return Err(format!("CRASH: the Python process running `pyfront.py {}` was killed by signal {sig} (last progress marker {:?}; last lines of stderr: {})", args.join(" "), last_marker, stderr.lines().rev().take(3).collect::<Vec<_>>().join(" / ")));
    }
    if timed_out {
        return Ok(Some((None, last_marker)));
    }
    let line = stdout.lines().rev().find(|l| l.starts_with('{')).ok_or_else(|| format!("pyfront.py {args:?} printed no result; stderr: {}", stderr.lines().rev().take(3).collect::<Vec<_>>().join(" / ")))?;
    let v: Value = serde_json::from_str(line).map_err(|e| e.to_string())?;
    if v.get("unavailable").is_some() { return Ok(None); }
    Ok(Some((Some(v), None)))
}

/// the parameterised model families of the Python front end with arbitrary (also invalid) parameters
fn c19_families(report: &Report) {
    let t = std::time::Instant::now();
    let mut from = 0u64;
    let mut total: Option<u64> = None;
    let (mut n, mut hangs, mut fails) = (0u64, 0u64, 0u64);
    let mut guard = 0;
    loop {
        guard += 1;
        if guard > 40 { report.cap_hit("Python model families: more than 40 restarts after hanging cases; the rest is not covered"); break; }
        let to = total.unwrap_or(u64::MAX / 2);
        match run_py_families(from, to, 40) {
            Ok(None) => return not_covered(report, "bindings not built or python3-vt missing"),
            Err(e) => { eprintln!("MACHINERY: {e}"); std::process::exit(2); }
            Ok(Some((Some(v), _))) => {
                n += v["checked"].as_u64().unwrap_or(0);
                fails += report_failures(report, &v, "");
                if total.is_none() { total = v["counters"]["family_total"].as_u64(); }
                break;
            }
            Ok(Some((None, Some(i)))) => {
                // confirm the hang of case i on its own, then go on behind it
                hangs += 1;
                let confirmed = matches!(run_py_families(i, i + 1, 20), Ok(Some((None, _))));
                // the cases before i were fine or are re-run below; re-run [from, i) to collect their findings
                if i > from {
                    if let Ok(Some((Some(v), _))) = run_py_families(from, i, 30) { n += v["checked"].as_u64().unwrap_or(0); fails += report_failures(report, &v, ""); if total.is_none() { total = v["counters"]["family_total"].as_u64(); } }
                }
                if confirmed {
                    report.violation(Violation { identity: "Python front end | parameterised model family | parameters are accepted but coding with the model does not terminate".into(),
                        detail: format!("family case #{i} of tools/pyfront.py (`python3-vt tools/pyfront.py families {i} {}`) hangs: killed by the watchdog twice", i + 1), case: json!({"kind": "none"}) });
                    fails += 1;
                }
                n += 1;
                from = i + 1;
            }
            Ok(Some((None, None))) => { report.cap_hit("Python model families: watchdog fired before the first case"); break; }
        }
    }
    report.add_states(n);
    report.count("python_family_cases", n);
    report.count("python_family_cases_hanging", hangs);
    report.section(json!({"part": "Python front end: parameterised model families with arbitrary parameters", "what": "QuantizedGaussian / Laplace / Cauchy (5 locations x 15 scales), Binomial (4 n x 15 p), Bernoulli (15 p), Uniform (9 sizes); scalar constructor arguments and per-symbol parameter arrays: an exception, or a model on which support symbols round-trip and arbitrary words decode into the support and re-encode to themselves; hangs found by watchdog",
        "cases": n, "hanging_cases": hangs, "failures": fails, "wall_s": t.elapsed().as_secs_f64()}));
}

pub fn c19_part(report: &Report) {
    c19_families(report);
    match run_py(&["constructors"]) {
        Ok(None) => not_covered(report, "bindings not built or python3-vt missing"),
        Err(e) => { eprintln!("MACHINERY: {e}"); std::process::exit(2); }
        Ok(Some(v)) => {
            let n = v["checked"].as_u64().unwrap_or(0);
            report.add_states(n);
            report.add_traces(n);
            let f = report_failures(report, &v, "");
            report.section(json!({"part": "Python front end: Categorical(probabilities, lazy, perfect)", "what": "every table of length 0..=3 over 16 boundary floats incl. negative / NaN / infinite, as f32 and f64, fast / perfect / lazy: ValueError or a valid model",
                "tables": n, "failures": f}));
        }
    }
}


/// One exhaustive sweep of `tools/pyfront.py` as a part of a property's check. `keep` selects the failures that
/// belong to the calling property by substrings of their identity (empty = all).
pub fn sweep(report: &Report, cmd: &str, arg: usize, what: &str, keep: &[&str], drop: &[&str]) {
    let t = std::time::Instant::now();
    match run_py_watch(&[cmd, &arg.to_string()], 600) {
        Ok(None) => not_covered(report, "bindings not built or python3-vt missing"),
        Err(e) if e.starts_with("CRASH: ") && (e.contains("signal 11") || e.contains("signal 4") || e.contains("signal 7") || e.contains("signal 8") || e.contains("signal 6")) => {
            // SIGSEGV / SIGILL / SIGBUS / SIGFPE / abort inside the extension module: safe Python code brought the interpreter down
            report.violation(Violation { identity: format!("Python front end | sweep `{cmd}` | the extension module crashes the interpreter"), detail: e, case: json!({"kind": "none"}) });
        }
        Err(e) => { eprintln!("MACHINERY: {e}"); std::process::exit(2); }
        Ok(Some((None, _))) => {
            report.violation(Violation { identity: format!("Python front end | sweep `{cmd}` | does not terminate"),
                detail: format!("`python3-vt tools/pyfront.py {cmd} {arg}` was killed by the watchdog after 600 s (it takes seconds on the unchanged tree)"), case: json!({"kind": "none"}) });
        }
        Ok(Some((Some(mut v), _))) => {
            let n = v["checked"].as_u64().unwrap_or(0);
            report.add_states(n);
            report.add_traces(n);
            if let Some(fs) = v["failures"].as_array() {
                let kept: Vec<Value> = fs.iter().filter(|f| {
                    let w = f["what"].as_str().unwrap_or("");
                    (keep.is_empty() || keep.iter().any(|k| w.contains(k))) && !drop.iter().any(|k| w.contains(k))
                }).cloned().collect();
                v["failures"] = Value::Array(kept);
            }
            let f = report_failures(report, &v, "");
            report.section(json!({"part": format!("Python front end: `{cmd}` sweep"), "what": what, "bound": arg, "cases": n, "counters": v["counters"], "failures": f, "wall_s": t.elapsed().as_secs_f64()}));
        }
    }
}
