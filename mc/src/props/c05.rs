//! C05 — driven by the isolated model-family sweep (see mfam.rs / mfam2.rs / mfamily.rs).
use crate::report::Report;

pub fn run(report: &Report) {
    report.bound("same inputs as C03; for every model every representation reachable from it is tabulated and compared row by row");
    report.require("representation_comparisons");
    report.require("models_built");
    super::mfamily::run(report, "C05");
    super::pyfront::sweep(report, "representations", if report.tier == crate::report::Tier::Quick { 0 } else { 1 },
        "Python front end: a concrete model, the same model with one parameter delayed to the coder call (either one), and with all parameters delayed, are one model: QuantizedGaussian / Laplace / Cauchy (2 supports x 4-7 locations x 3-5 scales x 5 representations incl. float32 arrays where exact), Binomial (3 n x 5 p x 4 representations), Bernoulli (incl. the equivalent categorical table), Uniform, Categorical (4 tables x {fast, perfect, lazy} x {f32, f64}): identical words on the ANS and the range coder for every message of length 1..3 over 3-4 symbols",
        &[], &[]);
}

pub fn replay(case: &serde_json::Value) -> Result<String, String> {
    super::mfamily::replay(case)
}
