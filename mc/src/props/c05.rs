//! C05 — driven by the isolated model-family sweep (see mfam.rs / mfam2.rs / mfamily.rs).
use crate::report::Report;

pub fn run(report: &Report) {
    report.bound("same inputs as C03; for every model every representation reachable from it is tabulated and compared row by row");
    report.require("representation_comparisons");
    report.require("models_built");
    super::mfamily::run(report, "C05");
}

pub fn replay(case: &serde_json::Value) -> Result<String, String> {
    super::mfamily::replay(case)
}
