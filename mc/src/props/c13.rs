//! C13 — chain coder: decoding then re-encoding restores the original data exactly.
//! C14 — chain coder decoding is local: symbol i depends only on chunk i and model i.
//!
//! Inputs (shared): every word string of the stated lengths, loaded with `from_binary` and (last
//! word non-zero) `from_compressed`; every sequence of k models over an alphabet of 3-part
//! partitions at the coder's precision.
//!
//! C13 oracle: after decoding (stopping at the documented out-of-data error), each of the three
//! documented continuations — same coder; `into_remainders` -> `from_remainders(suffix)`;
//! `from_remainders(prefix ++ suffix)` — followed by encoding the symbols back in reverse and
//! `into_binary` / `into_compressed` reassembles the original words. Precision schedules
//! P1 -> P2 -> P1 via change/increase/decrease_precision are undone in reverse.
//!
//! C14 oracles: O1 — an independent model of the compressed bit buffer says which P bits form
//! chunk i; symbol i must be model_i(chunk_i). O2 (differential) — replacing one model, or
//! flipping any single data bit, changes at most the symbol at the owning position and never
//! whether/when the coder runs out of data.

use super::common::*;
use crate::models::{all_pairs, extremes, part_interval, Letter, Part, Raw};
use crate::report::{Report, Tier, Violation};
use constriction::stream::chain::{ChainCoder, DecoderFrontendError};
use constriction::stream::{Decode, Encode};
use constriction::CoderError;
use rayon::prelude::*;
use serde_json::json;

#[derive(Default)]
pub struct Stats {
    cases: u64,
    steps: u64,
    out_of_data: u64,
    continuations: u64,
    flips: u64,
    model_replacements: u64,
    ref_chunk_checks: u64,
    remainder_flushes: u64,
    seeks: u64,
    single_steps: u64,
    single_refills: u64,
    single_flushes: u64,
    single_out_of_data: u64,
    single_out_of_remainders: u64,
    bad: Vec<(String, String)>,
}
impl Stats {
    fn merge(&mut self, o: Stats) {
        self.cases += o.cases;
        self.steps += o.steps;
        self.out_of_data += o.out_of_data;
        self.continuations += o.continuations;
        self.flips += o.flips;
        self.model_replacements += o.model_replacements;
        self.ref_chunk_checks += o.ref_chunk_checks;
        self.remainder_flushes += o.remainder_flushes;
        self.seeks += o.seeks;
        self.single_steps += o.single_steps;
        self.single_refills += o.single_refills;
        self.single_flushes += o.single_flushes;
        self.single_out_of_data += o.single_out_of_data;
        self.single_out_of_remainders += o.single_out_of_remainders;
        // keep at most 3 witnesses per identity so that one noisy identity cannot crowd out another
        for b in o.bad {
            if self.bad.iter().filter(|x| x.0 == b.0).count() < 3 {
                self.bad.push(b);
            }
        }
    }
}

/// reference model of the compressed bit buffer: which data bits (word index, bit index) form
/// chunk i. Words are consumed from the end of the data; a word is pulled when fewer than P
/// leftover bits remain; its low P bits are the chunk, its high W-P bits go below the leftover bits.
fn ref_chunks(nwords: usize, wbits: usize, p: usize, init_words: usize, count: usize) -> Vec<Option<Vec<(usize, usize)>>> {
    let mut head: Vec<(usize, usize)> = vec![];
    let mut next_word = nwords as isize - 1 - init_words as isize;
    let mut out = vec![];
    let mut dead = false;
    for _ in 0..count {
        if dead {
            out.push(None);
            continue;
        }
        if p == wbits || head.len() < p {
            if next_word < 0 {
                out.push(None);
                dead = true;
                continue;
            }
            let w = next_word as usize;
            next_word -= 1;
            let chunk: Vec<_> = (0..p).map(|b| (w, b)).collect();
            let mut nh: Vec<_> = (p..wbits).map(|b| (w, b)).collect();
            nh.extend(head.iter().cloned());
            head = nh;
            out.push(Some(chunk));
        } else {
            let chunk: Vec<_> = head.drain(0..p).collect();
            out.push(Some(chunk));
        }
    }
    out
}

/// the same reference for a precision SCHEDULE: position i is decoded at precision `precs[i]`; changing the
/// precision leaves the compressed head (the leftover bits) untouched, so only the rule "pull a word when fewer
/// than P_i leftover bits remain; its low P_i bits are the chunk" changes from position to position
fn ref_chunks_sched(nwords: usize, wbits: usize, precs: &[usize], init_words: usize) -> Vec<Option<Vec<(usize, usize)>>> {
    let mut head: Vec<(usize, usize)> = vec![];
    let mut next_word = nwords as isize - 1 - init_words as isize;
    let mut out = vec![];
    let mut dead = false;
    for &p in precs {
        if dead { out.push(None); continue; }
        if p == wbits || head.len() < p {
            if next_word < 0 { out.push(None); dead = true; continue; }
            let w = next_word as usize;
            next_word -= 1;
            let chunk: Vec<_> = (0..p).map(|b| (w, b)).collect();
            if p != wbits {
                let mut nh: Vec<_> = (p..wbits).map(|b| (w, b)).collect();
                nh.extend(head.iter().cloned());
                head = nh;
            }
            out.push(Some(chunk));
        } else {
            let chunk: Vec<_> = head.drain(0..p).collect();
            out.push(Some(chunk));
        }
    }
    out
}

/// companion of `ref_chunks_sched`: the leftover bits (lowest first) that the compressed head must hold AFTER
/// each position; `None` once the data has run out
fn ref_heads_sched(nwords: usize, wbits: usize, precs: &[usize], init_words: usize) -> Vec<Option<Vec<(usize, usize)>>> {
    let mut head: Vec<(usize, usize)> = vec![];
    let mut next_word = nwords as isize - 1 - init_words as isize;
    let mut out = vec![];
    let mut dead = false;
    for &p in precs {
        if dead { out.push(None); continue; }
        if p == wbits || head.len() < p {
            if next_word < 0 { out.push(None); dead = true; continue; }
            let w = next_word as usize;
            next_word -= 1;
            if p != wbits {
                let mut nh: Vec<_> = (p..wbits).map(|b| (w, b)).collect();
                nh.extend(head.iter().cloned());
                head = nh;
            }
        } else {
            head.drain(0..p);
        }
        out.push(Some(head.clone()));
    }
    out
}
/// value of a compressed head holding the given leftover bits of `data` below its marker bit
fn head_value<W: Copy + Into<u128>>(data: &[W], bits: &[(usize, usize)]) -> u128 {
    let mut v: u128 = 1u128 << bits.len();
    for (j, &(w, b)) in bits.iter().enumerate() { v |= ((data[w].into() >> b) & 1) << j; }
    v
}

macro_rules! chain_impl {
    ($modname:ident, $W:ty, $S:ty, $P:literal) => {
        pub mod $modname {
            use super::*;
            pub type CC = ChainCoder<$W, $S, Vec<$W>, Vec<$W>, $P>;
            pub const NAME: &str = concat!("ChainCoder<", stringify!($W), ",", stringify!($S), ",P=", stringify!($P), ">");
            const WBITS: usize = <$W>::BITS as usize;
            const SBITS: usize = <$S>::BITS as usize;

            fn dec(c: &mut CC, l: Letter) -> Result<u8, ()> {
                match c.decode_symbol(Part::<$W, $P> { c: l.c as $W, p: l.p as $W }) {
                    Ok(k) => Ok(k),
                    Err(CoderError::Frontend(DecoderFrontendError::OutOfCompressedData)) => Err(()),
                    Err(CoderError::Backend(_)) => unreachable!("Vec backends are infallible"),
                }
            }
            fn enc(c: &mut CC, l: Letter, k: u8) -> Result<(), String> {
                let (pc, pp) = part_interval(l.prec, l.c, l.p, k);
                c.encode_symbol((), Raw::<$W, $P> { c: pc as $W, p: pp as $W }).map_err(|e| format!("{e:?}"))
            }

            /// number of words consumed by head initialisation in `from_binary` (data independent)
            pub fn init_words_binary() -> usize {
                // head starts at 1 and pulls words while head < 2^(S-W-P)
                let threshold_bits = SBITS - WBITS - $P;
                let mut bits = 0usize; // head = 1 has bit length 1 -> value >= 2^0
                let mut n = 0;
                while bits < threshold_bits {
                    bits += WBITS;
                    n += 1;
                }
                n
            }

            fn load(data: &[$W], compressed: bool) -> Option<CC> {
                if compressed {
                    CC::from_compressed(data.to_vec()).ok()
                } else {
                    CC::from_binary(data.to_vec()).ok()
                }
            }
            fn unload(c: CC, compressed: bool) -> Result<(Vec<$W>, Vec<$W>), String> {
                if compressed {
                    c.into_compressed().map_err(|e| match e { CoderError::Frontend(_) => "into_compressed refused (not whole)".to_string(), CoderError::Backend(_) => "backend".into() })
                } else {
                    c.into_binary().map_err(|e| match e { CoderError::Frontend(_) => "into_binary refused (not whole / head not word aligned)".to_string(), CoderError::Backend(_) => "backend".into() })
                }
            }

            /// Single-step induction over arbitrary head values (uses the verification hook
            /// `verif_from_raw_parts`): for the state (compressed stack, remainders stack, compressed
            /// head `h`, remainders head `r`) and letter `l`,
            ///  (A) decode(Part l) then encode of the decoded symbol restores the state bit for bit, the
            ///      decoded symbol is what the reference says (quantile = low P bits of the head, or of
            ///      the top word when the head holds fewer than P bits), a failing decode leaves the state
            ///      untouched and can only happen on an empty compressed stack;
            ///  (B) encode(l's middle interval) then decode(Part l) returns that symbol and restores the
            ///      state; a failing encode leaves the state untouched and only happens when a refill is
            ///      needed and the remainders stack is empty;
            ///  both steps re-establish the documented invariant of the remainders head.
            pub fn single_step(h: $W, r: $S, comp: &[$W], rem: &[$W], l: Letter, st: &mut Stats) {
                let lo: u128 = 1u128 << (SBITS - WBITS - $P);
                let hi: u128 = 1u128 << (SBITS - $P);
                assert!(h != 0 && (r as u128) >= lo && (r as u128) < hi, "HARNESS: state outside the documented invariant");
                let mk = || CC::verif_from_raw_parts(comp.to_vec(), rem.to_vec(), core::num::NonZero::new(h).unwrap(), r);
                let start = (comp.to_vec(), rem.to_vec(), h, r);
                let ctx = |what: &str| format!("{NAME}: compressed {:x?} remainders {:x?} heads (compressed {:#x}, remainders {:#x}) letter {:?}: {what}", comp, rem, h, r, l);
                let inv = |c: &CC| { let (_, _, _, r2) = c.clone().verif_into_raw_parts(); (r2 as u128) >= lo && (r2 as u128) < hi };
                // (A)
                st.single_steps += 1;
                let mut c = mk();
                let needs_word = $P == WBITS || (h as u128) < (1u128 << $P);
                match dec(&mut c, l) {
                    Err(()) => {
                        st.single_out_of_data += 1;
                        if !(needs_word && comp.is_empty()) {
                            st.bad.push(("ChainCoder::decode_symbol (single step) | out of compressed data reported although data is available".into(), ctx("")));
                        } else if c.verif_into_raw_parts() != start {
                            st.bad.push(("ChainCoder::decode_symbol (single step) | a failing decode modifies the coder".into(), ctx("")));
                        }
                    }
                    Ok(k) => {
                        let src: u128 = if needs_word { match comp.last() { Some(&w) => w as u128, None => { st.bad.push(("ChainCoder::decode_symbol (single step) | symbol decoded from an empty compressed stack".into(), ctx(""))); return; } } } else { h as u128 };
                        let q = (src % (1u128 << $P)) as u64;
                        let expect = if q < l.c { 0u8 } else if q < l.c + l.p { 1 } else { 2 };
                        if k != expect {
                            st.bad.push(("ChainCoder::decode_symbol (single step) | decoded symbol is not what the model assigns to the next chunk".into(), ctx(&format!("decoded {k}, chunk {q} means {expect}"))));
                        }
                        if !inv(&c) {
                            st.bad.push(("ChainCoder::decode_symbol (single step) | remainders head leaves its documented range".into(), ctx("")));
                        }
                        { let (_, rem2, _, _) = c.clone().verif_into_raw_parts(); if rem2.len() > rem.len() { st.single_flushes += 1; } }
                        match enc(&mut c, l, k) {
                            Err(e) => st.bad.push(("ChainCoder (single step) | re-encoding the symbol just decoded fails".into(), ctx(&e))),
                            Ok(()) => {
                                let got = c.verif_into_raw_parts();
                                if got != start {
                                    st.bad.push(("ChainCoder (single step) | decode then encode does not restore the coder".into(), ctx(&format!("got {:x?}", got))));
                                }
                            }
                        }
                    }
                }
                // (B)
                st.single_steps += 1;
                let mut c = mk();
                let needs_refill = (r as u128) < ((l.p as u128) << (SBITS - WBITS - $P));
                match enc(&mut c, l, 1) {
                    Err(e) => {
                        st.single_out_of_remainders += 1;
                        if !(needs_refill && rem.is_empty()) {
                            st.bad.push(("ChainCoder::encode_symbol (single step) | encoding fails although no refill is needed or remainders are available".into(), ctx(&e)));
                        } else if c.verif_into_raw_parts() != start {
                            st.bad.push(("ChainCoder::encode_symbol (single step) | a failing encode modifies the coder".into(), ctx("")));
                        }
                    }
                    Ok(()) => {
                        if needs_refill { st.single_refills += 1; }
                        if !inv(&c) {
                            st.bad.push(("ChainCoder::encode_symbol (single step) | remainders head leaves its documented range".into(), ctx("")));
                        }
                        match dec(&mut c, l) {
                            Err(()) => st.bad.push(("ChainCoder (single step) | decoding the symbol just encoded runs out of data".into(), ctx(""))),
                            Ok(k) => {
                                let got = c.verif_into_raw_parts();
                                if k != 1 {
                                    st.bad.push(("ChainCoder (single step) | encode then decode returns a different symbol".into(), ctx(&format!("decoded {k}"))));
                                } else if got != start {
                                    st.bad.push(("ChainCoder (single step) | encode then decode does not restore the coder".into(), ctx(&format!("got {:x?}", got))));
                                }
                            }
                        }
                    }
                }
            }

            /// the sweep: `heads` x `rems` x letters x compressed stacks x remainders stacks
            pub fn single_step_sweep(report: &Report, total: &mut Stats, comp_heads: &[$W], rem_heads: Vec<$S>, letters: &[Letter], comps: &[Vec<$W>], rems: &[Vec<$W>], label: &str) {
                let t = std::time::Instant::now();
                let st = rem_heads.par_iter().map(|&r| {
                    let mut st = Stats::default();
                    for &h in comp_heads { for &l in letters { for comp in comps { for rem in rems {
                        single_step(h, r, comp, rem, l, &mut st);
                    }}}
                        if st.bad.len() > 20 { break; }
                    }
                    st
                }).reduce(Stats::default, |mut a, b| { a.merge(b); a });
                report.section(json!({"single_step_sweep": NAME, "heads": label, "compressed_heads": comp_heads.len(), "remainders_heads": rem_heads.len(), "letters": letters.len(),
                    "compressed_stacks": comps.len(), "remainders_stacks": rems.len(), "steps": st.single_steps, "refills": st.single_refills, "flushes": st.single_flushes, "wall_s": t.elapsed().as_secs_f64()}));
                total.merge(st);
            }

            /// C13 for one (data, models): decode, then the three continuations.
            pub fn restore_case(data: &[$W], models: &[Letter], compressed: bool, st: &mut Stats) {
                let Some(mut c) = load(data, compressed) else {
                    // too little data to initialise the heads: documented error, nothing to restore
                    st.out_of_data += 1;
                    return;
                };
                st.cases += 1;
                let how = if compressed { "from_compressed" } else { "from_binary" };
                let mut trail: Vec<(Letter, u8)> = vec![];
                for &l in models {
                    let before = c.clone().into_remainders().map(|(_, r)| r.len()).unwrap_or(0);
                    match dec(&mut c, l) {
                        Ok(k) => {
                            trail.push((l, k));
                            st.steps += 1;
                            let after = c.clone().into_remainders().map(|(_, r)| r.len()).unwrap_or(0);
                            if after > before { st.remainder_flushes += 1; }
                        }
                        Err(()) => {
                            st.out_of_data += 1;
                            break;
                        }
                    }
                }
                let fail = |st: &mut Stats, cont: &str, what: &str, detail: String| {
                    st.bad.push((format!("ChainCoder | {cont} | {what}"), format!("{NAME} {how}: data {:x?} models {:?}: {detail}", data, models)));
                };
                // (a) same coder
                {
                    st.continuations += 1;
                    let mut c2 = c.clone();
                    let mut ok = true;
                    for &(l, k) in trail.iter().rev() {
                        if let Err(e) = enc(&mut c2, l, k) {
                            fail(st, "same coder", "re-encoding fails", e);
                            ok = false;
                            break;
                        }
                    }
                    if ok {
                        match unload(c2, compressed) {
                            Ok((rem, comp)) => {
                                if comp != data || !rem.is_empty() {
                                    fail(st, "same coder", "decode + encode does not restore the data", format!("got remainders {:x?} compressed {:x?}", rem, comp));
                                }
                            }
                            Err(e) => fail(st, "same coder", "export refused after restoring", e),
                        }
                    }
                }
                // (b), (c) export and re-import the remainders
                let (prefix, suffix) = c.clone().into_remainders().unwrap();
                for concat in [false, true] {
                    st.continuations += 1;
                    let cont = if concat { "from_remainders(prefix ++ suffix)" } else { "from_remainders(suffix)" };
                    let input: Vec<$W> = if concat { let mut v = prefix.clone(); v.extend_from_slice(&suffix); v } else { suffix.clone() };
                    let mut c2 = match CC::from_remainders(input) {
                        Ok(c2) => c2,
                        Err(_) => { fail(st, cont, "own remainders rejected", format!("prefix {:x?} suffix {:x?}", prefix, suffix)); continue; }
                    };
                    let mut ok = true;
                    for &(l, k) in trail.iter().rev() {
                        if let Err(e) = enc(&mut c2, l, k) {
                            fail(st, cont, "re-encoding fails", e);
                            ok = false;
                            break;
                        }
                    }
                    if !ok { continue; }
                    match unload(c2, compressed) {
                        Ok((rec_prefix, rec_suffix)) => {
                            let mut rec: Vec<$W> = if concat { rec_prefix.clone() } else { prefix.clone() };
                            rec.extend_from_slice(&rec_suffix);
                            if rec != data || (!concat && !rec_prefix.is_empty()) {
                                fail(st, cont, "decode + encode does not restore the data", format!("recovered prefix {:x?} suffix {:x?} (remainders prefix {:x?} suffix {:x?})", rec_prefix, rec_suffix, prefix, suffix));
                            }
                        }
                        Err(e) => fail(st, cont, "export refused after restoring", e),
                    }
                }
            }

            fn run_decode(data: &[$W], models: &[Letter], compressed: bool) -> Option<Vec<Option<u8>>> {
                let mut c = load(data, compressed)?;
                // decoding goes on after the first out-of-data error: the error must persist
                Some(models.iter().map(|&l| dec(&mut c, l).ok()).collect())
            }

            /// C14 for one (data, models), `from_binary` loading (head initialisation is data independent)
            pub fn locality_case(data: &[$W], models: &[Letter], alt: Letter, st: &mut Stats) {
                let Some(base) = run_decode(data, models, false) else { st.out_of_data += 1; return; };
                st.cases += 1;
                let count = models.len();
                if let Some(first_none) = base.iter().position(|x| x.is_none()) {
                    if base[first_none..].iter().any(|x| x.is_some()) {
                        st.bad.push(("ChainCoder::decode_symbol | a symbol is decoded after the coder has reported that it ran out of compressed data".into(),
                            format!("{NAME}: data {:x?} models {:?}: decoded {:?}", data, models, base)));
                    }
                }
                let chunks = ref_chunks(data.len(), WBITS, $P, init_words_binary(), count);
                // O1
                for i in 0..count {
                    st.ref_chunk_checks += 1;
                    let expect = chunks[i].as_ref().map(|bits| {
                        let q: u64 = bits.iter().enumerate().map(|(k, &(w, b))| (((data[w] >> b) & 1) as u64) << k).sum();
                        let l = models[i];
                        if q < l.c { 0u8 } else if q < l.c + l.p { 1 } else { 2 }
                    });
                    if expect != base[i] {
                        st.bad.push((format!("ChainCoder::decode_symbol | symbol i is not what model i assigns to chunk i of the data"),
                            format!("{NAME}: data {:x?} models {:?} position {i}: decoded {:?}, chunk model says {:?}", data, models, base[i], expect)));
                    }
                }
                // O1b (through the verification hook): after every position the compressed head holds exactly the
                // leftover bits the reference says - a bit that is dropped or duplicated is seen at the step that
                // loses it, not only when it would have been consumed many symbols later
                {
                    let precs = vec![$P as usize; count];
                    let heads = ref_heads_sched(data.len(), WBITS, &precs, init_words_binary());
                    if let Some(mut c) = load(data, false) {
                        for i in 0..count {
                            if dec(&mut c, models[i]).is_err() { break; }
                            let Some(bits) = &heads[i] else { break };
                            let (_, _, h, _) = c.clone().verif_into_raw_parts();
                            let want = head_value(data, bits);
                            st.ref_chunk_checks += 1;
                            let h128: u128 = h.into();
                            if h128 != want {
                                st.bad.push(("ChainCoder::decode_symbol | the compressed head does not hold exactly the leftover bits of the words read so far".into(),
                                    format!("{NAME}: data {:x?} models {:?}: after position {i} the head is {:#x}, the reference bit buffer says {:#x}", data, models, h128, want)));
                                break;
                            }
                        }
                    }
                }
                // O2a: single-bit flips
                for w in 0..data.len() {
                    for b in 0..WBITS {
                        let mut d2 = data.to_vec();
                        d2[w] ^= 1 << b;
                        st.flips += 1;
                        let Some(r) = run_decode(&d2, models, false) else {
                            st.bad.push(("ChainCoder | flipping a data bit changes whether the coder can be constructed".into(), format!("{NAME}: data {:x?} bit ({w},{b})", data)));
                            continue;
                        };
                        let owner = (0..count).find(|&i| chunks[i].as_ref().map_or(false, |c| c.contains(&(w, b))));
                        for i in 0..count {
                            if r[i].is_none() != base[i].is_none() {
                                st.bad.push(("ChainCoder::decode_symbol | flipping a data bit changes when the coder runs out of data".into(),
                                    format!("{NAME}: data {:x?} models {:?} bit ({w},{b}) position {i}", data, models)));
                            } else if r[i] != base[i] && Some(i) != owner {
                                st.bad.push(("ChainCoder::decode_symbol | flipping one data bit changes a symbol at another position".into(),
                                    format!("{NAME}: data {:x?} models {:?} bit ({w},{b}) (owner {:?}) changed position {i}: {:?} -> {:?}", data, models, owner, base[i], r[i])));
                            }
                        }
                    }
                }
                // O2b: replace the model at one position
                for j in 0..count {
                    let mut ms = models.to_vec();
                    ms[j] = alt;
                    st.model_replacements += 1;
                    let r = run_decode(data, &ms, false).unwrap();
                    for i in 0..count {
                        if r[i].is_none() != base[i].is_none() {
                            st.bad.push(("ChainCoder::decode_symbol | replacing one model changes when the coder runs out of data".into(),
                                format!("{NAME}: data {:x?} models {:?} replaced #{j} position {i}", data, models)));
                        } else if i != j && r[i] != base[i] {
                            st.bad.push(("ChainCoder::decode_symbol | replacing the model at one position changes a symbol at another position".into(),
                                format!("{NAME}: data {:x?} models {:?} replaced #{j} by {:?}: position {i}: {:?} -> {:?}", data, models, alt, base[i], r[i])));
                        }
                    }
                }
            }

            /// C14 after random access: decode i symbols, record `pos()`, decode on speculatively with a
            /// different model, `seek` back to the record, decode the rest: symbol j must again be what model j
            /// assigns to chunk j (= what the straight-through run decoded), wherever the coder was in between.
            pub fn seek_case(data: &[$W], models: &[Letter], alt: Letter, st: &mut Stats) {
                use constriction::backends::Cursor;
                use constriction::{Pos, Seek};
                type SC = ChainCoder<$W, $S, Cursor<$W, Vec<$W>>, Vec<$W>, $P>;
                let Some(base) = run_decode(data, models, false) else { return; };
                let count = models.len();
                let d = |c: &mut SC, l: Letter| -> Option<u8> { c.decode_symbol(Part::<$W, $P> { c: l.c as $W, p: l.p as $W }).ok() };
                for i in 0..count {
                    let Ok(mut c) = SC::from_binary(Cursor::new_at_write_end(data.to_vec())) else { return; };
                    let mut ok = true;
                    for j in 0..i { if d(&mut c, models[j]) != base[j] || base[j].is_none() { ok = false; break; } }
                    if !ok { continue; }
                    let snapshot = c.pos();
                    // a seek whose backend position lies beyond the data (with the heads of ANOTHER moment) is refused and
                    // leaves the coder where it was: decoding goes on as in the straight-through run
                    if i > 0 {
                        let Ok(fresh) = SC::from_binary(Cursor::new_at_write_end(data.to_vec())) else { return; };
                        let mut stale = fresh.pos();
                        stale.0.compressed = data.len() + 3;
                        let mut e = c.clone();
                        st.seeks += 1;
                        if e.seek(stale).is_ok() {
                            st.bad.push(("ChainCoder::seek | a position beyond the data is accepted".into(), format!("{NAME}: data {:x?} after {i} symbols", data)));
                        } else {
                            for j in i..count {
                                let got = d(&mut e, models[j]);
                                if got != base[j] {
                                    st.bad.push(("ChainCoder::seek | a refused seek changes the coder: later symbols are no longer what their models assign to their chunks".into(),
                                        format!("{NAME}: data {:x?} models {:?}: refused seek after {i} symbols, position {j} decodes {:?}, straight-through {:?}", data, models, got, base[j])));
                                    break;
                                }
                                if got.is_none() { break; }
                            }
                        }
                    }
                    for _ in i..count { let _ = d(&mut c, alt); }
                    st.seeks += 1;
                    if c.seek(snapshot).is_err() {
                        st.bad.push(("ChainCoder::seek | a position recorded from the same coder is refused".into(), format!("{NAME}: data {:x?} models {:?} snapshot after {i} symbols", data, models)));
                        continue;
                    }
                    for j in i..count {
                        let got = d(&mut c, models[j]);
                        if got != base[j] {
                            st.bad.push(("ChainCoder::seek | after seeking back, a symbol is no longer what its model assigns to its chunk".into(),
                                format!("{NAME}: data {:x?} models {:?}: snapshot after {i} symbols, speculative decoding with {:?}, seek back: position {j} decodes {:?}, straight-through {:?}", data, models, alt, got, base[j])));
                            break;
                        }
                        if got.is_none() { break; }
                    }
                }
            }
        }
    };
}

chain_impl!(c8_16_2, u8, u16, 2);
// every PRECISION 1..=8 on (u8,u16): all relations between PRECISION and Word::BITS (dividing / not dividing,
// 2P <= W / 2P > W, W - P equal to / different from gcd(P, W), P = W)
chain_impl!(c8_16_1, u8, u16, 1);
chain_impl!(c8_16_3, u8, u16, 3);
chain_impl!(c8_16_5, u8, u16, 5);
chain_impl!(c8_16_6, u8, u16, 6);
chain_impl!(c8_16_7, u8, u16, 7);
chain_impl!(c8_32_5, u8, u32, 5);
chain_impl!(c16_32_10, u16, u32, 10);
chain_impl!(c16_32_9, u16, u32, 9);
chain_impl!(c8_16_4, u8, u16, 4);
chain_impl!(c8_16_8, u8, u16, 8);
chain_impl!(c8_32_2, u8, u32, 2);
chain_impl!(c8_32_8, u8, u32, 8);
chain_impl!(c8_64_3, u8, u64, 3);
chain_impl!(c16_32_12, u16, u32, 12);
chain_impl!(c16_32_16, u16, u32, 16);
chain_impl!(c32_64_24, u32, u64, 24);

/// precision schedules: decode a symbols at P1, change to P2, decode b symbols, change back, decode c;
/// re-encode in reverse with the changes undone in reverse.
macro_rules! schedule_impl {
    ($fname:ident, $W:ty, $S:ty, $P1:literal, $P2:literal) => {
        fn $fname(data: &[$W], m1: &[Letter], m2: &[Letter], m3: &[Letter], st: &mut Stats) {
            type C1 = ChainCoder<$W, $S, Vec<$W>, Vec<$W>, $P1>;
            type C2 = ChainCoder<$W, $S, Vec<$W>, Vec<$W>, $P2>;
            let name = concat!("ChainCoder<", stringify!($W), ",", stringify!($S), "> P=", stringify!($P1), "->", stringify!($P2), "->", stringify!($P1));
            let Ok(mut c) = C1::from_binary(data.to_vec()) else { st.out_of_data += 1; return; };
            st.cases += 1;
            let d1 = |c: &mut C1, l: Letter| c.decode_symbol(Part::<$W, $P1> { c: l.c as $W, p: l.p as $W }).ok();
            let d2 = |c: &mut C2, l: Letter| c.decode_symbol(Part::<$W, $P2> { c: l.c as $W, p: l.p as $W }).ok();
            let e1 = |c: &mut C1, l: Letter, k: u8| { let (pc, pp) = part_interval(l.prec, l.c, l.p, k); c.encode_symbol((), Raw::<$W, $P1> { c: pc as $W, p: pp as $W }).map_err(|e| format!("{e:?}")) };
            let e2 = |c: &mut C2, l: Letter, k: u8| { let (pc, pp) = part_interval(l.prec, l.c, l.p, k); c.encode_symbol((), Raw::<$W, $P2> { c: pc as $W, p: pp as $W }).map_err(|e| format!("{e:?}")) };
            let mut t1 = vec![]; let mut t2 = vec![]; let mut t3 = vec![];
            // compressed heads after every decode (through the verification hook), for the C14 oracle below
            let hd1 = |c: &C1| -> u128 { c.clone().verif_into_raw_parts().2.into() };
            let hd2 = |c: &C2| -> u128 { c.clone().verif_into_raw_parts().2.into() };
            let mut h1: Vec<u128> = vec![]; let mut h2: Vec<u128> = vec![]; let mut h3: Vec<u128> = vec![];
            for &l in m1 { match d1(&mut c, l) { Some(k) => { t1.push((l, k)); h1.push(hd1(&c)); st.steps += 1; } None => { st.out_of_data += 1; return; } } }
            // three ways of changing the precision
            for variant in 0..2 {
                let mut cc: C2 = if variant == 0 {
                    // Lowering the precision needs a larger remainders head and may legitimately report
                    // OutOfRemainders when nothing has been flushed yet (an error, never wrong output).
                    match c.clone().change_precision::<$P2>() { Ok(x) => x, Err(_) => { st.out_of_data += 1; return; } }
                } else if $P2 > $P1 {
                    match c.clone().increase_precision::<{ if $P2 > $P1 { $P2 } else { $P1 } }>() { Ok(x) => unsafe_cast::<_, C2>(x), Err(_) => return }
                } else {
                    continue;
                };
                t2.clear(); t3.clear(); h2.clear(); h3.clear();
                let mut out = false;
                for &l in m2 { match d2(&mut cc, l) { Some(k) => { t2.push((l, k)); h2.push(hd2(&cc)); st.steps += 1; } None => { out = true; break; } } }
                if out { st.out_of_data += 1; continue; }
                let mut c3: C1 = match cc.change_precision::<$P1>() { Ok(x) => x, Err(_) => { st.out_of_data += 1; continue; } };
                for &l in m3 { match d1(&mut c3, l) { Some(k) => { t3.push((l, k)); h3.push(hd1(&c3)); st.steps += 1; } None => { out = true; break; } } }
                if out { st.out_of_data += 1; continue; }
                // C14 under a precision schedule: every decoded symbol is what its model assigns to its chunk of the data
                {
                    let wbits = <$W>::BITS as usize;
                    let sbits = <$S>::BITS as usize;
                    let init_words = { let need = sbits - wbits - $P1; (need + wbits - 1) / wbits };
                    let precs: Vec<usize> = t1.iter().map(|_| $P1 as usize).chain(t2.iter().map(|_| $P2 as usize)).chain(t3.iter().map(|_| $P1 as usize)).collect();
                    let chunks = ref_chunks_sched(data.len(), wbits, &precs, init_words);
                    let heads = ref_heads_sched(data.len(), wbits, &precs, init_words);
                    for (i, &h) in h1.iter().chain(h2.iter()).chain(h3.iter()).enumerate() {
                        let Some(bits) = &heads[i] else { break };
                        let want = head_value(data, bits);
                        if h != want {
                            st.bad.push(("C14:ChainCoder::decode_symbol | precision schedule | the compressed head does not hold exactly the leftover bits of the words read so far".into(),
                                format!("{name} (variant {variant}): data {:x?} models {:?}/{:?}/{:?}: after position {i} the head is {h:#x}, the reference bit buffer says {want:#x}", data, m1, m2, m3)));
                            break;
                        }
                    }
                    for (i, &(l, k)) in t1.iter().chain(t2.iter()).chain(t3.iter()).enumerate() {
                        st.ref_chunk_checks += 1;
                        let expect = chunks[i].as_ref().map(|bits| {
                            let q: u64 = bits.iter().enumerate().map(|(j, &(w, b))| (((data[w] >> b) & 1) as u64) << j).sum();
                            if q < l.c { 0u8 } else if q < l.c + l.p { 1 } else { 2 }
                        });
                        if expect != Some(k) {
                            st.bad.push(("C14:ChainCoder::decode_symbol | precision schedule | symbol i is not what model i assigns to chunk i of the data".into(),
                                format!("{name} (variant {variant}): data {:x?} models {:?}/{:?}/{:?}: position {i} decoded {k}, chunk model says {:?}", data, m1, m2, m3, expect)));
                            break;
                        }
                    }
                }
                // way back, through exported remainders
                st.continuations += 1;
                let (prefix, suffix) = c3.into_remainders().unwrap();
                let mut b: C1 = match C1::from_remainders(suffix.clone()) { Ok(b) => b, Err(_) => { st.bad.push(("ChainCoder::from_remainders | own remainders rejected".into(), format!("{name}: data {:x?}", data))); continue; } };
                let mut err = None;
                for &(l, k) in t3.iter().rev() { if let Err(e) = e1(&mut b, l, k) { err = Some(e); break; } }
                let mut b2: C2 = match b.change_precision::<$P2>() { Ok(x) => x, Err(_) => { st.bad.push(("ChainCoder::change_precision | undoing a precision change fails while re-encoding".into(), format!("{name}: data {:x?} models {:?}/{:?}/{:?}", data, m1, m2, m3))); continue; } };
                for &(l, k) in t2.iter().rev() { if let Err(e) = e2(&mut b2, l, k) { err = Some(e); break; } }
                let mut b3: C1 = match b2.change_precision::<$P1>() { Ok(x) => x, Err(_) => { st.bad.push(("ChainCoder::change_precision | undoing a precision change fails while re-encoding".into(), format!("{name}: data {:x?} models {:?}/{:?}/{:?}", data, m1, m2, m3))); continue; } };
                for &(l, k) in t1.iter().rev() { if let Err(e) = e1(&mut b3, l, k) { err = Some(e); break; } }
                if let Some(e) = err {
                    st.bad.push(("ChainCoder | precision schedule | re-encoding fails".into(), format!("{name}: data {:x?} models {:?}/{:?}/{:?}: {e}", data, m1, m2, m3)));
                    continue;
                }
                match b3.into_binary() {
                    Ok((rp, rs)) => {
                        let mut rec = prefix.clone();
                        rec.extend_from_slice(&rs);
                        if rec != data || !rp.is_empty() {
                            st.bad.push(("ChainCoder | precision schedule | decode + encode with the changes undone in reverse does not restore the data".into(),
                                format!("{name} (variant {variant}): data {:x?} models {:?}/{:?}/{:?}: recovered {:x?} + {:x?}", data, m1, m2, m3, prefix, rs)));
                        }
                    }
                    Err(_) => st.bad.push(("ChainCoder | precision schedule | export refused after restoring".into(), format!("{name}: data {:x?} models {:?}/{:?}/{:?}", data, m1, m2, m3))),
                }
            }
        }
    };
}

// identity cast used only where the const-generic expression `{max(P1,P2)}` equals P2
fn unsafe_cast<A: 'static, B: 'static>(a: A) -> B {
    let boxed: Box<dyn std::any::Any> = Box::new(a);
    *boxed.downcast::<B>().expect("HARNESS: precision types must coincide")
}

schedule_impl!(sched_8_32_2_4, u8, u32, 2, 4);
schedule_impl!(sched_8_32_4_2, u8, u32, 4, 2);
schedule_impl!(sched_8_32_2_8, u8, u32, 2, 8);
schedule_impl!(sched_8_32_8_2, u8, u32, 8, 2);
schedule_impl!(sched_8_16_4_8, u8, u16, 4, 8);
schedule_impl!(sched_8_16_8_4, u8, u16, 8, 4);
// schedules through precisions that do NOT divide the word size: leftover bits are carried across the change
schedule_impl!(sched_8_32_3_4, u8, u32, 3, 4);
schedule_impl!(sched_8_32_4_3, u8, u32, 4, 3);
schedule_impl!(sched_8_32_5_2, u8, u32, 5, 2);
schedule_impl!(sched_8_32_3_8, u8, u32, 3, 8);
schedule_impl!(sched_8_16_5_6, u8, u16, 5, 6);
schedule_impl!(sched_16_32_12_8, u16, u32, 12, 8);
schedule_impl!(sched_16_32_10_16, u16, u32, 10, 16);
schedule_impl!(sched_16_32_12_16, u16, u32, 12, 16);
schedule_impl!(sched_16_32_16_8, u16, u32, 16, 8);

/// the batch / reverse / fallible / iid forms of the chain coder equal the per-symbol loop (symbols decoded,
/// complete coder state, and the data restored by the batch encoders)
fn batch_forms_chain(report: &Report, total: &mut Stats) {
    type CC = ChainCoder<u8, u16, Vec<u8>, Vec<u8>, 2>;
    let few8: Vec<u8> = vec![0x00, 0x01, 0x80, 0xff, 0x5a];
    let letters = all_pairs(2);
    let seqs = model_seqs(&letters, 3);
    let datas: Vec<Vec<u8>> = (2..=4).flat_map(|len| all_words(&few8, len)).collect();
    let part = |l: &Letter| Part::<u8, 2> { c: l.c as u8, p: l.p as u8 };
    let raw = |l: &Letter, k: u8| { let (c, p) = part_interval(2, l.c, l.p, k); Raw::<u8, 2> { c: c as u8, p: p as u8 } };
    let st = datas.par_iter().map(|d| {
        let mut st = Stats::default();
        let Ok(base) = CC::from_binary(d.clone()) else { return st };
        for s in &seqs {
            // reference: per-symbol loop
            let mut a = base.clone();
            let mut syms: Vec<u8> = vec![];
            let mut ok = true;
            for l in s { match a.decode_symbol(part(l)) { Ok(k) => syms.push(k), Err(_) => { ok = false; break; } } }
            if !ok { st.out_of_data += 1; continue; }
            st.cases += 1;
            let want_state = a.clone().verif_into_raw_parts();
            let fail = |st: &mut Stats, what: &str, detail: String| st.bad.push((format!("ChainCoder::{what} | differs from the per-symbol loop"), format!("ChainCoder<u8,u16,P=2>: data {:x?} models {:?}: {detail}", d, s)));
            // decode forms
            {
                let mut b = base.clone();
                let got: Vec<Option<u8>> = b.decode_symbols(s.iter().map(|l| part(l))).map(|r| r.ok()).collect();
                if got != syms.iter().map(|&k| Some(k)).collect::<Vec<_>>() || b.verif_into_raw_parts() != want_state { fail(&mut st, "decode_symbols", format!("{:?} vs {:?}", got, syms)); }
                let mut b = base.clone();
                let got: Vec<Option<u8>> = b.try_decode_symbols(s.iter().map(|l| Ok::<_, ()>(part(l)))).map(|r| r.ok()).collect();
                if got != syms.iter().map(|&k| Some(k)).collect::<Vec<_>>() || b.verif_into_raw_parts() != want_state { fail(&mut st, "try_decode_symbols", format!("{:?} vs {:?}", got, syms)); }
                if s.iter().all(|l| l == &s[0]) {
                    let mut b = base.clone();
                    let m = part(&s[0]);
                    let got: Vec<Option<u8>> = b.decode_iid_symbols(s.len(), &m).map(|r| r.ok()).collect();
                    if got != syms.iter().map(|&k| Some(k)).collect::<Vec<_>>() || b.verif_into_raw_parts() != want_state { fail(&mut st, "decode_iid_symbols", format!("{:?} vs {:?}", got, syms)); }
                }
                st.steps += 3;
            }
            // encode forms, starting from the decoded coder: all must restore the loaded coder
            let want_back = base.clone().verif_into_raw_parts();
            let pairs: Vec<((), Raw<u8, 2>)> = s.iter().zip(&syms).map(|(l, &k)| ((), raw(l, k))).collect();
            {
                let mut b = a.clone();
                let r = b.encode_symbols_reverse(pairs.clone());
                if r.is_err() || b.verif_into_raw_parts() != want_back { fail(&mut st, "encode_symbols_reverse", format!("{:?}", r.is_ok())); }
                let mut b = a.clone();
                let r = b.try_encode_symbols_reverse(pairs.iter().cloned().map(Ok::<_, ()>).collect::<Vec<_>>());
                if r.is_err() || b.verif_into_raw_parts() != want_back { fail(&mut st, "try_encode_symbols_reverse", format!("{:?}", r.is_ok())); }
                let mut b = a.clone();
                let r = b.encode_symbols(pairs.iter().rev().cloned());
                if r.is_err() || b.verif_into_raw_parts() != want_back { fail(&mut st, "encode_symbols", format!("{:?}", r.is_ok())); }
                if pairs.iter().all(|p| p.1 == pairs[0].1) {
                    let mut b = a.clone();
                    let r = b.encode_iid_symbols_reverse(pairs.iter().map(|p| p.0), pairs[0].1);
                    if r.is_err() || b.verif_into_raw_parts() != want_back { fail(&mut st, "encode_iid_symbols_reverse", format!("{:?}", r.is_ok())); }
                }
                st.steps += 4;
                st.continuations += 1;
            }
            if st.bad.len() > 20 { break; }
        }
        st
    }).reduce(Stats::default, |mut a, b| { a.merge(b); a });
    report.section(json!({"part": "batch / reverse / fallible / iid forms of the chain coder vs the per-symbol loop", "coder": "ChainCoder<u8,u16,P=2>", "data_strings": datas.len(), "model_sequences": seqs.len(), "cases": st.cases}));
    report.count("chain_batch_form_cases", st.cases);
    total.merge(st);
}

/// the precision-schedule runs (shared by C13: restoration, and C14: chunk locality under a schedule)
fn run_schedules(report: &Report, total: &mut Stats, q: bool) {
    let few8: Vec<u8> = vec![0x00, 0x01, 0x80, 0xff, 0x5a];
    let few16: Vec<u16> = vec![0, 1, 0x8000, 0xffff, 0x5a5a];
    // precision schedules
    let t = std::time::Instant::now();
    let datas8: Vec<Vec<u8>> = (4..=(if q { 5 } else { 7 })).flat_map(|len| all_words(&few8, len)).collect();
    // 32-bit state: head initialisation alone takes 3 words, so the data must be longer
    let three8: Vec<u8> = vec![0x00, 0xff, 0x5a];
    let datas8w: Vec<Vec<u8>> = (7..=(if q { 7 } else { 9 })).flat_map(|len| all_words(&three8, len)).collect();
    let _ = &few16;
    let three16: Vec<u16> = vec![0, 0xffff, 0x5a5a];
    let datas16: Vec<Vec<u16>> = (6..=(if q { 7 } else { 9 })).flat_map(|len| all_words(&three16, len)).collect();
    macro_rules! sched {
        ($f:ident, $datas:expr, $p1:expr, $p2:expr) => {{
            let l1 = letters_at($p1);
            let l2 = letters_at($p2);
            // 1 symbol at P1, 2 at P2, 3 at P1 again (a defect in how leftover bits survive the change may only
            // show a few symbols after switching back); model sequences thinned out deterministically
            let thin = |v: Vec<Vec<Letter>>, want: usize| -> Vec<Vec<Letter>> { let st = (v.len() / want).max(1); v.into_iter().step_by(st).collect() };
            let s1: Vec<Vec<Letter>> = thin(model_seqs(&l1, 1), 6);
            let s2: Vec<Vec<Letter>> = thin(model_seqs(&l2, 2), if q { 7 } else { 27 });
            let s3: Vec<Vec<Letter>> = thin(model_seqs(&l1, 3), if q { 7 } else { 27 });
            let st = $datas.par_iter().map(|d| {
                let mut st = Stats::default();
                for a in &s1 { for b in &s2 { for c in &s3 {
                    $f(d, a, b, c, &mut st);
                }}}
                st
            }).reduce(Stats::default, |mut a, b| { a.merge(b); a });
            report.section(json!({"precision_schedule": stringify!($f), "data_strings": $datas.len(), "cases": st.cases, "restored": st.continuations}));
            // a schedule in which no case reaches its end decides nothing: a required counter, so that a run without
            // violations elsewhere exits 2 (vacuous) — while a change that makes every case of the schedule end in a
            // documented error still lets the other parts of the check speak
            report.require(concat!("precision_schedule_", stringify!($f), "_cases_restored"));
            report.count(concat!("precision_schedule_", stringify!($f), "_cases_restored"), st.continuations + st.bad.len() as u64);
            total.merge(st);
        }};
    }
    sched!(sched_8_32_2_4, datas8w, 2, 4);
    sched!(sched_8_32_4_2, datas8w, 4, 2);
    sched!(sched_8_32_2_8, datas8w, 2, 8);
    sched!(sched_8_32_8_2, datas8w, 8, 2);
    sched!(sched_8_16_4_8, datas8, 4, 8);
    sched!(sched_8_16_8_4, datas8, 8, 4);
    sched!(sched_8_32_3_4, datas8w, 3, 4);
    sched!(sched_8_32_4_3, datas8w, 4, 3);
    sched!(sched_8_32_5_2, datas8w, 5, 2);
    sched!(sched_8_32_3_8, datas8w, 3, 8);
    sched!(sched_8_16_5_6, datas8, 5, 6);
    sched!(sched_16_32_12_8, datas16, 12, 8);
    sched!(sched_16_32_10_16, datas16, 10, 16);
    sched!(sched_16_32_12_16, datas16, 12, 16);
    sched!(sched_16_32_16_8, datas16, 16, 8);
    report.section(json!({"precision_schedules_wall_s": t.elapsed().as_secs_f64()}));
}

fn letters_at(p: u8) -> Vec<Letter> {
    if p <= 3 { all_pairs(p) } else {
        let mut v = extremes(p);
        let t = 1u64 << p;
        v.push(Letter::new(p, t / 4, t / 2));
        v.push(Letter::new(p, 3, 5));
        v.retain(|l| l.well_formed());
        v.sort(); v.dedup();
        v
    }
}

fn model_seqs(letters: &[Letter], k: usize) -> Vec<Vec<Letter>> {
    let mut out = vec![];
    let n = letters.len().pow(k as u32);
    for idx in 0..n {
        out.push((0..k).map(|i| letters[idx / letters.len().pow(i as u32) % letters.len()]).collect());
    }
    out
}

fn all_words<T: Copy>(letters: &[T], len: usize) -> Vec<Vec<T>> {
    let n = letters.len().pow(len as u32);
    (0..n).map(|idx| (0..len).map(|i| letters[idx / letters.len().pow(i as u32) % letters.len()]).collect()).collect()
}

macro_rules! run_restore {
    ($report:expr, $total:expr, $m:ident, $W:ty, $datas:expr, $p:expr, $k:expr, $label:expr) => {{
        let t = std::time::Instant::now();
        let letters = letters_at($p);
        let seqs = model_seqs(&letters, $k);
        let datas: Vec<Vec<$W>> = $datas;
        let st = datas.par_iter().map(|d| {
            let mut st = Stats::default();
            for s in &seqs {
                $m::restore_case(d, s, false, &mut st);
                if d.last().map_or(false, |&w| w != 0) {
                    $m::restore_case(d, s, true, &mut st);
                }
                if st.bad.len() > 50 { break; }
            }
            st
        }).reduce(Stats::default, |mut a, b| { a.merge(b); a });
        $report.section(json!({"coder": $m::NAME, "data": $label, "data_strings": datas.len(), "models_per_position": letters.len(), "decoded_symbols": $k,
            "cases": st.cases, "decode_calls": st.steps, "continuations": st.continuations, "ran_out_of_data": st.out_of_data, "wall_s": t.elapsed().as_secs_f64()}));
        $total.merge(st);
    }};
}

macro_rules! run_locality {
    ($report:expr, $total:expr, $m:ident, $W:ty, $datas:expr, $p:expr, $k:expr, $stride:expr, $label:expr) => {{
        let t = std::time::Instant::now();
        let letters = letters_at($p);
        let seqs: Vec<Vec<Letter>> = model_seqs(&letters, $k).into_iter().step_by($stride).collect();
        let alt = letters[letters.len() / 2];
        let datas: Vec<Vec<$W>> = $datas;
        let st = datas.par_iter().map(|d| {
            let mut st = Stats::default();
            for s in &seqs {
                $m::locality_case(d, s, alt, &mut st);
                $m::seek_case(d, s, alt, &mut st);
                if st.bad.len() > 50 { break; }
            }
            st
        }).reduce(Stats::default, |mut a, b| { a.merge(b); a });
        $report.section(json!({"coder": $m::NAME, "data": $label, "data_strings": datas.len(), "model_sequences": seqs.len(), "positions": $k,
            "seeks": st.seeks, "cases": st.cases, "reference_chunk_checks": st.ref_chunk_checks, "bit_flips": st.flips, "model_replacements": st.model_replacements, "wall_s": t.elapsed().as_secs_f64()}));
        $total.merge(st);
    }};
}

fn finish(report: &Report, total: Stats, c14: bool) {
    report.add_states(total.cases);
    report.add_transitions(total.steps + total.flips + total.model_replacements);
    report.add_traces(if c14 { total.cases + total.flips + total.model_replacements } else { total.continuations });
    report.count("cases", total.cases);
    report.count("ran_out_of_compressed_data", total.out_of_data);
    if c14 {
        report.count("reference_chunk_checks", total.ref_chunk_checks);
        report.count("single_bit_flips", total.flips);
        report.count("model_replacements", total.model_replacements);
        report.count("seeks_back_after_speculative_decoding", total.seeks);
    } else {
        report.count("decode_calls", total.steps);
        report.count("continuations_restored", total.continuations);
        report.count("decodes_that_flushed_the_remainders_head", total.remainder_flushes);
        report.count("single_steps_from_arbitrary_heads", total.single_steps);
        report.count("single_step_refills", total.single_refills);
        report.count("single_step_flushes", total.single_flushes);
        report.count("single_step_out_of_compressed_data", total.single_out_of_data);
        report.count("single_step_out_of_remainders", total.single_out_of_remainders);
    }
    for (i, d) in total.bad {
        // findings tagged "C14:" belong to C14 (chunk locality), everything else produced by the shared runs to C13
        let (is14, i) = match i.strip_prefix("C14:") { Some(rest) => (true, rest.to_string()), None => (false, i) };
        if is14 != c14 && (is14 || i.contains("precision schedule") || i.contains("change_precision") || i.contains("from_remainders")) {
            continue;
        }
        report.violation(Violation { identity: i, detail: d, case: json!({"kind": "none"}) });
    }
}

pub fn run(report: &Report) {
    let q = report.tier == Tier::Quick;
    report.bound("every word string of the listed lengths x every model sequence of the listed length; from_binary and (last word != 0) from_compressed; three continuations each; 15 precision schedules P1->P2->P1 (also through precisions that do not divide the word size)");
    report.assume("models are 3-part partitions around each letter of the alphabet at the coder's precision");
    for n in ["ran_out_of_compressed_data", "continuations_restored", "decodes_that_flushed_the_remainders_head", "single_steps_from_arbitrary_heads",
        "single_step_refills", "single_step_flushes", "single_step_out_of_compressed_data", "single_step_out_of_remainders"] {
        report.require(n);
    }
    let all8: Vec<u8> = (0..=255u8).collect();
    let few8: Vec<u8> = vec![0x00, 0x01, 0x80, 0xff, 0x5a];
    let mut total = Stats::default();
    report.sample(json!({"coder": "ChainCoder<u8,u16,P=2>", "data": ["a7", "03"], "models_[prec,cum,prob]": [[2, 1, 2], [2, 0, 1]],
        "continuations": ["same coder", "from_remainders(suffix)", "from_remainders(prefix ++ suffix)"]}));
    for len in 1..=2usize {
        run_restore!(report, total, c8_16_2, u8, all_words(&all8, len), 2, if q { 3 } else { 4 }, format!("all u8 strings of length {len}"));
        // (32-bit state: head initialisation consumes the last 3 words; the payload words in front of them are exhaustive)
        run_restore!(report, total, c8_32_2, u8, all_words(&all8, len).into_iter().flat_map(|w| all_words(&few8, 3).into_iter().map(move |t| { let mut v = w.clone(); v.extend(t); v })).step_by(if len == 2 { 211 } else { 1 }).collect::<Vec<_>>(), 2, if q { 2 } else { 3 }, format!("every u8 payload string of length {len} (length 2: every 211th) in front of 3 initialisation words over {{00,01,80,ff,5a}}"));
    }
    for len in 3..=(if q { 5 } else { 6 }) {
        run_restore!(report, total, c8_16_2, u8, all_words(&few8, len), 2, if q { 3 } else { 4 }, format!("strings over {{00,01,80,ff,5a}} of length {len}"));
        run_restore!(report, total, c8_32_2, u8, all_words(&few8, len), 2, if q { 3 } else { 4 }, format!("strings over {{00,01,80,ff,5a}} of length {len}"));
        run_restore!(report, total, c8_16_4, u8, all_words(&few8, len), 4, 3, format!("strings over 5 words of length {len}"));
        run_restore!(report, total, c8_16_1, u8, all_words(&few8, len), 1, 5, format!("strings over 5 words of length {len}"));
        run_restore!(report, total, c8_16_3, u8, all_words(&few8, len), 3, 2, format!("strings over 5 words of length {len}"));
        run_restore!(report, total, c8_16_5, u8, all_words(&few8, len), 5, 3, format!("strings over 5 words of length {len}"));
        run_restore!(report, total, c8_16_6, u8, all_words(&few8, len), 6, 3, format!("strings over 5 words of length {len}"));
        run_restore!(report, total, c8_16_7, u8, all_words(&few8, len), 7, 3, format!("strings over 5 words of length {len}"));
        run_restore!(report, total, c8_32_5, u8, all_words(&few8, len), 5, 3, format!("strings over 5 words of length {len}"));
        run_restore!(report, total, c8_16_8, u8, all_words(&few8, len), 8, 3, format!("strings over 5 words of length {len}"));
        run_restore!(report, total, c8_32_8, u8, all_words(&few8, len), 8, 3, format!("strings over 5 words of length {len}"));
    }
    let three8: Vec<u8> = vec![0x00, 0xff, 0x5a];
    for len in 8..=(if q { 8 } else { 10 }) {
        // 64-bit state: head initialisation alone consumes 7 words
        run_restore!(report, total, c8_64_3, u8, all_words(&three8, len), 3, 2, format!("strings over {{00,ff,5a}} of length {len}"));
    }
    if !q {
        run_restore!(report, total, c8_16_2, u8, all_words(&all8, 3), 2, 2, "all u8 strings of length 3".to_string());
        run_restore!(report, total, c8_16_8, u8, all_words(&all8, 2), 8, 2, "all u8 strings of length 2".to_string());
    }
    let few16: Vec<u16> = vec![0, 1, 0x8000, 0xffff, 0x5a5a];
    let few32: Vec<u32> = vec![0, 1, 0x8000_0000, 0xffff_ffff, 0x5a5a_5a5a];
    for len in 1..=4usize {
        run_restore!(report, total, c16_32_12, u16, all_words(&few16, len), 12, 3, format!("strings over 5 boundary words of length {len}"));
        run_restore!(report, total, c16_32_10, u16, all_words(&few16, len), 10, 3, format!("strings over 5 boundary words of length {len}"));
        run_restore!(report, total, c16_32_9, u16, all_words(&few16, len), 9, 3, format!("strings over 5 boundary words of length {len}"));
        run_restore!(report, total, c16_32_16, u16, all_words(&few16, len), 16, 3, format!("strings over 5 boundary words of length {len}"));
        run_restore!(report, total, c32_64_24, u32, all_words(&few32, len), 24, 3, format!("strings over 5 boundary words of length {len}"));
    }
    run_schedules(report, &mut total, q);
    batch_forms_chain(report, &mut total);
    single_step_part(report, &mut total, q);
    super::pyfront::sweep(report, "chain_histories", if q { 5 } else { 6 },
        "Python ChainCoder over 4 sealed data strings: every interleaving up to the listed depth of decodes (one symbol with each of 4 models, two symbols iid, two symbols with per-symbol parameters) and re-encodes of the most recent symbols (one, two iid, two with parameters); at every node a clone that encodes everything back returns the data through get_data(unseal=True)",
        &[], &[]);
    super::pyfront::sweep(report, "misuse", 0,
        "Python ChainCoder.get_data on coders whose content cannot be exported that way (unsealing data that was never sealed, a fractional number of words): an error, never a silently shortened result, coder unchanged",
        &["ChainCoder.get_data"], &[]);
    super::pyfront::sweep(report, "views", if q { 3 } else { 4 }, "every constructor that takes compressed words (8) on every word string up to the listed length over 6 words, and every call form that takes symbol / parameter arrays (3 coders x 2 forms) on every message up to length 4: a negative-stride view, a stride-2 view and an interior slice must be read like a contiguous copy", &["ChainCoder"], &[]);
    super::pyfront::sweep(report, "chain", if q { 3 } else { 4 },
        "Python ChainCoder: every u32 word string of length 2..=bound over 8 boundary words, sealed and unsealed, x 5 models x {1, 3, 6 symbols} x 3 call forms: decode, then (a) encode back on the same coder, (b) get_remainders -> ChainCoder(concatenation, is_remainders=True) -> encode_reverse -> get_data, (c) only the second remainders item re-imported, the first kept apart: the original words",
        &[], &[]);
    finish(report, total, false);
}

/// boundary values of the valid remainders-head range [lo, hi): both ends, every power of two +-2,
/// and the refill thresholds p * 2^(S-W-P) +-1 of the letters.
fn boundary_heads(lo: u128, hi: u128, shift: u32, letters: &[Letter], width: u128) -> Vec<u128> {
    let mut v: Vec<u128> = vec![];
    for d in 0..width { v.push(lo + d); v.push(hi - 1 - d); }
    let mut k = lo;
    while k < hi { for d in 0..=4u128 { v.push(k + d); v.push(k.saturating_sub(d)); } v.push(k + k / 2); v.push(k + k / 3); k <<= 1; }
    for l in letters { let t = (l.p as u128) << shift; for d in 0..=2u128 { v.push(t + d); v.push(t.saturating_sub(d)); } }
    v.retain(|&x| x >= lo && x < hi);
    v.sort(); v.dedup();
    v
}

/// Single-step induction from arbitrary heads (hook `verif_from_raw_parts`): on (u8,u16) ALL valid
/// remainders heads x ALL compressed heads; on wider types the boundary heads.
fn single_step_part(report: &Report, total: &mut Stats, q: bool) {
    let heads8: Vec<u8> = (1..=255u8).collect();
    let comps8: Vec<Vec<u8>> = if q { vec![vec![], vec![0x00], vec![0xa7], vec![0x3c, 0xff]] } else {
        let mut v: Vec<Vec<u8>> = vec![vec![]]; v.extend((0..=255u8).step_by(3).map(|w| vec![0x3c, w])); v.push(vec![0x3c, 0xfe]); v };
    let rems8: Vec<Vec<u8>> = if q { vec![vec![], vec![0x11, 0xff]] } else { vec![vec![], vec![0x5a], vec![0x11, 0xff]] };
    // (quick: compressed heads 1..=255 in steps of 2 plus the powers of two; all remainders heads)
    let heads8q: Vec<u8> = if q { let mut v: Vec<u8> = (1..=255u8).step_by(2).chain([2u8, 4, 8, 16, 32, 64, 128, 254]).collect(); v.sort(); v } else { heads8.clone() };
    c8_16_2::single_step_sweep(report, total, &heads8q, (64u16..16384).collect(), &all_pairs(2), &comps8, &rems8, "compressed heads (thorough: all 255) x all 16320 valid remainders heads");
    let l4 = if q { letters_at(4) } else { all_pairs(4) };
    let comps8s: Vec<Vec<u8>> = vec![vec![], vec![0x00], vec![0xa7], vec![0x3c, 0xff]];
    c8_16_4::single_step_sweep(report, total, &heads8, (16u16..4096).collect(), &l4, &comps8s, &rems8, "all 255 compressed heads x all 4080 valid remainders heads");
    {
        let lq = |p: u8| -> Vec<Letter> { if q && p == 3 { extremes(3) } else { letters_at(p) } };
        let some_heads: Vec<u8> = if q { (1..=255u8).step_by(2).chain([2u8, 4, 8, 16, 32, 64, 128, 254]).collect() } else { heads8.clone() };
        c8_16_1::single_step_sweep(report, total, &some_heads, (128u16..32768).step_by(if q { 3 } else { 1 }).collect(), &lq(1), &comps8s, &rems8, "compressed heads x remainders heads 128..32768 (quick: every other / every third)");
        c8_16_3::single_step_sweep(report, total, &some_heads, (32u16..8192).collect(), &lq(3), &comps8s, &rems8, "compressed heads x all 8160 valid remainders heads");
        c8_16_5::single_step_sweep(report, total, &heads8, (8u16..2048).collect(), &lq(5), &comps8s, &rems8, "all 255 compressed heads x all 2040 valid remainders heads");
        c8_16_6::single_step_sweep(report, total, &heads8, (4u16..1024).collect(), &lq(6), &comps8s, &rems8, "all 255 compressed heads x all 1020 valid remainders heads");
        c8_16_7::single_step_sweep(report, total, &heads8, (2u16..512).collect(), &lq(7), &comps8s, &rems8, "all 255 compressed heads x all 510 valid remainders heads");
    }
    let l8: Vec<Letter> = if q { letters_at(8) } else { all_pairs(8) };
    c8_16_8::single_step_sweep(report, total, &[1u8, 0x80, 0xff], (1u16..256).collect(), &l8, &comps8s, &rems8, "PRECISION = Word bits: all 255 valid remainders heads");
    let l2 = all_pairs(2);
    let w = if q { 24 } else { 2000 };
    c8_32_2::single_step_sweep(report, total, &heads8, boundary_heads(1 << 22, 1 << 30, 22, &l2, w).into_iter().map(|x| x as u32).collect(), &l2, &comps8s, &rems8, "all compressed heads x boundary remainders heads");
    let l8b = letters_at(8);
    c8_32_8::single_step_sweep(report, total, &[1u8, 0x80, 0xff], boundary_heads(1 << 16, 1 << 24, 16, &l8b, w).into_iter().map(|x| x as u32).collect(), &l8b, &comps8s, &rems8, "boundary remainders heads");
    let l3 = all_pairs(3);
    c8_64_3::single_step_sweep(report, total, &heads8, boundary_heads(1 << 53, 1 << 61, 53, &l3, if q { 4 } else { 200 }).into_iter().map(|x| x as u64).collect(), &l3, &comps8s, &rems8, "all compressed heads x boundary remainders heads");
    let heads16: Vec<u16> = { let mut v: Vec<u16> = vec![]; for k in 0..16 { for d in 0..3u32 { let b = 1u32 << k; v.push((b + d).min(0xffff) as u16); v.push((b.saturating_sub(d)).max(1) as u16); } } v.extend([0xffff, 0xfffe, 0x5a5a]); v.sort(); v.dedup(); v };
    let comps16: Vec<Vec<u16>> = vec![vec![], vec![0], vec![0xa7c3], vec![0x3c3c, 0xffff]];
    let rems16: Vec<Vec<u16>> = vec![vec![], vec![0x5a5a], vec![0x11, 0xffff]];
    let l12 = letters_at(12);
    c16_32_12::single_step_sweep(report, total, &heads16, boundary_heads(1 << 4, 1 << 20, 4, &l12, if q { 64 } else { 1 << 19 }).into_iter().map(|x| x as u32).collect(), &l12, &comps16, &rems16, "boundary compressed heads x boundary (thorough: all) remainders heads");
    let l16 = letters_at(16);
    c16_32_16::single_step_sweep(report, total, &[1u16, 0x8000, 0xffff], (1u32..65536).step_by(if q { 7 } else { 1 }).collect(), &l16, &comps16, &rems16, "PRECISION = Word bits: remainders heads 1..65536");
    let heads32: Vec<u32> = { let mut v: Vec<u32> = vec![]; for k in 0..32 { for d in 0..2u64 { let b = 1u64 << k; v.push((b + d).min(0xffff_ffff) as u32); v.push((b.saturating_sub(d)).max(1) as u32); } } v.extend([0xffff_ffff, 0x5a5a_5a5a]); v.sort(); v.dedup(); v };
    let comps32: Vec<Vec<u32>> = vec![vec![], vec![0], vec![0xa7c3_1234], vec![0x3c3c, 0xffff_ffff]];
    let rems32: Vec<Vec<u32>> = vec![vec![], vec![0x5a5a_5a5a], vec![0x11, 0xffff_ffff]];
    let l24 = letters_at(24);
    c32_64_24::single_step_sweep(report, total, &heads32, boundary_heads(1 << 8, 1 << 40, 8, &l24, if q { 16 } else { 2000 }).into_iter().map(|x| x as u64).collect(), &l24, &comps32, &rems32, "boundary compressed heads x boundary remainders heads");
}

pub fn run_c14(report: &Report) {
    let q = report.tier == Tier::Quick;
    report.bound("every word string of the listed lengths (from_binary) x model sequences of 5-6 positions; every single-bit flip of the data; a replacement model at every position");
    report.assume("the reference chunk map is an independent 20-line model of the bit buffer; with from_binary the number of words consumed by head initialisation is data independent");
    for n in ["reference_chunk_checks", "single_bit_flips", "model_replacements", "ran_out_of_compressed_data", "seeks_back_after_speculative_decoding"] {
        report.require(n);
    }
    let all8: Vec<u8> = (0..=255u8).collect();
    let few8: Vec<u8> = vec![0x00, 0x01, 0x80, 0xff, 0x5a];
    let mut total = Stats::default();
    report.sample(json!({"coder": "ChainCoder<u8,u16,P=2>", "data": ["a7", "03"], "positions": 6, "oracles": ["symbol_i == model_i(chunk_i) with chunk_i from the reference bit-buffer model", "every single-bit flip changes at most the owning position", "replacing model j changes at most position j"]}));
    for len in 1..=2usize {
        run_locality!(report, total, c8_16_2, u8, all_words(&all8, len), 2, 6, if q { 9001 } else { 601 }, format!("all u8 strings of length {len}"));
        run_locality!(report, total, c8_32_2, u8, all_words(&all8, len).into_iter().flat_map(|w| all_words(&few8, 3).into_iter().map(move |t| { let mut v = w.clone(); v.extend(t); v })).step_by(if len == 2 { 997 } else { 3 }).collect::<Vec<_>>(), 2, 5, if q { 1009 } else { 101 }, format!("every u8 payload string of length {len} (length 1: every 3rd, length 2: every 997th) in front of 3 initialisation words"));
    }
    for len in 3..=(if q { 5 } else { 6 }) {
        run_locality!(report, total, c8_16_2, u8, all_words(&few8, len), 2, 6, if q { 2003 } else { 211 }, format!("strings over 5 words of length {len}"));
        run_locality!(report, total, c8_32_2, u8, all_words(&few8, len), 2, 6, if q { 2003 } else { 211 }, format!("strings over 5 words of length {len}"));
        run_locality!(report, total, c8_16_4, u8, all_words(&few8, len), 4, 4, if q { 101 } else { 11 }, format!("strings over 5 words of length {len}"));
        run_locality!(report, total, c8_16_1, u8, all_words(&few8, len), 1, 12, 7, format!("strings over 5 words of length {len}"));
        run_locality!(report, total, c8_16_3, u8, all_words(&few8, len), 3, 4, if q { 20011 } else { 2003 }, format!("strings over 5 words of length {len}"));
        run_locality!(report, total, c8_16_5, u8, all_words(&few8, len), 5, 6, if q { 10007 } else { 1009 }, format!("strings over 5 words of length {len}"));
        run_locality!(report, total, c8_16_6, u8, all_words(&few8, len), 6, 5, if q { 1009 } else { 101 }, format!("strings over 5 words of length {len}"));
        run_locality!(report, total, c8_16_7, u8, all_words(&few8, len), 7, 5, if q { 1009 } else { 101 }, format!("strings over 5 words of length {len}"));
        run_locality!(report, total, c8_32_5, u8, all_words(&few8, len), 5, 5, if q { 1009 } else { 101 }, format!("strings over 5 words of length {len}"));
        run_locality!(report, total, c8_16_8, u8, all_words(&few8, len), 8, 4, if q { 101 } else { 11 }, format!("strings over 5 words of length {len}"));
    }
    let three8: Vec<u8> = vec![0x00, 0xff, 0x5a];
    for len in 8..=(if q { 9 } else { 10 }) {
        run_locality!(report, total, c8_64_3, u8, all_words(&three8, len), 3, 4, if q { 10007 } else { 1009 }, format!("strings over {{00,ff,5a}} of length {len}"));
    }
    let few16: Vec<u16> = vec![0, 1, 0x8000, 0xffff, 0x5a5a];
    let few32: Vec<u32> = vec![0, 1, 0x8000_0000, 0xffff_ffff, 0x5a5a_5a5a];
    for len in 2..=4usize {
        run_locality!(report, total, c16_32_12, u16, all_words(&few16, len), 12, 3, 5, format!("strings over 5 boundary words of length {len}"));
        run_locality!(report, total, c16_32_10, u16, all_words(&few16, len), 10, 4, 37, format!("strings over 5 boundary words of length {len}"));
        run_locality!(report, total, c16_32_9, u16, all_words(&few16, len), 9, 4, 37, format!("strings over 5 boundary words of length {len}"));
        run_locality!(report, total, c16_32_16, u16, all_words(&few16, len), 16, 3, 5, format!("strings over 5 boundary words of length {len}"));
        run_locality!(report, total, c32_64_24, u32, all_words(&few32, len), 24, 3, 5, format!("strings over 5 boundary words of length {len}"));
    }
    run_schedules(report, &mut total, q);
    super::pyfront::sweep(report, "chain_locality", if q { 3 } else { 4 },
        "Python ChainCoder: every 7-word string over 3 (thorough 4) boundary words (holds all 5 positions) and every 3-4 word string (runs out of data on the way): the three call forms agree; replacing the model of one position by 3 alternatives changes no other position and not the point at which the data runs out; every single-bit flip changes at most one position",
        &[], &[]);
    finish(report, total, true);
}

pub fn replay(_case: &serde_json::Value) -> Result<String, String> {
    Err("chain coder violations carry the failing (data, models) in 'detail'; re-run the check (deterministic sweep)".into())
}

#[allow(unused)]
fn _unused() {
    let _ = letters_json(&[]);
}
