//! C19 — driven by the isolated model-family sweep (see mfam.rs / mfam2.rs / mfamily.rs).
use crate::report::Report;

pub fn run(report: &Report) {
    report.bound("every float table over 25 letters incl. negative/NaN/infinite entries x 7 normalization variants; ALL u8 fixed-point tables of length <= 2 (thorough: 3) x infer_last x 4 symbol-list variants at 5 precisions; u16 boundary tables; every support size 0..=2^P+2 for small P plus aliasing sizes; uniform ranges incl. aliasing ones; through the Python front end: every float table of length <= 3 over 16 boundary floats (f32/f64, fast/perfect/lazy)");
    report.require("constructor_returned_err");
    report.require("models_built");
    super::mfamily::run(report, "C19");
    super::pyfront::c19_part(report);
    user_tables_part(report);
    super::pyfront::sweep(report, "misuse", 0,
        "Python Categorical family with probability arrays that hold no model (rows of zero entries, rank 1, rank 3): refused, nothing coded",
        &["cannot be honoured is accepted"], &[]);
}

/// The conversions (`to_generic_encoder_model`, `to_generic_decoder_model`, `to_generic_lookup_decoder_model`) are
/// constructors fed by a user-written `IterableEntropyModel`: for every table of the hostile-table space of C20 they
/// either refuse (panic) or the table was a valid tiling of [0, 2^P) - in particular a table that overshoots 2^P and
/// wraps around the probability type back onto 2^P is not a model.
fn user_tables_part(report: &Report) {
    use super::c20::{table_cases, Rows8};
    use crate::isolate::{guarded, Outcome};
    use constriction::stream::model::{DecoderModel, EncoderModel, IterableEntropyModel};
    let (mut n, mut accepted, mut refused) = (0u64, 0u64, 0u64);
    for t in table_cases() {
        let mut acc = 0u32;
        let mut valid = !t.is_empty(); // (a one-row table with probability 2^P is degenerate but consistent; the library's own constructors refuse it, the conversions copy it)
        for &(_, c, p) in &t { if c as u32 != acc || p == 0 { valid = false; } acc += p as u32; }
        if acc != 16 { valid = false; }
        // (repeated symbol labels are the user's business: a decoder model may map several intervals to one label)
        let m = Rows8 { rows: t.clone() };
        for conv in 0..3 {
            n += 1;
            let ok = match conv {
                0 => matches!(guarded(|| { let g = m.to_generic_encoder_model(); let _ = g.left_cumulative_and_probability(0u8); }), Outcome::Value(())),
                1 => matches!(guarded(|| { let g = m.to_generic_decoder_model(); let _ = g.quantile_function(0); }), Outcome::Value(())),
                _ => matches!(guarded(|| { let g = m.to_generic_lookup_decoder_model(); let _ = g.quantile_function(0); }), Outcome::Value(())),
            };
            if ok { accepted += 1; } else { refused += 1; }
            // (the encoder-side hash table has no way of knowing what is missing; the decoder-side conversions see the whole table)
            if ok && !valid && conv != 0 {
                report.violation(crate::report::Violation { identity: format!("{} | a user-written table that is not a valid tiling of [0, 2^P) is accepted", ["to_generic_encoder_model", "to_generic_decoder_model", "to_generic_lookup_decoder_model"][conv]),
                    detail: format!("rows (symbol, cumulative, probability) {:?} at PRECISION 4 over u8", t), case: serde_json::json!({"kind": "none"}) });
            }
            if !ok && valid {
                report.violation(crate::report::Violation { identity: format!("{} | a valid user-written table is refused", ["to_generic_encoder_model", "to_generic_decoder_model", "to_generic_lookup_decoder_model"][conv]),
                    detail: format!("rows {:?}", t), case: serde_json::json!({"kind": "none"}) });
            }
        }
    }
    report.add_states(n);
    report.count("user_table_conversions", n);
    report.section(serde_json::json!({"part": "conversions of user-written IterableEntropyModel tables", "tables": table_cases().len(), "conversions": n, "accepted": accepted, "refused": refused}));
}

pub fn replay(case: &serde_json::Value) -> Result<String, String> {
    super::mfamily::replay(case)
}
