//! C19 — driven by the isolated model-family sweep (see mfam.rs / mfam2.rs / mfamily.rs).
use crate::report::Report;

pub fn run(report: &Report) {
    report.bound("every float table over 25 letters incl. negative/NaN/infinite entries x 7 normalization variants; ALL u8 fixed-point tables of length <= 2 (thorough: 3) x infer_last x 4 symbol-list variants at 5 precisions; u16 boundary tables; every support size 0..=2^P+2 for small P plus aliasing sizes; uniform ranges incl. aliasing ones; through the Python front end: every float table of length <= 3 over 16 boundary floats (f32/f64, fast/perfect/lazy)");
    report.require("constructor_returned_err");
    report.require("models_built");
    super::mfamily::run(report, "C19");
    super::pyfront::c19_part(report);
}

pub fn replay(case: &serde_json::Value) -> Result<String, String> {
    super::mfamily::replay(case)
}
