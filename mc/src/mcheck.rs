//! Validity oracle for entropy models (shared by C03, C05, C09, C10, C18, C19, C20).
//!
//! `valid(model, support)`: the symbols of the support get consecutive, non-empty sub-intervals
//! that tile [0, 2^P) exactly, nothing outside the support has a probability, no symbol has
//! probability one, and for every quantile the decoder side returns precisely the row the
//! encoder side reports.

use constriction::stream::model::{DecoderModel, EncoderModel, IterableEntropyModel};
use constriction::{BitArray, NonZeroBitArray};
use core::fmt::Debug;
use num_traits::AsPrimitive;

/// (symbol, left cumulative, probability) with numbers widened to u64
pub type Row<S> = (S, u64, u64);

pub fn enc_rows<M, S, const P: usize>(m: &M, support: &[S]) -> Result<Vec<Row<S>>, String>
where
    M: EncoderModel<P, Symbol = S>,
    M::Probability: Into<u64>,
    S: Clone + Debug,
{
    let mut rows = vec![];
    for s in support {
        match m.left_cumulative_and_probability(s.clone()) {
            Some((c, p)) => rows.push((s.clone(), c.into(), p.get().into())),
            None => return Err(format!("symbol {:?} of the support has no probability", s)),
        }
    }
    Ok(rows)
}

/// consecutive, non-empty, tiling [0, 2^P) exactly, no probability one
pub fn check_tiling<S: Debug>(rows: &[Row<S>], prec: usize) -> Result<(), String> {
    let total = 1u128 << prec;
    if rows.len() < 2 {
        return Err(format!("model over {} symbol(s): degenerate", rows.len()));
    }
    let mut acc = 0u128;
    for (s, c, p) in rows {
        if *c as u128 != acc {
            return Err(format!("symbol {:?}: left cumulative {c} but the preceding symbols end at {acc}", s));
        }
        if *p == 0 {
            return Err(format!("symbol {:?} has probability zero", s));
        }
        if *p as u128 >= total {
            return Err(format!("symbol {:?} has probability one ({p} of 2^{prec})", s));
        }
        acc += *p as u128;
    }
    if acc != total {
        return Err(format!("probabilities add up to {acc}, not 2^{prec}"));
    }
    Ok(())
}

pub fn check_outside<M, S, const P: usize>(m: &M, outside: &[S]) -> Result<(), String>
where
    M: EncoderModel<P, Symbol = S>,
    M::Probability: Into<u64>,
    S: Clone + Debug,
{
    for s in outside {
        if let Some((c, p)) = m.left_cumulative_and_probability(s.clone()) {
            return Err(format!("symbol {:?} outside the support gets (cumulative {}, probability {})", s, c.into(), p.get().into()));
        }
    }
    Ok(())
}

/// quantiles to probe: all of them for P <= 12; otherwise both ends, every row boundary +-1, mid
/// points and a stride
pub fn quantiles<S>(rows: &[Row<S>], prec: usize) -> Vec<u64> {
    // (u128 arithmetic: at PRECISION 64 neither 2^P nor cumulative + probability fits a u64)
    let total: u128 = 1u128 << prec;
    if prec <= 12 {
        return (0..total as u64).collect();
    }
    let mut q: Vec<u128> = vec![0, total - 1, total / 2, total / 3, 1];
    for (_, c, p) in rows {
        let (c, p) = (*c as u128, *p as u128);
        q.push(c);
        q.push(c + p - 1);
        q.push(c + p / 2);
        if c > 0 {
            q.push(c - 1);
        }
        if c + p < total {
            q.push(c + p);
        }
    }
    let step = (total / 509).max(1);
    let mut x = 7 % total;
    while x < total {
        q.push(x);
        x += step;
    }
    q.retain(|x| *x < total);
    q.sort_unstable();
    q.dedup();
    q.into_iter().map(|x| x as u64).collect()
}

/// `rows` must be sorted by left cumulative with consecutive intervals (as `check_tiling` ensures)
pub fn expected_row<S>(rows: &[Row<S>], q: u64) -> Option<&Row<S>> {
    let i = rows.partition_point(|(_, c, p)| (*c as u128 + *p as u128) <= q as u128);
    rows.get(i).filter(|(_, c, p)| *c <= q && (q as u128) < *c as u128 + *p as u128)
}

/// decoder side agrees with `rows` on every probed quantile
pub fn check_dec<M, S, const P: usize>(m: &M, rows: &[Row<S>], qs: &[u64]) -> Result<(), String>
where
    M: DecoderModel<P, Symbol = S>,
    M::Probability: Into<u64>,
    u64: AsPrimitive<M::Probability>,
    S: Clone + Debug + PartialEq,
{
    for &q in qs {
        let (s, c, p) = m.quantile_function(q.as_());
        let got: Row<S> = (s, c.into(), p.get().into());
        match expected_row(rows, q) {
            Some(exp) => {
                if got != *exp {
                    return Err(format!("quantile {q}: decoder side returns {:?}, encoder side says {:?}", got, exp));
                }
            }
            None => return Err(format!("quantile {q} is not covered by any symbol of the support; decoder returns {:?}", got)),
        }
    }
    Ok(())
}

pub fn iter_rows<'m, M, S, const P: usize>(m: &'m M) -> Vec<Row<S>>
where
    M: IterableEntropyModel<'m, P, Symbol = S>,
    M::Probability: Into<u64>,
{
    m.symbol_table().map(|(s, c, p)| (s, c.into(), p.get().into())).collect()
}

/// Full validity check of a model that is both encoder and decoder.
pub fn valid<M, S, const P: usize>(m: &M, support: &[S], outside: &[S]) -> Result<Vec<Row<S>>, String>
where
    M: EncoderModel<P, Symbol = S> + DecoderModel<P, Symbol = S>,
    M::Probability: Into<u64>,
    u64: AsPrimitive<M::Probability>,
    S: Clone + Debug + PartialEq,
{
    let rows = enc_rows::<M, S, P>(m, support)?;
    check_tiling(&rows, P)?;
    check_outside::<M, S, P>(m, outside)?;
    let qs = quantiles(&rows, P);
    check_dec::<M, S, P>(m, &rows, &qs)?;
    Ok(rows)
}

/// Rows of a decoder-only model, reconstructed by probing quantiles (must be consistent:
/// every probed quantile lies inside the returned interval; intervals of different symbols
/// never overlap).
pub fn dec_rows<M, S, const P: usize>(m: &M, qs: &[u64]) -> Result<Vec<Row<S>>, String>
where
    M: DecoderModel<P, Symbol = S>,
    M::Probability: Into<u64>,
    u64: AsPrimitive<M::Probability>,
    S: Clone + Debug + PartialEq,
{
    let mut rows: Vec<Row<S>> = vec![];
    for &q in qs {
        let (s, c, p) = m.quantile_function(q.as_());
        let (c, p): (u64, u64) = (c.into(), p.get().into());
        if !(c <= q && (q as u128) < c as u128 + p as u128) {
            return Err(format!("quantile {q}: returned interval [{c}, {c}+{p}) of symbol {:?} does not contain it", s));
        }
        match rows.iter().find(|r| r.0 == s) {
            Some(r) => {
                if r.1 != c || r.2 != p {
                    return Err(format!("symbol {:?} reported with two different intervals: ({}, {}) and ({c}, {p})", s, r.1, r.2));
                }
            }
            None => rows.push((s, c, p)),
        }
    }
    rows.sort_by_key(|r| r.1);
    for w in rows.windows(2) {
        if w[0].1 + w[0].2 > w[1].1 {
            return Err(format!("intervals of {:?} and {:?} overlap", w[0], w[1]));
        }
    }
    Ok(rows)
}
