//! Boring reference models, written from the published algorithms and the project's own
//! documentation (`notes/range-coding.md`, module docs), *not* from the implementation's
//! bookkeeping. All arithmetic in u128 with explicit widths.

use crate::models::Letter;

fn mask(bits: u32) -> u128 {
    if bits >= 128 {
        u128::MAX
    } else {
        (1u128 << bits) - 1
    }
}

/// Textbook streaming rANS (Duda 2013 / Giesen's ryg_rans formulation) with `W`-bit words and
/// an `S`-bit head. The only convention taken from constriction's documentation is that an
/// empty coder has head 0 and exports no words, and that the export is the emitted words
/// followed by the non-zero words of the head, least significant word first.
#[derive(Clone, Debug, PartialEq, Eq, Hash)]
pub struct RefAns {
    pub wb: u32,
    pub sb: u32,
    pub words: Vec<u128>,
    pub x: u128,
}

impl RefAns {
    pub fn new(wb: u32, sb: u32) -> Self {
        RefAns { wb, sb, words: vec![], x: 0 }
    }
    /// import of a word string as produced by `export` (last word non-zero)
    pub fn import(wb: u32, sb: u32, data: &[u128]) -> Self {
        let mut r = RefAns { wb, sb, words: data.to_vec(), x: 0 };
        // fill head with words from the top until it holds at least S-W significant bits or data runs out
        while let Some(&w) = r.words.last() {
            if r.x != 0 && r.x >= 1u128 << (sb - wb) {
                break;
            }
            r.words.pop();
            r.x = (r.x << wb) | w;
        }
        r
    }
    pub fn push(&mut self, l: Letter) {
        let (c, p, prec) = (l.c as u128, l.p as u128, l.prec as u32);
        // renormalise: emit low words while x would leave [0, 2^S) after the update
        // x' = floor(x/p)*2^P + ... < 2^S  <=>  x < p * 2^(S-P)
        let limit_shift = self.sb - prec;
        while (self.x >> limit_shift) >= p {
            self.words.push(self.x & mask(self.wb));
            self.x >>= self.wb;
        }
        self.x = ((self.x / p) << prec) + (self.x % p) + c;
    }
    /// pop with the 3-part partition around `l`; returns the part index
    pub fn pop(&mut self, l: Letter) -> u8 {
        let (c, p, prec) = (l.c as u128, l.p as u128, l.prec as u32);
        let total = 1u128 << prec;
        let q = self.x & (total - 1);
        let (k, left, prob) = if q < c {
            (0u8, 0, c)
        } else if q < c + p {
            (1, c, p)
        } else {
            (2, c + p, total - c - p)
        };
        self.x = prob * (self.x >> prec) + (q - left);
        if self.x < 1u128 << (self.sb - self.wb) {
            if let Some(w) = self.words.pop() {
                self.x = (self.x << self.wb) | w;
            }
        }
        k
    }
    pub fn export(&self) -> Vec<u128> {
        let mut out = self.words.clone();
        let mut x = self.x;
        while x != 0 {
            out.push(x & mask(self.wb));
            x >>= self.wb;
        }
        out
    }
}

/// Carry-propagating range coder in the style of Martin (1979) / Schindler: `low` is an
/// S-bit number, words already emitted live in a Vec that is incremented backwards on carry.
/// There is no held-back-word state. Sealing follows notes/range-coding.md.
#[derive(Clone, Debug)]
pub struct RefRange {
    pub wb: u32,
    pub sb: u32,
    pub low: u128,
    pub range: u128,
    pub out: Vec<u128>,
    pub started: bool,
    /// words in `out` that came from a pre-existing backend and must never be touched by a carry
    pub protected: usize,
}

impl RefRange {
    pub fn new(wb: u32, sb: u32) -> Self {
        RefRange { wb, sb, low: 0, range: mask(sb), out: vec![], started: false, protected: 0 }
    }
    fn carry(out: &mut [u128], protected: usize, wb: u32) {
        let m = mask(wb);
        for i in (protected..out.len()).rev() {
            if out[i] == m {
                out[i] = 0;
            } else {
                out[i] += 1;
                return;
            }
        }
        panic!("HARNESS-REF: carry propagated out of the stream");
    }
    pub fn push(&mut self, l: Letter) {
        let (c, p, prec) = (l.c as u128, l.p as u128, l.prec as u32);
        self.started = true;
        let scale = self.range >> prec;
        let add = scale * c;
        let (nl, ov) = if self.sb == 128 {
            self.low.overflowing_add(add)
        } else {
            let s = self.low + add;
            (s & mask(self.sb), s >> self.sb != 0)
        };
        self.low = nl;
        self.range = scale * p;
        if ov {
            Self::carry(&mut self.out, self.protected, self.wb);
        }
        if self.range < 1u128 << (self.sb - self.wb) {
            self.out.push(self.low >> (self.sb - self.wb));
            self.low = (self.low << self.wb) & mask(self.sb);
            self.range <<= self.wb;
        }
    }
    /// Sealed words. `generalised == false`: exactly steps 1-4 of notes/range-coding.md (one
    /// word, plus one zero word if the top word of `upper` equals the top word of `point`).
    /// `generalised == true`: emit zero words until the interval is pinned against any suffix
    /// (identical to the documented rule whenever State holds exactly two Words).
    pub fn seal(&self, generalised: bool) -> Vec<u128> {
        if !self.started {
            return self.out.clone();
        }
        let mut out = self.out.clone();
        let unit = 1u128 << (self.sb - self.wb);
        // work with numbers relative to `low` to stay within u128 even for S = 128
        // point = low + unit - 1 (mod 2^S)
        let (point, wrapped) = if self.sb == 128 {
            self.low.overflowing_add(unit - 1)
        } else {
            let s = self.low + unit - 1;
            (s & mask(self.sb), s >> self.sb != 0)
        };
        if wrapped {
            Self::carry(&mut out, self.protected, self.wb);
        }
        let pw = point >> (self.sb - self.wb);
        out.push(pw);
        // offset of the truncated point (pw followed by zeros) above low, in [0, unit)
        let v = pw << (self.sb - self.wb);
        let offset = v.wrapping_sub(self.low) & mask(self.sb);
        debug_assert!(offset < unit);
        if generalised {
            let mut shift = self.sb - self.wb;
            // after i words in total, a suffix can add up to 2^(S - i*W) - 1
            while offset + (1u128 << shift) > self.range {
                out.push(0);
                shift -= self.wb;
            }
        } else {
            // documented step 4: compare top words of upper and point
            let upper = self.low.wrapping_add(self.range) & mask(self.sb);
            if upper >> (self.sb - self.wb) == pw {
                out.push(0);
            }
        }
        out
    }
}

/// Reference decoder for range-coded data: arbitrary-precision style, decodes letter by
/// letter by recomputing the interval; returns the part index (0,1,2) of each letter's
/// 3-part partition or None if the quantile leaves [0, 2^P).
pub fn ref_range_decode(wb: u32, sb: u32, data: &[u128], letters: &[Letter]) -> Vec<Option<u8>> {
    let mut pos = 0usize;
    let next = |pos: &mut usize| -> u128 {
        let w = data.get(*pos).copied().unwrap_or(0);
        *pos += 1;
        w
    };
    let mut point: u128 = 0;
    for _ in 0..(sb / wb) {
        point = (point << wb) | next(&mut pos);
    }
    let (mut low, mut range) = (0u128, mask(sb));
    let mut out = vec![];
    for l in letters {
        let (c, p, prec) = (l.c as u128, l.p as u128, l.prec as u32);
        let scale = range >> prec;
        let q = (point.wrapping_sub(low) & mask(sb)) / scale;
        if q >= 1u128 << prec {
            out.push(None);
            break;
        }
        let total = 1u128 << prec;
        let (k, left, prob) = if q < c {
            (0u8, 0, c)
        } else if q < c + p {
            (1, c, p)
        } else {
            (2, c + p, total - c - p)
        };
        low = low.wrapping_add(scale * left) & mask(sb);
        range = scale * prob;
        if range < 1u128 << (sb - wb) {
            low = (low << wb) & mask(sb);
            range <<= wb;
            point = ((point << wb) & mask(sb)) | next(&mut pos);
        }
        out.push(Some(k));
    }
    out
}
