//! The "model family" enumerations shared by C03, C05, C19, C20 (and the model parts of C09/C18):
//! index-addressable input spaces whose cases run inside isolated child processes.
//!
//! Each case builds every model the library can construct from one input and reports
//! `Finding`s tagged with the properties they concern:
//!   C03  input satisfies the documented preconditions, model built, model invalid / not invertible
//!   C19  any input: outcome is neither a clean failure nor a model satisfying C03
//!   C05  two representations of the same model disagree
//!   C20  overflow panic raised inside the library (aborts are classified by the parent)

use crate::isolate::{guarded, ChildSink, Outcome};
use crate::mcheck::*;
use constriction::stream::model::*;
use core::fmt::Debug;

pub struct Finding {
    pub props: &'static str,
    pub identity: String,
    pub detail: String,
}

pub struct Case<'a> {
    pub out: &'a mut Vec<Finding>,
    pub sink: &'a mut ChildSink,
}

fn short(e: &str) -> &'static str {
    // category of an invalidity message (keeps identities stable across inputs)
    if e.contains("degenerate") { "degenerate (fewer than two symbols)" }
    else if e.contains("has no probability") { "symbol of the support rejected" }
    else if e.contains("preceding symbols end") { "intervals not consecutive" }
    else if e.contains("probability zero") { "symbol with probability zero" }
    else if e.contains("probability one") { "symbol with probability one" }
    else if e.contains("add up to") { "probabilities do not add up to 2^P" }
    else if e.contains("outside the support") { "symbol outside the support accepted" }
    else if e.contains("decoder side returns") { "quantile lookup disagrees with encoding" }
    else if e.contains("not covered") { "quantile not covered" }
    else if e.contains("does not contain it") { "quantile lookup returns an interval not containing the quantile" }
    else if e.contains("two different intervals") { "symbol with two intervals" }
    else if e.contains("overlap") { "overlapping intervals" }
    else { "invalid" }
}

/// Runs `f` (queries on a built model). Maps the outcome to findings. Returns the value if clean.
fn query<T>(c: &mut Case, site: &str, class: &str, input: &dyn Debug, tags_invalid: &'static str, f: impl FnOnce() -> Result<T, String>) -> Option<T> {
    match guarded(f) {
        Outcome::Value(Ok(v)) => Some(v),
        Outcome::Value(Err(e)) => {
            c.out.push(Finding { props: tags_invalid, identity: format!("{site} | {class} | {}", short(&e)), detail: format!("input {:?}: {e}", input) });
            None
        }
        Outcome::CleanPanic { msg, loc } => {
            c.out.push(Finding { props: tags_invalid, identity: format!("{site} | {class} | model built but queries panic"), detail: format!("input {:?}: panic '{msg}' at {loc}", input) });
            None
        }
        Outcome::OverflowPanic { msg, loc } => {
            c.out.push(Finding { props: "C20", identity: format!("{site} | arithmetic overflow inside the library ({})", loc_file(&loc)), detail: format!("input {:?}: '{msg}' at {loc}", input) });
            c.out.push(Finding { props: tags_invalid, identity: format!("{site} | {class} | model built but queries panic"), detail: format!("input {:?}: panic '{msg}' at {loc}", input) });
            None
        }
    }
}

fn loc_file(loc: &str) -> String {
    loc.rsplit_once(':').map(|(f, _)| f.to_string()).unwrap_or_else(|| loc.to_string())
}

/// Runs a constructor. Ok(model) => Some(model). Err / clean panic => None (clean failure).
fn construct<M>(c: &mut Case, site: &str, input: &dyn Debug, f: impl FnOnce() -> Result<M, ()>) -> Option<M> {
    match guarded(f) {
        Outcome::Value(Ok(m)) => { c.sink.count("models_built", 1); Some(m) }
        Outcome::Value(Err(())) => { c.sink.count("constructor_returned_err", 1); None }
        Outcome::CleanPanic { .. } => { c.sink.count("constructor_panicked_cleanly", 1); None }
        Outcome::OverflowPanic { msg, loc } => {
            c.out.push(Finding { props: "C20", identity: format!("{site} | arithmetic overflow inside the library ({})", loc_file(&loc)), detail: format!("input {:?}: '{msg}' at {loc}", input) });
            None
        }
    }
}

fn same<S: Debug + PartialEq>(c: &mut Case, what: &str, input: &dyn Debug, a: &[Row<S>], b: &[Row<S>]) {
    c.sink.count("representation_comparisons", 1);
    if a != b {
        let k = a.iter().zip(b.iter()).position(|(x, y)| x != y).unwrap_or(a.len().min(b.len()));
        c.out.push(Finding { props: "C05", identity: format!("{what} | rows differ"),
            detail: format!("input {:?}: first difference at row {k}: {:?} vs {:?} (lengths {} / {})", input, a.get(k), b.get(k), a.len(), b.len()) });
    }
}

// ------------------------------------------------------------------------------------------
// float tables

#[derive(Clone, Copy, Debug, PartialEq)]
pub enum Norm {
    None,
    Exact,
    Half,
    Double,
    Zero,
    Nan,
    Negative,
    /// a finite positive constant unrelated to the table (the only normalization that stays finite when the table contains NaN / infinite entries)
    One,
}
pub const NORMS: [Norm; 8] = [Norm::None, Norm::Exact, Norm::Half, Norm::Double, Norm::Zero, Norm::Nan, Norm::Negative, Norm::One];

pub fn float_alphabet_f64() -> Vec<f64> {
    vec![0.0, 5e-324, 1e-308, 1e-100, 1e-20, 1e-16, 1e-3, 0.1, 1.0 / 3.0, 0.5, 1.0, 3.0, 7.7, 1e3, 9007199254740992.0, 1e30, 1e300, 4e307,
        // invalid letters (C19/C20 only)
        -0.0, -1e-300, -0.2, -1.0, f64::NAN, f64::INFINITY, f64::NEG_INFINITY]
}
pub fn float_alphabet_f32() -> Vec<f32> {
    vec![0.0, 1e-45, 1e-38, 1e-20, 1e-10, 6e-8, 1e-3, 0.1, 1.0 / 3.0, 0.5, 1.0, 3.0, 7.7, 1e3, 16777216.0, 1e10, 1e30, 8e37,
        -0.0, -1e-30, -0.2, -1.0, f32::NAN, f32::INFINITY, f32::NEG_INFINITY]
}
pub const N_VALID_LETTERS: usize = 18;

macro_rules! float_case_impl {
    ($fname:ident, $F:ty, $Pr:ty, $P:literal, $lookup:tt) => {
        pub fn $fname(t: &[$F], norm: Norm, c: &mut Case) {
            type Contig = ContiguousCategoricalEntropyModel<$Pr, Vec<$Pr>, $P>;
            type Lazy<'a> = LazyContiguousCategoricalEntropyModel<$Pr, $F, &'a [$F], $P>;
            let n = t.len();
            let sum: $F = t.iter().copied().sum();
            let entries_ok = t.iter().all(|x| *x >= 0.0 && x.is_finite());
            let norm_val: Option<$F> = match norm {
                Norm::None => None, Norm::Exact => Some(sum), Norm::Half => Some(sum * 0.5), Norm::Double => Some(sum * 2.0),
                Norm::Zero => Some(0.0), Norm::Nan => Some(<$F>::NAN), Norm::Negative => Some(-1.0), Norm::One => Some(1.0),
            };
            // documented preconditions of the `_fast` constructors
            let valid_fast = n >= 2 && entries_ok && sum.is_normal() && sum > 0.0 && matches!(norm, Norm::None | Norm::Exact);
            // documented preconditions of the `_perfect` constructors (no normalization argument)
            let valid_perfect = n >= 2 && entries_ok && sum.is_finite() && sum > 0.0;
            let class_fast = if valid_fast { "input satisfying the documented preconditions" } else if !entries_ok { "negative / NaN / infinite entries" } else if !matches!(norm, Norm::None | Norm::Exact) { "wrong normalization argument" } else { "unnormalizable table" };
            let class_perfect = if valid_perfect { "input satisfying the documented preconditions" } else if !entries_ok { "negative / NaN / infinite entries" } else { "unnormalizable table" };
            let tags_fast: &'static str = if valid_fast { "C03,C19" } else { "C19" };
            let tags_perfect: &'static str = if valid_perfect { "C03,C19" } else { "C19" };
            let support: Vec<usize> = (0..n).collect();
            let outside: Vec<usize> = vec![n, n + 1, usize::MAX, 1usize << 8, (1usize << 16) + 1, (1usize << 32) + 1];
            let input = (t.to_vec(), norm);
            c.sink.count("tables", 1);
            if valid_fast { c.sink.count("tables_satisfying_preconditions", 1); }

            // ---- eager fast
            let eager = construct(c, "ContiguousCategoricalEntropyModel::from_floating_point_probabilities_fast", &input, || Contig::from_floating_point_probabilities_fast(t, norm_val));
            let mut eager_rows = None;
            if let Some(m) = &eager {
                eager_rows = query(c, "ContiguousCategoricalEntropyModel::from_floating_point_probabilities_fast", class_fast, &input, tags_fast, || valid::<_, usize, $P>(m, &support, &outside));
                if m.support_size() != n {
                    c.out.push(Finding { props: tags_fast, identity: "ContiguousCategoricalEntropyModel::support_size | differs from the table length".into(), detail: format!("{:?}", input) });
                }
            }
            // ---- lazy fast
            let lazy = construct(c, "LazyContiguousCategoricalEntropyModel::from_floating_point_probabilities_fast", &input, || Lazy::from_floating_point_probabilities_fast(t, norm_val));
            let mut lazy_rows = None;
            if let Some(m) = &lazy {
                lazy_rows = query(c, "LazyContiguousCategoricalEntropyModel::from_floating_point_probabilities_fast", class_fast, &input, tags_fast, || valid::<_, usize, $P>(m, &support, &outside));
            }
            if eager.is_some() != lazy.is_some() {
                c.out.push(Finding { props: "C05", identity: "eager vs lazy categorical (same-named constructor) | one accepts what the other rejects".into(), detail: format!("input {:?}: eager {} lazy {}", input, eager.is_some(), lazy.is_some()) });
            }
            if let (Some(a), Some(b)) = (&eager_rows, &lazy_rows) {
                same(c, "eager vs lazy categorical (same-named constructor)", &input, a, b);
            }
            // cross-coding between the two representations, independent of the lazy model's self-consistency:
            // what the eager model encodes, the lazy model must decode, and vice versa
            if let (Some(er), Some(lm)) = (&eager_rows, &lazy) {
                let qs = quantiles(er, $P);
                if query(c, "lazy categorical decodes what the eager model (same-named constructor) encodes", class_fast, &input, "C05", || check_dec::<_, usize, $P>(lm, er, &qs)).is_some() {
                    c.sink.count("representation_comparisons", 1);
                }
                if let Some(r) = query(c, "lazy categorical encoder vs eager model (same-named constructor)", class_fast, &input, "C05", || enc_rows::<_, usize, $P>(lm, &support)) {
                    same(c, "eager vs lazy categorical (same-named constructor, encoder side)", &input, er, &r);
                }
            }
            // ---- representations of the eager model
            if let (Some(m), Some(rows)) = (&eager, &eager_rows) {
                let qs = quantiles(rows, $P);
                if let Some(r) = query(c, "ContiguousCategoricalEntropyModel::symbol_table", class_fast, &input, "C05", || Ok(iter_rows::<_, usize, $P>(m))) {
                    same(c, "symbol_table vs direct queries (contiguous categorical)", &input, rows, &r);
                }
                let v = m.as_view();
                if let Some(r) = query(c, "ContiguousCategoricalEntropyModel::as_view", class_fast, &input, "C05", || valid::<_, usize, $P>(&v, &support, &outside)) {
                    same(c, "as_view vs owner (contiguous categorical)", &input, rows, &r);
                }
                if let Some(g) = query(c, "to_generic_encoder_model", class_fast, &input, "C05", || Ok(m.to_generic_encoder_model())) {
                    if let Some(r) = query(c, "to_generic_encoder_model", class_fast, &input, "C05", || { let r = enc_rows::<_, usize, $P>(&g, &support)?; check_outside::<_, usize, $P>(&g, &outside)?; Ok(r) }) {
                        same(c, "to_generic_encoder_model vs source model", &input, rows, &r);
                    }
                    if g.support_size() != n {
                        c.out.push(Finding { props: "C05", identity: "to_generic_encoder_model | support size differs".into(), detail: format!("{:?}", input) });
                    }
                }
                if let Some(g) = query(c, "to_generic_decoder_model", class_fast, &input, "C05", || Ok(m.to_generic_decoder_model())) {
                    if let Some(()) = query(c, "to_generic_decoder_model", class_fast, &input, "C05", || check_dec::<_, usize, $P>(&g, rows, &qs)) {
                        c.sink.count("representation_comparisons", 1);
                    }
                    if let Some(r) = query(c, "to_generic_decoder_model (symbol_table)", class_fast, &input, "C05", || Ok(iter_rows::<_, usize, $P>(&g))) {
                        same(c, "symbol_table of to_generic_decoder_model vs source model", &input, rows, &r);
                    }
                }
                float_case_impl!(@lookup $lookup, c, m, rows, qs, input, class_fast, $Pr, $P, t, norm_val, valid_fast, tags_fast, support, outside);
            }
            // ---- perfect (only without a normalization argument: it has none)
            if norm == Norm::None {
                let perfect = construct(c, "ContiguousCategoricalEntropyModel::from_floating_point_probabilities_perfect", &input, || Contig::from_floating_point_probabilities_perfect(t));
                if let Some(m) = &perfect {
                    let rows = query(c, "ContiguousCategoricalEntropyModel::from_floating_point_probabilities_perfect", class_perfect, &input, tags_perfect, || valid::<_, usize, $P>(m, &support, &outside));
                    if let Some(rows) = rows {
                        if let Some(r) = query(c, "symbol_table", class_perfect, &input, "C05", || Ok(iter_rows::<_, usize, $P>(m))) {
                            same(c, "symbol_table vs direct queries (contiguous categorical)", &input, &rows, &r);
                        }
                        // the `_perfect` constructors of the other categorical representations must build the SAME model
                        let plabels: Vec<u32> = (0..n as u32).map(|i| (i * 7919 + 13) % 1000 + (if i % 2 == 0 { 100000 } else { 0 })).collect();
                        let relabeled: Vec<Row<u32>> = rows.iter().map(|(s, a, b)| (plabels[*s], *a, *b)).collect();
                        let qs = quantiles(&rows, $P);
                        let pe = construct(c, "NonContiguousCategoricalEncoderModel::from_symbols_and_floating_point_probabilities_perfect", &input,
                            || NonContiguousCategoricalEncoderModel::<u32, $Pr, $P>::from_symbols_and_floating_point_probabilities_perfect(plabels.iter().copied(), t));
                        match &pe {
                            Some(e) => { if let Some(r) = query(c, "NonContiguousCategoricalEncoderModel::from_symbols_and_floating_point_probabilities_perfect", class_perfect, &input, tags_perfect, || enc_rows::<_, u32, $P>(e, &plabels)) {
                                same(c, "perfect non-contiguous encoder vs perfect contiguous model", &input, &relabeled, &r); } }
                            None => c.out.push(Finding { props: "C05", identity: "perfect constructors (contiguous vs non-contiguous encoder) | one accepts what the other rejects".into(), detail: format!("{:?}", input) }),
                        }
                        let pd = construct(c, "NonContiguousCategoricalDecoderModel::from_symbols_and_floating_point_probabilities_perfect", &input,
                            || NonContiguousCategoricalDecoderModel::<u32, $Pr, _, $P>::from_symbols_and_floating_point_probabilities_perfect(plabels.iter().copied(), t));
                        match &pd {
                            Some(d) => { if query(c, "NonContiguousCategoricalDecoderModel::from_symbols_and_floating_point_probabilities_perfect", class_perfect, &input, tags_perfect, || check_dec::<_, u32, $P>(d, &relabeled, &qs)).is_some() { c.sink.count("representation_comparisons", 1); } }
                            None => c.out.push(Finding { props: "C05", identity: "perfect constructors (contiguous vs non-contiguous decoder) | one accepts what the other rejects".into(), detail: format!("{:?}", input) }),
                        }
                        float_case_impl!(@perfectlookup $lookup, c, rows, relabeled, qs, plabels, input, class_perfect, tags_perfect, $Pr, $P, t);
                    }
                }
            }
            // ---- non-contiguous models with non-monotone labels
            let labels: Vec<u32> = (0..n as u32).map(|i| (i * 7919 + 13) % 1000 + (if i % 2 == 0 { 100000 } else { 0 })).collect();
            let lab_out: Vec<u32> = vec![1, 2, 99999, u32::MAX, 0];
            let ncd = construct(c, "NonContiguousCategoricalDecoderModel::from_symbols_and_floating_point_probabilities_fast", &input,
                || NonContiguousCategoricalDecoderModel::<u32, $Pr, _, $P>::from_symbols_and_floating_point_probabilities_fast(labels.iter().copied(), t, norm_val));
            let nce = construct(c, "NonContiguousCategoricalEncoderModel::from_symbols_and_floating_point_probabilities_fast", &input,
                || NonContiguousCategoricalEncoderModel::<u32, $Pr, $P>::from_symbols_and_floating_point_probabilities_fast(labels.iter().copied(), t, norm_val));
            if let Some(e) = &nce {
                let rows = query(c, "NonContiguousCategoricalEncoderModel::from_symbols_and_floating_point_probabilities_fast", class_fast, &input, tags_fast, || {
                    let r = enc_rows::<_, u32, $P>(e, &labels)?; check_tiling(&r, $P)?; check_outside::<_, u32, $P>(e, &lab_out)?; Ok(r) });
                if let (Some(rows), Some(er)) = (&rows, &eager_rows) {
                    let relabeled: Vec<Row<u32>> = er.iter().map(|(s, a, b)| (labels[*s], *a, *b)).collect();
                    same(c, "non-contiguous encoder vs contiguous model with identity relabelling", &input, &relabeled, rows);
                }
                if let (Some(rows), Some(d)) = (&rows, &ncd) {
                    let qs = quantiles(rows, $P);
                    if query(c, "NonContiguousCategoricalDecoderModel::from_symbols_and_floating_point_probabilities_fast", class_fast, &input, tags_fast, || check_dec::<_, u32, $P>(d, rows, &qs)).is_some() {
                        c.sink.count("representation_comparisons", 1);
                    }
                }
            }
            if nce.is_some() != ncd.is_some() {
                c.out.push(Finding { props: "C05", identity: "non-contiguous encoder vs decoder constructor | one accepts what the other rejects".into(), detail: format!("{:?}", input) });
            }
            // ---- symbol lists whose length differs from the table's (C19): clean failure or a valid model
            let dup_last = { let mut l = labels.clone(); if n >= 2 { l[n - 1] = l[0]; } l };
            let dup_first = { let mut l = labels.clone(); if n >= 3 { l[1] = l[0]; } l };
            for (variant, labs) in [("one symbol too few", labels[..n.saturating_sub(1)].to_vec()), ("one symbol too many", { let mut l = labels.clone(); l.push(424242); l }),
                ("last label repeats the first", dup_last), ("second label repeats the first", dup_first)] {
                if variant.contains("repeats") && (n < 2 || (variant.starts_with("second") && n < 3)) { continue; }
                let inp = (t.to_vec(), norm, variant);
                let cls = if variant.contains("repeats") { "symbol list with a repeated label" } else { "symbol list of a different length than the probability list" };
                let site = "NonContiguousCategoricalDecoderModel::from_symbols_and_floating_point_probabilities_fast";
                // (a decoder-only table may map two quantile ranges to one label - nothing in C19/C03 forbids a
                // non-injective labelling of a decoder table, DESIGN.md 6.3 - so repeated labels are judged on the
                // ENCODER constructor only, where a label must have exactly one interval)
                let repeats = variant.contains("repeats");
                if repeats { c.sink.count("duplicate_symbol_lists_offered", 1); }
                if let Some(d) = (if repeats { None } else { construct(c, site, &inp, || NonContiguousCategoricalDecoderModel::<u32, $Pr, _, $P>::from_symbols_and_floating_point_probabilities_fast(labs.iter().copied(), t, norm_val)) }) {
                    let qs: Vec<u64> = if $P <= 12 { (0..(1u64 << $P)).collect() } else { quantiles::<u32>(&[], $P) };
                    query(c, site, cls, &inp, "C19", || { let r = dec_rows::<_, u32, $P>(&d, &qs)?; if $P <= 12 { check_tiling(&r, $P)?; } else if d.support_size() < 2 { return Err("model over 1 symbol(s): degenerate".into()); } Ok(()) });
                }
                let site = "NonContiguousCategoricalEncoderModel::from_symbols_and_floating_point_probabilities_fast";
                if let Some(e) = construct(c, site, &inp, || NonContiguousCategoricalEncoderModel::<u32, $Pr, $P>::from_symbols_and_floating_point_probabilities_fast(labs.iter().copied(), t, norm_val)) {
                    query(c, site, cls, &inp, "C19", || { let k = e.support_size().min(labs.len()); let mut r = enc_rows::<_, u32, $P>(&e, &labs[..k])?; r.sort_by_key(|x| x.1); check_tiling(&r, $P) });
                }
                if !repeats { float_case_impl!(@nclookup $lookup, c, labs, inp, cls, $Pr, $P, t, norm_val); }
            }
        }
    };
    (@perfectlookup true, $c:ident, $rows:ident, $relabeled:ident, $qs:ident, $plabels:ident, $input:ident, $class:ident, $tags:ident, $Pr:ty, $P:literal, $t:ident) => {
        match construct($c, "ContiguousLookupDecoderModel::from_floating_point_probabilities_perfect", &$input,
            || ContiguousLookupDecoderModel::<$Pr, Vec<$Pr>, Box<[$Pr]>, $P>::from_floating_point_probabilities_perfect($t)) {
            Some(l) => {
                if query($c, "ContiguousLookupDecoderModel::from_floating_point_probabilities_perfect", $class, &$input, $tags, || check_dec::<_, usize, $P>(&l, &$rows, &$qs)).is_some() { $c.sink.count("representation_comparisons", 1); }
                let cc = l.into_contiguous_categorical();
                if let Some(r) = query($c, "ContiguousLookupDecoderModel::into_contiguous_categorical", $class, &$input, "C05", || enc_rows::<_, usize, $P>(&cc, &(0..$rows.len()).collect::<Vec<usize>>())) {
                    same($c, "lookup decoder into_contiguous_categorical vs perfect contiguous model", &$input, &$rows, &r);
                }
            }
            None => $c.out.push(Finding { props: "C05", identity: "perfect constructors (contiguous vs lookup) | one accepts what the other rejects".into(), detail: format!("{:?}", $input) }),
        }
        match construct($c, "NonContiguousLookupDecoderModel::from_symbols_and_floating_point_probabilities_perfect", &$input,
            || NonContiguousLookupDecoderModel::<u32, $Pr, _, _, $P>::from_symbols_and_floating_point_probabilities_perfect($plabels.iter().copied(), $t)) {
            Some(l) => {
                if query($c, "NonContiguousLookupDecoderModel::from_symbols_and_floating_point_probabilities_perfect", $class, &$input, $tags, || check_dec::<_, u32, $P>(&l, &$relabeled, &$qs)).is_some() { $c.sink.count("representation_comparisons", 1); }
                { let v = l.as_non_contiguous_categorical();
                  if query($c, "NonContiguousLookupDecoderModel::as_non_contiguous_categorical", $class, &$input, "C05", || check_dec::<_, u32, $P>(&v, &$relabeled, &$qs)).is_some() { $c.sink.count("representation_comparisons", 1); } }
                let o = l.into_non_contiguous_categorical();
                if query($c, "NonContiguousLookupDecoderModel::into_non_contiguous_categorical", $class, &$input, "C05", || check_dec::<_, u32, $P>(&o, &$relabeled, &$qs)).is_some() { $c.sink.count("representation_comparisons", 1); }
            }
            None => $c.out.push(Finding { props: "C05", identity: "perfect constructors (contiguous vs non-contiguous lookup) | one accepts what the other rejects".into(), detail: format!("{:?}", $input) }),
        }
    };
    (@perfectlookup false, $c:ident, $rows:ident, $relabeled:ident, $qs:ident, $plabels:ident, $input:ident, $class:ident, $tags:ident, $Pr:ty, $P:literal, $t:ident) => { let _ = (&$relabeled, &$qs); };
    (@nclookup true, $c:ident, $labs:ident, $inp:ident, $cls:ident, $Pr:ty, $P:literal, $t:ident, $norm_val:ident) => {
        let site = "NonContiguousLookupDecoderModel::from_symbols_and_floating_point_probabilities_fast";
        if let Some(l) = construct($c, site, &$inp, || NonContiguousLookupDecoderModel::<u32, $Pr, _, _, $P>::from_symbols_and_floating_point_probabilities_fast($labs.iter().copied(), $t, $norm_val)) {
            let qs: Vec<u64> = if $P <= 12 { (0..(1u64 << $P)).collect() } else { quantiles::<u32>(&[], $P) };
            query($c, site, $cls, &$inp, "C19", || { let r = dec_rows::<_, u32, $P>(&l, &qs)?; if $P <= 12 { check_tiling(&r, $P)?; } Ok(()) });
        }
    };
    (@nclookup false, $c:ident, $labs:ident, $inp:ident, $cls:ident, $Pr:ty, $P:literal, $t:ident, $norm_val:ident) => {};
    (@lookup true, $c:ident, $m:ident, $rows:ident, $qs:ident, $input:ident, $class:ident, $Pr:ty, $P:literal, $t:ident, $norm_val:ident, $valid:ident, $tags:ident, $support:ident, $outside:ident) => {
        // (a lookup model obtained by conversion is a "lookup" categorical model of C03's list as much as a representation of C05's)
        let tags_conv: &'static str = if $valid { "C03,C05" } else { "C05" };
        if let Some(g) = query($c, "to_lookup_decoder_model", $class, &$input, tags_conv, || Ok($m.to_lookup_decoder_model())) {
            if query($c, "to_lookup_decoder_model", $class, &$input, tags_conv, || check_dec::<_, usize, $P>(&g, $rows, &$qs)).is_some() { $c.sink.count("representation_comparisons", 1); }
        }
        if let Some(g) = query($c, "to_generic_lookup_decoder_model", $class, &$input, "C05", || Ok($m.to_generic_lookup_decoder_model())) {
            if query($c, "to_generic_lookup_decoder_model", $class, &$input, "C05", || check_dec::<_, usize, $P>(&g, $rows, &$qs)).is_some() { $c.sink.count("representation_comparisons", 1); }
        }
        let lk = construct($c, "ContiguousLookupDecoderModel::from_floating_point_probabilities_fast", &$input,
            || ContiguousLookupDecoderModel::<$Pr, Vec<$Pr>, Box<[$Pr]>, $P>::from_floating_point_probabilities_fast($t, $norm_val));
        match &lk {
            Some(l) => {
                if query($c, "ContiguousLookupDecoderModel::from_floating_point_probabilities_fast", $class, &$input, $tags, || check_dec::<_, usize, $P>(l, $rows, &$qs)).is_some() { $c.sink.count("representation_comparisons", 1); }
                let cc = l.as_contiguous_categorical();
                if let Some(r) = query($c, "ContiguousLookupDecoderModel::as_contiguous_categorical", $class, &$input, "C05", || valid::<_, usize, $P>(&cc, &$support, &$outside)) {
                    same($c, "lookup decoder as_contiguous_categorical vs contiguous model from the same constructor", &$input, $rows, &r);
                }
            }
            None => $c.out.push(Finding { props: "C05", identity: "lookup vs searched categorical (same-named constructor) | one accepts what the other rejects".into(), detail: format!("{:?}", $input) }),
        }
    };
    (@lookup false, $c:ident, $m:ident, $rows:ident, $qs:ident, $input:ident, $class:ident, $Pr:ty, $P:literal, $t:ident, $norm_val:ident, $valid:ident, $tags:ident, $support:ident, $outside:ident) => {
        let _ = (&$qs, &$valid);
    };
}

float_case_impl!(float_f32_u8_4, f32, u8, 4, true);
float_case_impl!(float_f32_u8_8, f32, u8, 8, true);
float_case_impl!(float_f32_u16_12, f32, u16, 12, true);
float_case_impl!(float_f32_u16_16, f32, u16, 16, true);
float_case_impl!(float_f32_u32_24, f32, u32, 24, false);
float_case_impl!(float_f32_u32_28, f32, u32, 28, false);
float_case_impl!(float_f32_u32_32, f32, u32, 32, false);
float_case_impl!(float_f64_u8_2, f64, u8, 2, true);
float_case_impl!(float_f64_u8_3, f64, u8, 3, true);
float_case_impl!(float_f64_u8_8, f64, u8, 8, true);
float_case_impl!(float_f64_u16_12, f64, u16, 12, true);
float_case_impl!(float_f64_u16_16, f64, u16, 16, true);
float_case_impl!(float_f64_u32_24, f64, u32, 24, false);
float_case_impl!(float_f64_u32_32, f64, u32, 32, false);

pub const FLOAT_PARTS: [&str; 13] = ["f32/u8/4", "f32/u8/8", "f32/u16/12", "f32/u16/16", "f32/u32/24", "f32/u32/28", "f32/u32/32",
    "f64/u8/3", "f64/u8/8", "f64/u16/12", "f64/u16/16", "f64/u32/24", "f64/u32/32"];

/// Decodes case index -> (table over the alphabet of `nletters` letters with lengths 0..=maxlen, norm)
pub fn float_space(nletters: usize, maxlen: usize, norms: usize) -> (Vec<u64>, u64) {
    // offsets per length
    let mut offs = vec![0u64];
    for len in 0..=maxlen {
        let n = (nletters as u64).pow(len as u32) * norms as u64;
        offs.push(offs.last().unwrap() + n);
    }
    let total = *offs.last().unwrap();
    (offs, total)
}
pub fn float_decode(offs: &[u64], nletters: usize, norms: usize, mut i: u64) -> (Vec<usize>, usize) {
    let len = (0..offs.len() - 1).find(|&l| i < offs[l + 1]).expect("index out of range");
    i -= offs[len];
    let norm = (i % norms as u64) as usize;
    i /= norms as u64;
    let mut letters = vec![];
    for _ in 0..len {
        letters.push((i % nletters as u64) as usize);
        i /= nletters as u64;
    }
    (letters, norm)
}

/// optional 7th field of a float part: a sub-alphabet (indices into the float alphabets) for LONG tables
/// at tiny precisions, where the number of symbols exceeds 2^PRECISION
fn alphabet_map(f: &[&str], nletters: usize) -> Vec<usize> {
    match f.get(6).copied() {
        None => (0..nletters).collect(),
        Some("s3") => vec![0, 10, 12],
        Some("s2") => vec![0, 10],
        Some(other) => panic!("HARNESS: unknown sub-alphabet {other}"),
    }
}

/// `part` = "<F>/<Pr>/<P>/<nletters>/<maxlen>/<norms>[/<sub-alphabet>]"
pub fn float_part_run(part: &str, from: u64, to: u64, want: &str, sink: &mut ChildSink) {
    let f: Vec<&str> = part.split('/').collect();
    let key = format!("{}/{}/{}", f[0], f[1], f[2]);
    let nletters: usize = f[3].parse().unwrap();
    let maxlen: usize = f[4].parse().unwrap();
    let norms: usize = f[5].parse().unwrap();
    let (offs, _) = float_space(nletters, maxlen, norms);
    let a64 = float_alphabet_f64();
    let a32 = float_alphabet_f32();
    let amap = alphabet_map(&f, nletters);
    for i in from..to {
        sink.begin_case(i);
        let (letters, norm) = float_decode(&offs, nletters, norms, i);
        let letters: Vec<usize> = letters.into_iter().map(|k| amap[k]).collect();
        let mut out = vec![];
        {
            let mut c = Case { out: &mut out, sink };
            let norm = NORMS[norm];
            macro_rules! go32 { ($f:ident) => {{ let t: Vec<f32> = letters.iter().map(|&k| a32[k]).collect(); $f(&t, norm, &mut c) }}; }
            macro_rules! go64 { ($f:ident) => {{ let t: Vec<f64> = letters.iter().map(|&k| a64[k]).collect(); $f(&t, norm, &mut c) }}; }
            match key.as_str() {
                "f32/u8/4" => go32!(float_f32_u8_4), "f32/u8/8" => go32!(float_f32_u8_8), "f32/u16/12" => go32!(float_f32_u16_12),
                "f32/u16/16" => go32!(float_f32_u16_16), "f32/u32/24" => go32!(float_f32_u32_24), "f32/u32/28" => go32!(float_f32_u32_28), "f32/u32/32" => go32!(float_f32_u32_32),
                "f64/u8/2" => go64!(float_f64_u8_2), "f64/u8/3" => go64!(float_f64_u8_3), "f64/u8/8" => go64!(float_f64_u8_8), "f64/u16/12" => go64!(float_f64_u16_12),
                "f64/u16/16" => go64!(float_f64_u16_16), "f64/u32/24" => go64!(float_f64_u32_24), "f64/u32/32" => go64!(float_f64_u32_32),
                other => panic!("HARNESS: unknown float part {other}"),
            }
        }
        sink.n += 1;
        for fd in out {
            if fd.props.split(',').any(|p| p == want) {
                sink.violation(&fd.identity, &fd.detail, i);
            }
        }
    }
}

/// parent side: is the input of case `i` one that satisfies the documented preconditions?
pub fn float_case_is_valid_input(part: &str, i: u64) -> (bool, String) {
    let f: Vec<&str> = part.split('/').collect();
    let nletters: usize = f[3].parse().unwrap();
    let maxlen: usize = f[4].parse().unwrap();
    let norms: usize = f[5].parse().unwrap();
    let (offs, _) = float_space(nletters, maxlen, norms);
    let (letters, norm) = float_decode(&offs, nletters, norms, i);
    let amap = alphabet_map(&f, nletters);
    let letters: Vec<usize> = letters.into_iter().map(|k| amap[k]).collect();
    let desc = if f[0] == "f32" {
        let a = float_alphabet_f32();
        format!("{:?} norm {:?}", letters.iter().map(|&k| a[k]).collect::<Vec<_>>(), NORMS[norm])
    } else {
        let a = float_alphabet_f64();
        format!("{:?} norm {:?}", letters.iter().map(|&k| a[k]).collect::<Vec<_>>(), NORMS[norm])
    };
    let valid = letters.len() >= 2 && letters.iter().all(|&k| k < N_VALID_LETTERS) && letters.iter().any(|&k| k != 0) && norm <= 1 && {
        // the sum must be finite and normal
        if f[0] == "f32" { let a = float_alphabet_f32(); let s: f32 = letters.iter().map(|&k| a[k]).sum(); s.is_normal() }
        else { let a = float_alphabet_f64(); let s: f64 = letters.iter().map(|&k| a[k]).sum(); s.is_normal() }
    };
    (valid, desc)
}
