//! Child-process isolation for enumerations in which a single case may abort the process
//! (std's `unsafe precondition(s) violated` checks and allocation failures do not unwind) or
//! hang. The parent splits an index range into chunks, runs `cvmc child <ID> <part> <from> <to>`
//! for each, and on abnormal exit bisects to the first failing index, confirms it twice, records
//! it as an outcome of that case, and continues behind it.
//!
//! Child protocol (stdout, one JSON object per line):
//!   {"v": identity, "d": detail, "i": case index}      a violation found in-process
//!   {"c": {name: count, ...}, "n": cases_done}         final line of a clean run

use serde_json::Value;
use std::collections::BTreeMap;
use std::io::Read;
use std::process::{Command, Stdio};
use std::sync::Mutex;
use std::time::{Duration, Instant};

#[derive(Clone, Debug)]
pub struct Abnormal {
    pub index: u64,
    /// "abort: unsafe precondition violated" | "abort" | "signal N" | "timeout" | "exit N"
    pub kind: String,
    pub stderr_tail: String,
}

#[derive(Default, Debug)]
pub struct Merged {
    pub violations: Vec<(String, String, u64)>,
    pub counters: BTreeMap<String, u64>,
    pub cases: u64,
    pub abnormal: Vec<Abnormal>,
    pub children_spawned: u64,
    /// cases not explored because the abnormal-case cap of the part was reached
    pub skipped: u64,
}

enum RunResult {
    Clean { violations: Vec<(String, String, u64)>, counters: BTreeMap<String, u64>, n: u64 },
    Abnormal { kind: String, stderr_tail: String, last_case: Option<u64> },
}

fn classify_exit(status: &std::process::ExitStatus, stderr: &str, timed_out: bool) -> String {
    if timed_out {
        return "timeout".into();
    }
    #[cfg(unix)]
    {
        use std::os::unix::process::ExitStatusExt;
        if let Some(sig) = status.signal() {
            if stderr.contains("unsafe precondition(s) violated") {
                return "abort: unsafe precondition(s) violated".into();
            }
            if stderr.contains("memory allocation of") {
                return "abort: memory allocation failure".into();
            }
            if stderr.contains("panic in a function that cannot unwind") || stderr.contains("panicked") {
                return format!("abort: non-unwinding panic (signal {sig})");
            }
            return format!("signal {sig}");
        }
    }
    format!("exit {}", status.code().unwrap_or(-1))
}

fn run_child(id: &str, part: &str, from: u64, to: u64, timeout: Duration) -> RunResult {
    let exe = std::env::current_exe().expect("current_exe");
    let mut child = Command::new(exe)
        .args(["child", id, part, &from.to_string(), &to.to_string()])
        .stdin(Stdio::null())
        .stdout(Stdio::piped())
        .stderr(Stdio::piped())
        .env("RUST_BACKTRACE", "0")
        .spawn()
        .expect("HARNESS: cannot spawn child");
    let mut so = child.stdout.take().unwrap();
    let mut se = child.stderr.take().unwrap();
    let t_out = std::thread::spawn(move || { let mut s = String::new(); let _ = so.read_to_string(&mut s); s });
    let t_err = std::thread::spawn(move || { let mut s = Vec::new(); let _ = se.read_to_end(&mut s); String::from_utf8_lossy(&s).to_string() });
    let start = Instant::now();
    let mut timed_out = false;
    let status = loop {
        match child.try_wait() {
            Ok(Some(st)) => break st,
            Ok(None) => {
                if start.elapsed() > timeout {
                    let _ = child.kill();
                    timed_out = true;
                    break child.wait().expect("wait");
                }
                std::thread::sleep(Duration::from_millis(5));
            }
            Err(e) => panic!("HARNESS: wait failed: {e}"),
        }
    };
    let stdout = t_out.join().unwrap_or_default();
    let stderr = t_err.join().unwrap_or_default();
    if status.success() && !timed_out {
        let mut violations = vec![];
        let mut counters = BTreeMap::new();
        let mut n = None;
        for line in stdout.lines() {
            let Ok(v) = serde_json::from_str::<Value>(line) else {
                panic!("HARNESS: child printed a non-JSON line: {line}");
            };
            if let Some(id) = v.get("v").and_then(|x| x.as_str()) {
                violations.push((id.to_string(), v["d"].as_str().unwrap_or("").to_string(), v["i"].as_u64().unwrap_or(0)));
            } else if let Some(c) = v.get("c").and_then(|x| x.as_object()) {
                for (k, x) in c {
                    *counters.entry(k.clone()).or_insert(0) += x.as_u64().unwrap_or(0);
                }
                n = v["n"].as_u64();
            }
        }
        match n {
            Some(n) => RunResult::Clean { violations, counters, n },
            None => RunResult::Abnormal { kind: "exit 0 without final line".into(), stderr_tail: tail(&stderr), last_case: last_case(&stderr) },
        }
    } else {
        RunResult::Abnormal { kind: classify_exit(&status, &stderr, timed_out), stderr_tail: tail(&stderr), last_case: last_case(&stderr) }
    }
}

fn last_case(stderr: &str) -> Option<u64> {
    stderr.lines().rev().find_map(|l| l.strip_prefix('@').and_then(|x| x.trim().parse().ok()))
}

fn tail(s: &str) -> String {
    let lines: Vec<&str> = s.lines().filter(|l| !l.trim().is_empty() && !l.starts_with('@')).collect();
    let k = lines.len().saturating_sub(4);
    let t = lines[k..].join(" | ");
    if t.len() > 600 { t[t.len() - 600..].to_string() } else { t }
}

/// After this many aborting / hanging cases in one part the remaining cases of the part are not
/// explored any more (the run is then reported as not exhaustive; it already has violations).
pub const MAX_ABNORMAL_PER_PART: u64 = 6;

/// Runs cases [from, to) with isolation; appends to `m`.
fn run_range(id: &str, part: &str, mut from: u64, to: u64, timeout: Duration, m: &mut Merged, abnormal_so_far: &std::sync::atomic::AtomicU64) {
    use std::sync::atomic::Ordering;
    while from < to {
        if abnormal_so_far.load(Ordering::Relaxed) >= MAX_ABNORMAL_PER_PART {
            m.skipped += to - from;
            return;
        }
        m.children_spawned += 1;
        match run_child(id, part, from, to, timeout) {
            RunResult::Clean { violations, counters, n } => {
                m.violations.extend(violations);
                for (k, v) in counters {
                    *m.counters.entry(k).or_insert(0) += v;
                }
                m.cases += n;
                return;
            }
            RunResult::Abnormal { last_case, .. } => {
                // the child marks every case on stderr; fall back to bisection if the marker is missing
                let hi = match last_case {
                    Some(i) if i >= from && i < to => i - from + 1,
                    _ => {
                        let (mut lo, mut hi) = (0u64, to - from); // prefix lo is clean (empty), prefix hi fails
                        while hi - lo > 1 {
                            let mid = lo + (hi - lo) / 2;
                            m.children_spawned += 1;
                            match run_child(id, part, from, from + mid, timeout) {
                                RunResult::Clean { .. } => lo = mid,
                                RunResult::Abnormal { .. } => hi = mid,
                            }
                        }
                        hi
                    }
                };
                let bad = from + hi - 1;
                // clean prefix [from, bad): collect its results
                if bad > from {
                    m.children_spawned += 1;
                    match run_child(id, part, from, bad, timeout) {
                        RunResult::Clean { violations, counters, n } => {
                            m.violations.extend(violations);
                            for (k, v) in counters {
                                *m.counters.entry(k).or_insert(0) += v;
                            }
                            m.cases += n;
                        }
                        RunResult::Abnormal { kind, .. } => panic!("HARNESS: nondeterministic child: prefix [{from},{bad}) was clean, now {kind}"),
                    }
                }
                // the single failing case: run twice, outcomes must agree
                m.children_spawned += 2;
                let single = Duration::from_secs(timeout.as_secs().min(30));
                let a = run_child(id, part, bad, bad + 1, single);
                let b = run_child(id, part, bad, bad + 1, single);
                match (a, b) {
                    (RunResult::Abnormal { kind: k1, stderr_tail, .. }, RunResult::Abnormal { kind: k2, .. }) => {
                        if k1 != k2 {
                            panic!("HARNESS: case {bad} of {id}/{part} fails nondeterministically: {k1} vs {k2}");
                        }
                        m.abnormal.push(Abnormal { index: bad, kind: k1, stderr_tail });
                        m.cases += 1;
                        abnormal_so_far.fetch_add(1, Ordering::Relaxed);
                    }
                    _ => panic!("HARNESS: case {bad} of {id}/{part} fails only in company of its predecessors (harness state leak?)"),
                }
                from = bad + 1;
            }
        }
    }
}

/// Runs cases [0, total) of enumeration `part` of property `id` in isolated children, `chunk`
/// cases per child, all cores.
pub fn run_isolated(id: &str, part: &str, total: u64, chunk: u64, timeout_s: u64) -> Merged {
    use rayon::prelude::*;
    let chunks: Vec<(u64, u64)> = (0..total.div_ceil(chunk.max(1))).map(|i| (i * chunk, ((i + 1) * chunk).min(total))).collect();
    let merged = Mutex::new(Merged::default());
    let abnormal_so_far = std::sync::atomic::AtomicU64::new(0);
    chunks.par_iter().for_each(|&(a, b)| {
        let mut m = Merged::default();
        run_range(id, part, a, b, Duration::from_secs(timeout_s), &mut m, &abnormal_so_far);
        let mut g = merged.lock().unwrap();
        g.violations.extend(m.violations);
        for (k, v) in m.counters {
            *g.counters.entry(k).or_insert(0) += v;
        }
        g.cases += m.cases;
        g.abnormal.extend(m.abnormal);
        g.children_spawned += m.children_spawned;
        g.skipped += m.skipped;
    });
    let mut m = merged.into_inner().unwrap();
    m.abnormal.sort_by_key(|a| a.index);
    m
}

// ------------------------------------------------------------------------------------------
// child side

/// Collects output of a child run.
#[derive(Default)]
pub struct ChildSink {
    pub counters: BTreeMap<&'static str, u64>,
    pub n: u64,
    lines: Vec<String>,
}
impl ChildSink {
    /// Marks the start of case `i` on stderr so that the parent knows which case was running
    /// when the process died or hung.
    pub fn begin_case(&mut self, i: u64) {
        use std::io::Write;
        let _ = writeln!(std::io::stderr(), "@{i}");
    }
    pub fn violation(&mut self, identity: &str, detail: &str, index: u64) {
        if self.lines.len() < 2000 {
            self.lines.push(serde_json::json!({"v": identity, "d": detail, "i": index}).to_string());
        }
    }
    pub fn count(&mut self, name: &'static str, n: u64) {
        *self.counters.entry(name).or_insert(0) += n;
    }
    pub fn finish(self) -> i32 {
        use std::io::Write;
        let out = std::io::stdout();
        let mut o = out.lock();
        for l in &self.lines {
            let _ = writeln!(o, "{l}");
        }
        let c: BTreeMap<String, u64> = self.counters.iter().map(|(k, v)| (k.to_string(), *v)).collect();
        let _ = writeln!(o, "{}", serde_json::json!({"c": c, "n": self.n}));
        0
    }
}

thread_local! {
    static LAST_PANIC: std::cell::RefCell<Option<(String, String)>> = const { std::cell::RefCell::new(None) };
}

/// Installs a silent panic hook that records (message, location) of the last panic of this thread.
pub fn install_panic_recorder() {
    std::panic::set_hook(Box::new(|info| {
        let msg = info.payload().downcast_ref::<String>().cloned()
            .or_else(|| info.payload().downcast_ref::<&str>().map(|s| s.to_string()))
            .unwrap_or_default();
        let loc = info.location().map(|l| format!("{}:{}", l.file(), l.line())).unwrap_or_default();
        if msg.contains("unsafe precondition") || loc.starts_with("/rustc/") {
            // possibly a non-unwinding panic (std's unsafe-precondition checks abort right after this
            // hook): leave the message on stderr for the parent's classification
            eprintln!("panicked: {msg} at {loc}");
        }
        LAST_PANIC.with(|p| *p.borrow_mut() = Some((msg, loc)));
    }));
}

/// panics seen in the main process that have not been caught by `guarded`:
/// (thread, message, location, raised by library code?)
static OPEN_PANICS: std::sync::Mutex<Vec<(std::thread::ThreadId, String, String, bool)>> = std::sync::Mutex::new(Vec::new());

/// Is a panic with this location raised by constriction (as opposed to the harness)? The location alone
/// decides when it lies in the library's or the harness' sources; panics located in std/core (generic
/// operator impls such as `Shr::shr`, `unwrap` without track_caller, ...) are attributed by the innermost
/// non-std frame of the backtrace.
fn raised_by_library(loc: &str) -> bool {
    let in_harness = loc.contains("/verif/mc/") || (!loc.starts_with('/') && loc.starts_with("src/"));
    if in_harness { return false; }
    if loc.starts_with('/') && loc.contains("/src/") && !loc.starts_with("/rustc/") && !loc.contains("/.cargo/") { return true; }
    let bt = std::backtrace::Backtrace::force_capture().to_string();
    if std::env::var("CVMC_DEBUG_BT").is_ok() { eprintln!("{}", bt.lines().take(60).collect::<Vec<_>>().join("\n")); }
    for line in bt.lines() {
        let l = line.trim_start();
        // frame lines look like "12: constriction::stream::chain::...": skip the "at file:line" lines
        let Some((_, name)) = l.split_once(": ") else { continue };
        if l.starts_with("at ") { continue; }
        let name = name.trim_start_matches('<');
        if name.starts_with("cvmc::isolate::") { continue; } // the panic hook's own frames
        if name.starts_with("constriction::") || name.contains(" as constriction::") || name.starts_with("constriction[") { return true; }
        if name.starts_with("cvmc::") || name.contains(" as cvmc::") || name.starts_with("cvmc[") { return false; }
    }
    false
}

/// Hook for the main (non-child) process: prints every panic (message + location) and remembers those
/// that are not caught by `guarded`, so that a panic propagated out of a rayon worker keeps its origin.
pub fn install_first_panic_recorder() {
    std::panic::set_hook(Box::new(|info| {
        let msg = info.payload().downcast_ref::<String>().cloned()
            .or_else(|| info.payload().downcast_ref::<&str>().map(|s| s.to_string()))
            .unwrap_or_default();
        let loc = info.location().map(|l| format!("{}:{}", l.file(), l.line())).unwrap_or_default();
        let lib = raised_by_library(&loc);
        // (parallel explorers can panic in every worker: print the first few only)
        static PRINTED: std::sync::atomic::AtomicUsize = std::sync::atomic::AtomicUsize::new(0);
        if PRINTED.fetch_add(1, std::sync::atomic::Ordering::Relaxed) < 5 {
            eprintln!("panicked: {msg} at {loc}{}", if lib { " (inside constriction)" } else { "" });
        }
        LAST_PANIC.with(|p| *p.borrow_mut() = Some((msg.clone(), loc.clone())));
        if let Ok(mut g) = OPEN_PANICS.lock() {
            if g.len() < 64 { g.push((std::thread::current().id(), msg, loc, lib)); }
        }
    }));
}
/// the first panic that was not caught by `guarded` (i.e. the one that escaped an explorer):
/// (message, location, raised by library code)
pub fn first_panic() -> Option<(String, String, bool)> {
    OPEN_PANICS.lock().ok().and_then(|g| g.first().map(|x| (x.1.clone(), x.2.clone(), x.3)))
}
fn forget_caught_panic() {
    if let Ok(mut g) = OPEN_PANICS.lock() {
        let me = std::thread::current().id();
        if let Some(i) = g.iter().rposition(|x| x.0 == me) { g.remove(i); }
    }
}

#[derive(Debug, Clone, PartialEq)]
pub enum Outcome<T> {
    Value(T),
    /// an ordinary panic (assert!, expect, bounds check, ...) — a clean failure
    CleanPanic { msg: String, loc: String },
    /// `attempt to ... with overflow` raised inside the library (only correct because release builds wrap)
    OverflowPanic { msg: String, loc: String },
}

/// Runs `f`, classifying panics by message AND location. A panic raised at a location inside the
/// harness itself (other than the hand-made models' deliberate asserts) is a machinery bug.
pub fn guarded<T>(f: impl FnOnce() -> T) -> Outcome<T> {
    LAST_PANIC.with(|p| *p.borrow_mut() = None);
    match std::panic::catch_unwind(std::panic::AssertUnwindSafe(f)) {
        Ok(v) => Outcome::Value(v),
        Err(_) => {
            forget_caught_panic();
            let (msg, loc) = LAST_PANIC.with(|p| p.borrow_mut().take()).unwrap_or_default();
            let in_repo = loc.starts_with("/repo/") || loc.starts_with("src/") && !loc.starts_with("src/props") && !loc.starts_with("src/bin");
            let in_harness = loc.contains("/verif/mc/") || loc.starts_with("src/props") || loc.starts_with("src/models") || loc.starts_with("src/isolate");
            if in_harness && !msg.starts_with("HARNESS-MODEL") {
                eprintln!("MACHINERY: panic inside the harness at {loc}: {msg}");
                std::process::exit(70);
            }
            let overflow = msg.starts_with("attempt to ") && (msg.contains("overflow") || msg.contains("divide by zero") || msg.contains("remainder with a divisor of zero"));
            if overflow && in_repo || overflow && !in_harness {
                Outcome::OverflowPanic { msg, loc }
            } else {
                Outcome::CleanPanic { msg, loc }
            }
        }
    }
}

/// Mixed-radix index space: decode a linear index into coordinates.
#[derive(Clone, Debug)]
pub struct Space {
    pub dims: Vec<u64>,
}
impl Space {
    pub fn new(dims: &[u64]) -> Self {
        Space { dims: dims.to_vec() }
    }
    pub fn total(&self) -> u64 {
        self.dims.iter().product()
    }
    pub fn decode(&self, mut i: u64) -> Vec<usize> {
        let mut out = Vec::with_capacity(self.dims.len());
        for &d in &self.dims {
            out.push((i % d) as usize);
            i /= d;
        }
        out
    }
}
