//! Hand-made entropy models that hand the coders *arbitrary* well-formed (cumulative,
//! probability) pairs, and type configurations (`Cfg`) that dispatch a run-time precision to
//! the const-generic `PRECISION` of the real coder methods.

use constriction::backends::{ReadWords, WriteWords};
use constriction::stream::model::{DecoderModel, EncoderModel, EntropyModel};
use constriction::stream::queue::{DecoderFrontendError, RangeDecoder, RangeEncoder};
use constriction::stream::stack::AnsCoder;
use constriction::{BitArray, CoderError, DefaultEncoderFrontendError, Queue, Stack};
use core::borrow::Borrow;
use num_traits::AsPrimitive;
use serde::{Deserialize, Serialize};

/// Encoder model for the single symbol `()` with left cumulative `c` and probability `p`.
#[derive(Clone, Copy, Debug, PartialEq, Eq, Hash)]
pub struct Raw<Pr, const P: usize> {
    pub c: Pr,
    pub p: Pr,
}
impl<Pr: BitArray, const P: usize> EntropyModel<P> for Raw<Pr, P> {
    type Symbol = ();
    type Probability = Pr;
}
impl<Pr: BitArray, const P: usize> EncoderModel<P> for Raw<Pr, P> {
    fn left_cumulative_and_probability(&self, _s: impl Borrow<()>) -> Option<(Pr, Pr::NonZero)> {
        Some((self.c, self.p.into_nonzero().expect("Raw model with zero probability")))
    }
}

/// Encoder model over the symbols {true, false}: `true` has (c, p), `false` is IMPOSSIBLE (no probability).
/// Lets a batch contain an item that the coder must refuse.
#[derive(Clone, Copy, Debug, PartialEq, Eq, Hash)]
pub struct OptRaw<Pr, const P: usize> {
    pub c: Pr,
    pub p: Pr,
}
impl<Pr: BitArray, const P: usize> EntropyModel<P> for OptRaw<Pr, P> {
    type Symbol = bool;
    type Probability = Pr;
}
impl<Pr: BitArray, const P: usize> EncoderModel<P> for OptRaw<Pr, P> {
    fn left_cumulative_and_probability(&self, s: impl Borrow<bool>) -> Option<(Pr, Pr::NonZero)> {
        if *s.borrow() { Some((self.c, self.p.into_nonzero().expect("OptRaw model with zero probability"))) } else { None }
    }
}

/// Decoder model: the three-part partition `[0,c) [c,c+p) [c+p,2^P)` with symbols 0,1,2
/// (empty parts are never hit).
#[derive(Clone, Copy, Debug, PartialEq, Eq, Hash)]
pub struct Part<Pr, const P: usize> {
    pub c: Pr,
    pub p: Pr,
}
impl<Pr: BitArray, const P: usize> EntropyModel<P> for Part<Pr, P> {
    type Symbol = u8;
    type Probability = Pr;
}
impl<Pr: BitArray + Into<u64>, const P: usize> DecoderModel<P> for Part<Pr, P>
where
    u64: AsPrimitive<Pr>,
{
    fn quantile_function(&self, q: Pr) -> (u8, Pr, Pr::NonZero) {
        let total: u128 = 1u128 << P;
        let (c, p, q): (u128, u128, u128) = (
            self.c.into() as u128,
            self.p.into() as u128,
            q.into() as u128,
        );
        assert!(q < total, "HARNESS-MODEL: quantile {q} out of range at precision {P}");
        let (s, l, r) = if q < c {
            (0u8, 0u128, c)
        } else if q < c + p {
            (1, c, c + p)
        } else {
            (2, c + p, total)
        };
        (
            s,
            (l as u64).as_(),
            (((r - l) as u64).as_() as Pr).into_nonzero().expect("nonempty part"),
        )
    }
}

/// The (left, prob) of part `k` of the 3-part partition around `(c, p)` at precision `prec`.
pub fn part_interval(prec: u8, c: u64, p: u64, k: u8) -> (u64, u64) {
    let total = 1u128 << prec;
    let (c, p) = (c as u128, p as u128);
    let (l, r) = match k {
        0 => (0, c),
        1 => (c, c + p),
        _ => (c + p, total),
    };
    (l as u64, (r - l) as u64)
}

/// One letter of an operation alphabet: a symbol with left cumulative `c` and probability `p`
/// under a model at fixed-point precision `prec`.
#[derive(Clone, Copy, Debug, PartialEq, Eq, Hash, Serialize, Deserialize, PartialOrd, Ord)]
pub struct Letter {
    pub prec: u8,
    pub c: u64,
    pub p: u64,
}
impl Letter {
    pub const fn new(prec: u8, c: u64, p: u64) -> Self {
        Letter { prec, c, p }
    }
    pub fn well_formed(&self) -> bool {
        let total = 1u128 << self.prec;
        self.p >= 1 && (self.c as u128 + self.p as u128) <= total && (self.p as u128) < total
    }
    /// information content in bits
    pub fn info(&self) -> f64 {
        self.prec as f64 - (self.p as f64).log2()
    }
}

/// All well-formed pairs at precision `prec` (`p >= 1`, `c + p <= 2^P`, `p < 2^P`).
pub fn all_pairs(prec: u8) -> Vec<Letter> {
    let total = 1u64 << prec;
    let mut v = vec![];
    for p in 1..total {
        for c in 0..=(total - p) {
            v.push(Letter::new(prec, c, p));
        }
    }
    v
}

/// Extreme letters at precision `prec`: 1 quantum at both ends, 2^P-1 quanta, middle.
pub fn extremes(prec: u8) -> Vec<Letter> {
    let t = 1u64 << prec;
    let mut v = vec![
        Letter::new(prec, 0, 1),
        Letter::new(prec, t - 1, 1),
        Letter::new(prec, 1, t - 2),
        Letter::new(prec, 0, t - 1),
        Letter::new(prec, 1, t - 1),
    ];
    if prec >= 2 {
        v.push(Letter::new(prec, t / 2, t / 2 - 1));
        v.push(Letter::new(prec, t / 2 - 1, 2));
    }
    v.retain(|l| l.well_formed());
    v.sort();
    v.dedup();
    v
}

/// Full partition given by boundaries b[0]=0 < b[1] < ... < b[n]=2^P; symbols are indices.
#[derive(Clone, Debug, PartialEq, Eq, Hash)]
pub struct Full<Pr, const P: usize> {
    pub b: Vec<u64>,
    pub ph: core::marker::PhantomData<Pr>,
}
impl<Pr, const P: usize> Full<Pr, P> {
    pub fn new(b: Vec<u64>) -> Self {
        assert!(b.len() >= 2 && b[0] == 0 && *b.last().unwrap() == 1u64 << P);
        Full { b, ph: Default::default() }
    }
    pub fn num_symbols(&self) -> usize {
        self.b.len() - 1
    }
}
impl<Pr: BitArray, const P: usize> EntropyModel<P> for Full<Pr, P> {
    type Symbol = usize;
    type Probability = Pr;
}
impl<Pr: BitArray + Into<u64>, const P: usize> DecoderModel<P> for Full<Pr, P>
where
    u64: AsPrimitive<Pr>,
{
    fn quantile_function(&self, q: Pr) -> (usize, Pr, Pr::NonZero) {
        let q: u64 = q.into();
        assert!(q < 1u64 << P, "HARNESS-MODEL: quantile {q} out of range at precision {P}");
        let i = (0..self.b.len() - 1)
            .find(|&i| self.b[i] <= q && q < self.b[i + 1])
            .unwrap();
        (
            i,
            self.b[i].as_(),
            ((self.b[i + 1] - self.b[i]).as_() as Pr).into_nonzero().unwrap(),
        )
    }
}
impl<Pr: BitArray, const P: usize> EncoderModel<P> for Full<Pr, P>
where
    u64: AsPrimitive<Pr>,
{
    fn left_cumulative_and_probability(&self, s: impl Borrow<usize>) -> Option<(Pr, Pr::NonZero)> {
        let i = *s.borrow();
        if i + 1 >= self.b.len() {
            return None;
        }
        Some((
            self.b[i].as_(),
            ((self.b[i + 1] - self.b[i]).as_() as Pr).into_nonzero().unwrap(),
        ))
    }
}

/// All compositions of 2^prec into >= 2 parts, as boundary vectors (prec <= 4).
pub fn all_partitions(prec: u32) -> Vec<Vec<u64>> {
    let total = 1u64 << prec;
    let mut out = vec![];
    for mask in 1u64..(1 << (total - 1)) {
        let mut b = vec![0u64];
        for i in 1..total {
            if mask >> (i - 1) & 1 == 1 {
                b.push(i);
            }
        }
        b.push(total);
        out.push(b);
    }
    out
}

pub type EncRes<E> = Result<(), CoderError<DefaultEncoderFrontendError, E>>;

/// A (Word, State, Probability) instantiation plus the list of precisions it is exercised at.
pub trait Cfg: 'static + Sync + Send {
    type W: BitArray + Into<Self::S> + AsPrimitive<Self::Pr> + Into<u128> + Send + Sync;
    type S: BitArray + AsPrimitive<Self::W> + Into<u128> + Send + Sync;
    type Pr: BitArray + Into<Self::W> + Into<u64> + Send + Sync;
    const NAME: &'static str;
    const WBITS: u32;
    const SBITS: u32;
    const PRECS: &'static [u8];

    fn w(x: u128) -> Self::W;
    fn s(x: u128) -> Self::S;

    fn ans_encode<B: WriteWords<Self::W>>(
        c: &mut AnsCoder<Self::W, Self::S, B>,
        l: Letter,
    ) -> EncRes<B::WriteError>;
    fn ans_decode<B: ReadWords<Self::W, Stack>>(
        c: &mut AnsCoder<Self::W, Self::S, B>,
        l: Letter,
    ) -> Result<u8, B::ReadError>;
    fn range_encode<B: WriteWords<Self::W>>(
        c: &mut RangeEncoder<Self::W, Self::S, B>,
        l: Letter,
    ) -> EncRes<B::WriteError>;
    fn range_decode<B: ReadWords<Self::W, Queue>>(
        c: &mut RangeDecoder<Self::W, Self::S, B>,
        l: Letter,
    ) -> Result<u8, CoderError<DecoderFrontendError, B::ReadError>>;
}

#[macro_export]
macro_rules! define_cfg {
    ($name:ident, $W:ty, $S:ty, $Pr:ty, [$($p:literal),*]) => {
        pub struct $name;
        impl $crate::models::Cfg for $name {
            type W = $W;
            type S = $S;
            type Pr = $Pr;
            const NAME: &'static str = concat!(stringify!($W), "/", stringify!($S));
            const WBITS: u32 = <$W>::BITS;
            const SBITS: u32 = <$S>::BITS;
            const PRECS: &'static [u8] = &[$($p),*];
            fn w(x: u128) -> $W { x as $W }
            fn s(x: u128) -> $S { x as $S }
            fn ans_encode<B: constriction::backends::WriteWords<$W>>(
                c: &mut constriction::stream::stack::AnsCoder<$W, $S, B>,
                l: $crate::models::Letter,
            ) -> $crate::models::EncRes<B::WriteError> {
                use constriction::stream::Encode;
                match l.prec {
                    $($p => c.encode_symbol((), $crate::models::Raw::<$Pr, $p> { c: l.c as $Pr, p: l.p as $Pr }),)*
                    other => panic!("HARNESS: precision {other} not configured for {}", Self::NAME),
                }
            }
            fn ans_decode<B: constriction::backends::ReadWords<$W, constriction::Stack>>(
                c: &mut constriction::stream::stack::AnsCoder<$W, $S, B>,
                l: $crate::models::Letter,
            ) -> Result<u8, B::ReadError> {
                use constriction::stream::Decode;
                let r = match l.prec {
                    $($p => c.decode_symbol($crate::models::Part::<$Pr, $p> { c: l.c as $Pr, p: l.p as $Pr }),)*
                    other => panic!("HARNESS: precision {other} not configured for {}", Self::NAME),
                };
                match r {
                    Ok(s) => Ok(s),
                    Err(constriction::CoderError::Backend(e)) => Err(e),
                    #[allow(unreachable_patterns)]
                    Err(constriction::CoderError::Frontend(i)) => match i {},
                }
            }
            fn range_encode<B: constriction::backends::WriteWords<$W>>(
                c: &mut constriction::stream::queue::RangeEncoder<$W, $S, B>,
                l: $crate::models::Letter,
            ) -> $crate::models::EncRes<B::WriteError> {
                use constriction::stream::Encode;
                match l.prec {
                    $($p => c.encode_symbol((), $crate::models::Raw::<$Pr, $p> { c: l.c as $Pr, p: l.p as $Pr }),)*
                    other => panic!("HARNESS: precision {other} not configured for {}", Self::NAME),
                }
            }
            fn range_decode<B: constriction::backends::ReadWords<$W, constriction::Queue>>(
                c: &mut constriction::stream::queue::RangeDecoder<$W, $S, B>,
                l: $crate::models::Letter,
            ) -> Result<u8, constriction::CoderError<constriction::stream::queue::DecoderFrontendError, B::ReadError>> {
                use constriction::stream::Decode;
                match l.prec {
                    $($p => c.decode_symbol($crate::models::Part::<$Pr, $p> { c: l.c as $Pr, p: l.p as $Pr }),)*
                    other => panic!("HARNESS: precision {other} not configured for {}", Self::NAME),
                }
            }
        }
    };
}

// Type matrix M of DESIGN.md §2. Precision lists cover P < W, P = W = Probability::BITS,
// S-W-P = 0 and > 0.
define_cfg!(U8U16, u8, u16, u8, [1, 2, 3, 4, 7, 8]);
define_cfg!(U8U32, u8, u32, u8, [1, 2, 3, 4, 7, 8]);
define_cfg!(U8U64, u8, u64, u8, [1, 2, 3, 4, 7, 8]);
define_cfg!(U16U32, u16, u32, u16, [1, 2, 3, 8, 12, 15, 16]);
define_cfg!(U16U64, u16, u64, u16, [1, 2, 3, 8, 12, 15, 16]);
define_cfg!(U32U64, u32, u64, u32, [1, 2, 3, 8, 16, 24, 31, 32]);
define_cfg!(U64U128, u64, u128, u32, [1, 2, 3, 8, 16, 24, 31, 32]);

pub fn to_u128<T: Into<u128> + Copy>(v: &[T]) -> Vec<u128> {
    v.iter().map(|&x| x.into()).collect()
}

