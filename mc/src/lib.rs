//! cvmc — bounded exhaustive model checking of the `constriction` crate (see /verif/DESIGN.md).
pub mod models;
pub mod report;
pub mod walk;
pub mod refs;
pub mod isolate;
pub mod mcheck;
pub mod mfam;
pub mod mfam2;
pub mod props;
