//! Model family, continued: fixed-point tables, quantised distributions, uniform models.

use crate::isolate::{guarded, ChildSink, Outcome};
use crate::mcheck::*;
use crate::mfam::{Case, Finding};
use constriction::stream::model::*;
use core::fmt::Debug;
use probability::distribution::{Cauchy, Distribution, Exponential, Gaussian, Inverse, Laplace};

fn short(e: &str) -> &'static str {
    if e.contains("degenerate") { "degenerate (fewer than two symbols)" }
    else if e.contains("has no probability") { "symbol of the support rejected" }
    else if e.contains("preceding symbols end") { "intervals not consecutive" }
    else if e.contains("probability zero") { "symbol with probability zero" }
    else if e.contains("probability one") { "symbol with probability one" }
    else if e.contains("add up to") { "probabilities do not add up to 2^P" }
    else if e.contains("outside the support") { "symbol outside the support accepted" }
    else if e.contains("decoder side returns") { "quantile lookup disagrees with encoding" }
    else if e.contains("not covered") { "quantile not covered" }
    else if e.contains("does not contain it") { "quantile lookup returns an interval not containing the quantile" }
    else if e.contains("rows differ from the table") { "model differs from the given table" }
    else { "invalid" }
}
fn loc_file(loc: &str) -> String {
    loc.rsplit_once(':').map(|(f, _)| f.to_string()).unwrap_or_else(|| loc.to_string())
}
fn query<T>(c: &mut Case, site: &str, class: &str, input: &dyn Debug, tags: &'static str, f: impl FnOnce() -> Result<T, String>) -> Option<T> {
    match guarded(f) {
        Outcome::Value(Ok(v)) => Some(v),
        Outcome::Value(Err(e)) => {
            c.out.push(Finding { props: tags, identity: format!("{site} | {class} | {}", short(&e)), detail: format!("input {:?}: {e}", input) });
            None
        }
        Outcome::CleanPanic { msg, loc } => {
            c.out.push(Finding { props: tags, identity: format!("{site} | {class} | model built but queries panic"), detail: format!("input {:?}: panic '{msg}' at {loc}", input) });
            None
        }
        Outcome::OverflowPanic { msg, loc } => {
            c.out.push(Finding { props: "C20", identity: format!("{site} | arithmetic overflow inside the library ({})", loc_file(&loc)), detail: format!("input {:?}: '{msg}' at {loc}", input) });
            c.out.push(Finding { props: tags, identity: format!("{site} | {class} | model built but queries panic"), detail: format!("input {:?}: panic '{msg}' at {loc}", input) });
            None
        }
    }
}
fn construct<M>(c: &mut Case, site: &str, input: &dyn Debug, f: impl FnOnce() -> Result<M, ()>) -> Option<M> {
    match guarded(f) {
        Outcome::Value(Ok(m)) => { c.sink.count("models_built", 1); Some(m) }
        Outcome::Value(Err(())) => { c.sink.count("constructor_returned_err", 1); None }
        Outcome::CleanPanic { .. } => { c.sink.count("constructor_panicked_cleanly", 1); None }
        Outcome::OverflowPanic { msg, loc } => {
            c.out.push(Finding { props: "C20", identity: format!("{site} | arithmetic overflow inside the library ({})", loc_file(&loc)), detail: format!("input {:?}: '{msg}' at {loc}", input) });
            None
        }
    }
}
fn same<S: Debug + PartialEq>(c: &mut Case, what: &str, input: &dyn Debug, a: &[Row<S>], b: &[Row<S>]) {
    c.sink.count("representation_comparisons", 1);
    if a != b {
        let k = a.iter().zip(b.iter()).position(|(x, y)| x != y).unwrap_or(a.len().min(b.len()));
        c.out.push(Finding { props: "C05", identity: format!("{what} | rows differ"),
            detail: format!("input {:?}: first difference at row {k}: {:?} vs {:?} (lengths {} / {})", input, a.get(k), b.get(k), a.len(), b.len()) });
    }
}

// ------------------------------------------------------------------------------------------
// fixed-point tables

macro_rules! fixed_case_impl {
    ($fname:ident, $Pr:ty, $P:literal) => {
        /// `sym_delta`: 0 = matching symbol count, -1 = one symbol too few, +1 = one too many, 2 = duplicate symbol
        pub fn $fname(t: &[$Pr], infer: bool, sym_delta: i32, c: &mut Case) {
            let total: u64 = 1u64 << $P;
            let sum: u64 = t.iter().map(|&x| x as u64).sum();
            // the table this input denotes (None if it denotes none)
            let full: Option<Vec<u64>> = if infer {
                if t.iter().all(|&x| x != 0) && sum < total { let mut f: Vec<u64> = t.iter().map(|&x| x as u64).collect(); f.push(total - sum); Some(f) } else { None }
            } else if t.iter().all(|&x| x != 0) && sum == total { Some(t.iter().map(|&x| x as u64).collect()) } else { None };
            let full = full.filter(|f| f.len() >= 2);
            let input = (t.to_vec(), infer, sym_delta);
            let n_expected = t.len() + infer as usize;
            c.sink.count("tables", 1);
            if full.is_some() { c.sink.count("tables_denoting_a_valid_model", 1); }
            let expect_rows = |f: &Vec<u64>| -> Vec<(u64, u64)> { let mut acc = 0; f.iter().map(|&p| { let r = (acc, p); acc += p; r }).collect() };
            let class = if full.is_some() { "table denoting a valid model" } else { "invalid table" };
            let tags: &'static str = if full.is_some() { "C03,C19" } else { "C19" };
            let outside: Vec<usize> = vec![n_expected, n_expected + 1, usize::MAX, 256, 65536 + 1];

            if sym_delta == 0 {
                // ---- contiguous
                let site = "ContiguousCategoricalEntropyModel::from_nonzero_fixed_point_probabilities";
                let m = construct(c, site, &input, || ContiguousCategoricalEntropyModel::<$Pr, Vec<$Pr>, $P>::from_nonzero_fixed_point_probabilities(t.iter().copied(), infer));
                match (&m, &full) {
                    (Some(m), _) => {
                        let support: Vec<usize> = (0..m.support_size()).collect();
                        let rows = query(c, site, class, &input, tags, || valid::<_, usize, $P>(m, &support, &outside));
                        if let (Some(rows), Some(f)) = (&rows, &full) {
                            let got: Vec<(u64, u64)> = rows.iter().map(|r| (r.1, r.2)).collect();
                            if got != expect_rows(f) {
                                c.out.push(Finding { props: "C03,C19", identity: format!("{site} | {class} | model differs from the given table"), detail: format!("input {:?}: rows {:?}", input, got) });
                            }
                            if let Some(r) = query(c, "symbol_table", class, &input, "C05", || Ok(iter_rows::<_, usize, $P>(m))) {
                                same(c, "symbol_table vs direct queries (contiguous categorical)", &input, rows, &r);
                            }
                        }
                    }
                    (None, Some(_)) => c.out.push(Finding { props: "C19", identity: format!("{site} | valid table rejected{}", if infer { " (infer_last_probability)" } else { "" }),
                        detail: format!("input {:?} at PRECISION {}", input, $P) }),
                    (None, None) => {}
                }
                // ---- lookup contiguous
                let site = "ContiguousLookupDecoderModel::from_nonzero_fixed_point_probabilities";
                let l = construct(c, site, &input, || ContiguousLookupDecoderModel::<$Pr, Vec<$Pr>, Box<[$Pr]>, $P>::from_nonzero_fixed_point_probabilities(t.iter().copied(), infer));
                match (&l, &full) {
                    (Some(l), Some(f)) => {
                        let rows: Vec<Row<usize>> = expect_rows(f).into_iter().enumerate().map(|(i, (a, b))| (i, a, b)).collect();
                        let qs = quantiles(&rows, $P);
                        query(c, site, class, &input, tags, || check_dec::<_, usize, $P>(l, &rows, &qs));
                    }
                    (Some(l), None) => {
                        // accepted an invalid table: whatever it is, it must be a valid model
                        let qs: Vec<u64> = (0..total).collect();
                        query(c, site, class, &input, tags, || { let r = dec_rows::<_, usize, $P>(l, &qs)?; check_tiling(&r, $P) });
                    }
                    (None, Some(_)) => c.out.push(Finding { props: "C19", identity: format!("{site} | valid table rejected{}", if infer { " (infer_last_probability)" } else { "" }), detail: format!("input {:?} at PRECISION {}", input, $P) }),
                    (None, None) => {}
                }
            }
            // ---- non-contiguous with symbol lists of matching / mismatching length
            let nsym = (n_expected as i64 + if sym_delta == 2 { 0 } else { sym_delta as i64 }).max(0) as usize;
            let mut labels: Vec<u32> = (0..nsym as u32).map(|i| (i * 7919 + 13) % 1000 + (if i % 2 == 0 { 100000 } else { 0 })).collect();
            if sym_delta == 2 && labels.len() >= 2 { let l0 = labels[0]; *labels.last_mut().unwrap() = l0; }
            let sym_ok = sym_delta == 0;
            let class2 = if full.is_some() && sym_ok { "table denoting a valid model" } else if full.is_some() { "valid table, mismatching / duplicate symbol list" } else { "invalid table" };
            let tags2: &'static str = if full.is_some() && sym_ok { "C03,C19" } else { "C19" };
            let lab_out: Vec<u32> = vec![1, 2, 99999, u32::MAX];
            let site = "NonContiguousCategoricalEncoderModel::from_symbols_and_nonzero_fixed_point_probabilities";
            let e = construct(c, site, &input, || NonContiguousCategoricalEncoderModel::<u32, $Pr, $P>::from_symbols_and_nonzero_fixed_point_probabilities(labels.iter().copied(), t.iter().copied(), infer));
            let site_d = "NonContiguousCategoricalDecoderModel::from_symbols_and_nonzero_fixed_point_probabilities";
            let d = construct(c, site_d, &input, || NonContiguousCategoricalDecoderModel::<u32, $Pr, _, $P>::from_symbols_and_nonzero_fixed_point_probabilities(labels.iter().copied(), t.iter().copied(), infer));
            let site_l = "NonContiguousLookupDecoderModel::from_symbols_and_nonzero_fixed_point_probabilities";
            let l = construct(c, site_l, &input, || NonContiguousLookupDecoderModel::<u32, $Pr, _, _, $P>::from_symbols_and_nonzero_fixed_point_probabilities(labels.iter().copied(), t.iter().copied(), infer));
            if full.is_some() && sym_ok {
                for (ok, s) in [(e.is_some(), site), (d.is_some(), site_d), (l.is_some(), site_l)] {
                    if !ok {
                        c.out.push(Finding { props: "C19", identity: format!("{s} | valid table rejected{}", if infer { " (infer_last_probability)" } else { "" }), detail: format!("input {:?} at PRECISION {}", input, $P) });
                    }
                }
            }
            let mut erows = None;
            if let Some(e) = &e {
                // the support is whatever distinct labels were given
                let mut sup = labels.clone();
                sup.dedup();
                erows = query(c, site, class2, &input, tags2, || {
                    if e.support_size() < 2 { return Err("model over 1 symbol(s): degenerate".to_string()); }
                    let mut r = enc_rows::<_, u32, $P>(e, &labels[..e.support_size().min(labels.len())])?;
                    r.sort_by_key(|x| x.1);
                    check_tiling(&r, $P)?; check_outside::<_, u32, $P>(e, &lab_out)?; Ok(r) });
                let _ = sup;
            }
            if sym_delta == 2 {
                // A decoder-only model whose symbol list repeats a label merely decodes two quantile
                // ranges to the same label; the property does not forbid that (the encoder-side
                // constructor, which cannot represent it, is judged above). Not judged here.
                if d.is_some() || l.is_some() { c.sink.count("duplicate_symbol_lists_accepted_by_decoder_models", 1); }
                return;
            }
            for (which, rows_of) in [(0, site_d), (1, site_l)] {
                let qs: Vec<u64> = if $P <= 12 { (0..total).collect() } else { quantiles::<u32>(&[], $P) };
                let r = if which == 0 {
                    d.as_ref().and_then(|d| query(c, rows_of, class2, &input, tags2, || { let r = dec_rows::<_, u32, $P>(d, &qs)?; if $P <= 12 { check_tiling(&r, $P)?; } Ok(r) }))
                } else {
                    l.as_ref().and_then(|l| query(c, rows_of, class2, &input, tags2, || { let r = dec_rows::<_, u32, $P>(l, &qs)?; if $P <= 12 { check_tiling(&r, $P)?; } Ok(r) }))
                };
                if let (Some(r), Some(er)) = (&r, &erows) {
                    if $P <= 12 {
                        same(c, "non-contiguous encoder hash table vs decoder table (same constructor input)", &input, er, r);
                    }
                }
                if let (Some(r), Some(f)) = (&r, &full) {
                    if sym_ok && $P <= 12 {
                        let got: Vec<(u64, u64)> = r.iter().map(|x| (x.1, x.2)).collect();
                        if got != expect_rows(f) {
                            c.out.push(Finding { props: "C03,C19", identity: format!("{rows_of} | {class2} | model differs from the given table"), detail: format!("input {:?}: rows {:?}", input, got) });
                        }
                    }
                }
            }
        }
    };
}

fixed_case_impl!(fixed_u8_1, u8, 1);
fixed_case_impl!(fixed_u8_2, u8, 2);
fixed_case_impl!(fixed_u8_3, u8, 3);
fixed_case_impl!(fixed_u8_7, u8, 7);
fixed_case_impl!(fixed_u8_8, u8, 8);
fixed_case_impl!(fixed_u16_12, u16, 12);
fixed_case_impl!(fixed_u16_16, u16, 16);

pub const FIXED_PARTS_U8: [&str; 5] = ["u8/1", "u8/2", "u8/3", "u8/7", "u8/8"];
pub const FIXED_PARTS_U16: [&str; 2] = ["u16/12", "u16/16"];

pub fn fixed_letters_u16(p: u32) -> Vec<u16> {
    let t: u32 = 1 << p;
    let mut v: Vec<u32> = vec![0, 1, 2, 3, t / 2 - 1, t / 2, t / 2 + 1, t - 3, t - 2, t - 1, 0xffff, 0x8000, 100];
    if p < 16 { v.push(t); v.push(t + 1); }
    let mut v: Vec<u16> = v.into_iter().filter(|&x| x <= 0xffff).map(|x| x as u16).collect();
    v.sort();
    v.dedup();
    v
}

/// u8 part: index -> (table of length 0..=maxlen over all 256 values (alphabet 0) or 12 letters (alphabet 1), infer, sym_delta)
/// `part` = "fixed/<Pr>/<P>/<alphabet>/<maxlen>"
pub fn fixed_space(part: &str) -> (Vec<u64>, u64, usize, Vec<u64>) {
    let f: Vec<&str> = part.split('/').collect();
    let p: u32 = f[2].parse().unwrap();
    let maxlen: usize = f[4].parse().unwrap();
    let letters: Vec<u64> = match (f[1], f[3]) {
        ("u8", "all") => (0..=255u64).collect(),
        ("u8", _) => { let t = 1u64 << p; let mut v = vec![0, 1, 2, 3, 5, t / 2, t.saturating_sub(1).min(255), t.min(255), 254, 255, 128, 127]; v.retain(|x| *x <= 255); v.sort(); v.dedup(); v }
        ("u16", _) => fixed_letters_u16(p).into_iter().map(|x| x as u64).collect(),
        _ => panic!("HARNESS: bad fixed part"),
    };
    // variants: infer in {0,1} x sym_delta in {0,-1,+1,2}  => 8
    let variants = 8u64;
    let mut offs = vec![0u64];
    for len in 0..=maxlen {
        offs.push(offs.last().unwrap() + (letters.len() as u64).pow(len as u32) * variants);
    }
    let total = *offs.last().unwrap();
    (offs, total, maxlen, letters)
}

pub fn fixed_decode(offs: &[u64], letters: &[u64], mut i: u64) -> (Vec<u64>, bool, i32) {
    let len = (0..offs.len() - 1).find(|&l| i < offs[l + 1]).expect("index out of range");
    i -= offs[len];
    let variant = i % 8;
    i /= 8;
    let mut t = vec![];
    for _ in 0..len {
        t.push(letters[(i % letters.len() as u64) as usize]);
        i /= letters.len() as u64;
    }
    (t, variant & 1 == 1, [0, -1, 1, 2][(variant >> 1) as usize])
}

pub fn fixed_part_run(part: &str, from: u64, to: u64, want: &str, sink: &mut ChildSink) {
    let f: Vec<&str> = part.split('/').collect();
    let key = format!("{}/{}", f[1], f[2]);
    let (offs, _, _, letters) = fixed_space(part);
    for i in from..to {
        sink.begin_case(i);
        let (t, infer, delta) = fixed_decode(&offs, &letters, i);
        let mut out = vec![];
        {
            let mut c = Case { out: &mut out, sink };
            macro_rules! g8 { ($f:ident) => {{ let t: Vec<u8> = t.iter().map(|&x| x as u8).collect(); $f(&t, infer, delta, &mut c) }}; }
            macro_rules! g16 { ($f:ident) => {{ let t: Vec<u16> = t.iter().map(|&x| x as u16).collect(); $f(&t, infer, delta, &mut c) }}; }
            match key.as_str() {
                "u8/1" => g8!(fixed_u8_1), "u8/2" => g8!(fixed_u8_2), "u8/3" => g8!(fixed_u8_3), "u8/7" => g8!(fixed_u8_7), "u8/8" => g8!(fixed_u8_8),
                "u16/12" => g16!(fixed_u16_12), "u16/16" => g16!(fixed_u16_16),
                other => panic!("HARNESS: unknown fixed part {other}"),
            }
        }
        sink.n += 1;
        for fd in out {
            if fd.props.split(',').any(|p| p == want) {
                sink.violation(&fd.identity, &fd.detail, i);
            }
        }
    }
}

pub fn fixed_case_desc(part: &str, i: u64) -> (bool, String) {
    let f: Vec<&str> = part.split('/').collect();
    let p: u32 = f[2].parse().unwrap();
    let (offs, _, _, letters) = fixed_space(part);
    let (t, infer, delta) = fixed_decode(&offs, &letters, i);
    let total = 1u64 << p;
    let sum: u64 = t.iter().sum();
    let valid = t.iter().all(|&x| x != 0) && ((infer && sum < total && !t.is_empty()) || (!infer && sum == total && t.len() >= 2)) && delta == 0;
    (valid, format!("table {:?} infer_last={infer} symbol-list variant {delta} at PRECISION {p}", t))
}

// ------------------------------------------------------------------------------------------
// quantised distributions

#[derive(Clone, Copy, Debug)]
pub enum Hint { Exact, Constant, Shifted, Coarse }
pub const HINTS: [Hint; 4] = [Hint::Exact, Hint::Constant, Hint::Shifted, Hint::Coarse];

#[derive(Clone, Copy, Debug)]
pub enum Fam { Gaussian, Cauchy, Laplace, Exponential, Step, ClippedGaussian }
pub const FAMS: [Fam; 6] = [Fam::Gaussian, Fam::Cauchy, Fam::Laplace, Fam::Exponential, Fam::Step, Fam::ClippedGaussian];
pub const LOCS: [f64; 13] = [0.0, 0.5, -0.5, 3.3, -3.3, 127.5, -127.5, 1e5, -1e5, 1e18, -1e18, 1e300, -1e300];
pub const SCALES: [f64; 9] = [1e-300, 1e-40, 1e-5, 0.1, 1.0, 3.5, 1e3, 1e18, 1e300];

/// A distribution with CDF from the family and an inverse that is only a hint.
#[derive(Clone, Copy, Debug)]
pub struct Dist { pub fam: Fam, pub loc: f64, pub scale: f64, pub hint: Hint }

impl Dist {
    fn cdf(&self, x: f64) -> f64 {
        let v = match self.fam {
            Fam::Gaussian => Gaussian::new(self.loc, self.scale).distribution(x),
            Fam::Cauchy => Cauchy::new(self.loc, self.scale).distribution(x),
            Fam::Laplace => Laplace::new(self.loc, self.scale).distribution(x),
            Fam::Exponential => Exponential::new(1.0 / self.scale).distribution(x - self.loc),
            // step-shaped CDF: jumps of 1/8 at loc + k*scale
            Fam::Step => { let k = ((x - self.loc) / self.scale).floor(); (0.5 + k * 0.125).clamp(0.0, 1.0) }
            // both tails cut off
            Fam::ClippedGaussian => Gaussian::new(self.loc, self.scale).distribution(x).clamp(0.25, 0.7),
        };
        if v.is_nan() { 0.5 } else { v.clamp(0.0, 1.0) }
    }
    fn true_inverse(&self, p: f64) -> f64 {
        let v = match self.fam {
            Fam::Gaussian | Fam::ClippedGaussian => Gaussian::new(self.loc, self.scale).inverse(p),
            Fam::Cauchy => Cauchy::new(self.loc, self.scale).inverse(p),
            Fam::Laplace => Laplace::new(self.loc, self.scale).inverse(p),
            Fam::Exponential => Exponential::new(1.0 / self.scale).inverse(p) + self.loc,
            Fam::Step => self.loc + ((p - 0.5) / 0.125).floor() * self.scale,
        };
        // the documented precondition: finite and nondecreasing
        if v.is_nan() { 0.0 } else { v.clamp(-1e306, 1e306) }
    }
}
impl Distribution for Dist {
    type Value = f64;
    fn distribution(&self, x: f64) -> f64 { self.cdf(x) }
}
impl Inverse for Dist {
    fn inverse(&self, p: f64) -> f64 {
        match self.hint {
            Hint::Exact => self.true_inverse(p),
            Hint::Constant => 0.0,
            Hint::Shifted => (self.true_inverse(p) + 37.3).clamp(-1e306, 1e306),
            Hint::Coarse => { let v = self.true_inverse(p); ((v / 16.0).floor() * 16.0).clamp(-1e306, 1e306) }
        }
    }
}

macro_rules! quant_case_impl {
    ($fname:ident, $Sym:ty, $Pr:ty, $P:literal, $lookup:tt) => {
        pub fn $fname(d: Dist, lo: i64, hi: i64, c: &mut Case) {
            let input = (d, lo, hi, stringify!($Sym), stringify!($Pr), $P);
            let site = "LeakyQuantizer::quantize";
            let class = "distribution satisfying the documented requirements";
            c.sink.count("distributions", 1);
            let q = match guarded(|| LeakyQuantizer::<f64, $Sym, $Pr, $P>::new((lo as $Sym)..=(hi as $Sym))) {
                Outcome::Value(q) => q,
                Outcome::CleanPanic { .. } => { c.sink.count("constructor_panicked_cleanly", 1); return; }
                Outcome::OverflowPanic { msg, loc } => {
                    c.out.push(Finding { props: "C20", identity: format!("LeakyQuantizer::new | arithmetic overflow inside the library ({})", loc_file(&loc)), detail: format!("input {:?}: '{msg}' at {loc}", input) });
                    return;
                }
            };
            let m = q.quantize(d);
            let support: Vec<$Sym> = (lo..=hi).map(|x| x as $Sym).collect();
            let mut outside: Vec<$Sym> = vec![];
            for x in [lo - 1, hi + 1, lo - 2, hi + 2, <$Sym>::MIN as i64, <$Sym>::MAX as i64, lo + 256, lo + 65536, hi - 65536, lo.wrapping_add(1 << 32), hi.wrapping_sub(1 << 32)] {
                if (x < lo || x > hi) && x >= <$Sym>::MIN as i64 && x <= <$Sym>::MAX as i64 { outside.push(x as $Sym); }
            }
            let rows = query(c, site, class, &input, "C03", || valid::<_, $Sym, $P>(&m, &support, &outside));
            c.sink.count("models_built", 1);
            if let Some(rows) = rows {
                if let Some(r) = query(c, "LeakilyQuantizedDistribution::symbol_table", class, &input, "C05", || Ok(iter_rows::<_, $Sym, $P>(&m))) {
                    same(c, "symbol_table vs direct queries (quantised distribution)", &input, &rows, &r);
                }
                if let Some(g) = query(c, "to_generic_encoder_model", class, &input, "C05", || Ok(m.to_generic_encoder_model())) {
                    if let Some(r) = query(c, "to_generic_encoder_model", class, &input, "C05", || { let r = enc_rows::<_, $Sym, $P>(&g, &support)?; check_outside::<_, $Sym, $P>(&g, &outside)?; Ok(r) }) {
                        same(c, "to_generic_encoder_model vs source model", &input, &rows, &r);
                    }
                }
                let qs = quantiles(&rows, $P);
                if let Some(g) = query(c, "to_generic_decoder_model", class, &input, "C05", || Ok(m.to_generic_decoder_model())) {
                    if query(c, "to_generic_decoder_model", class, &input, "C05", || check_dec::<_, $Sym, $P>(&g, &rows, &qs)).is_some() { c.sink.count("representation_comparisons", 1); }
                }
                quant_case_impl!(@lookup $lookup, c, m, rows, qs, input, class, $Sym, $P);
            }
        }
    };
    (@lookup true, $c:ident, $m:ident, $rows:ident, $qs:ident, $input:ident, $class:ident, $Sym:ty, $P:literal) => {
        if let Some(g) = query($c, "to_generic_lookup_decoder_model", $class, &$input, "C05", || Ok($m.to_generic_lookup_decoder_model())) {
            if query($c, "to_generic_lookup_decoder_model", $class, &$input, "C05", || check_dec::<_, $Sym, $P>(&g, &$rows, &$qs)).is_some() { $c.sink.count("representation_comparisons", 1); }
        }
    };
    (@lookup false, $c:ident, $m:ident, $rows:ident, $qs:ident, $input:ident, $class:ident, $Sym:ty, $P:literal) => {};
}

quant_case_impl!(quant_i32_u8_4, i32, u8, 4, true);
quant_case_impl!(quant_i32_u8_8, i32, u8, 8, true);
quant_case_impl!(quant_i32_u16_12, i32, u16, 12, true);
quant_case_impl!(quant_i8_u16_12, i8, u16, 12, true);
quant_case_impl!(quant_u8_u16_12, u8, u16, 12, true);
quant_case_impl!(quant_i16_u16_16, i16, u16, 16, true);
quant_case_impl!(quant_i32_u32_24, i32, u32, 24, false);
quant_case_impl!(quant_i32_u32_32, i32, u32, 32, false);
quant_case_impl!(quant_u16_u32_24, u16, u32, 24, false);

pub const QUANT_PARTS: [&str; 9] = ["i32/u8/4", "i32/u8/8", "i32/u16/12", "i8/u16/12", "u8/u16/12", "i16/u16/16", "i32/u32/24", "i32/u32/32", "u16/u32/24"];

/// supports available for a symbol type and precision (lo, hi)
pub fn supports(sym: &str, prec: u32) -> Vec<(i64, i64)> {
    let cap = (1i64 << prec.min(40)) - 1; // hi - lo must be <= 2^P - 1
    let (min, max): (i64, i64) = match sym { "i8" => (-128, 127), "u8" => (0, 255), "i16" => (-32768, 32767), "u16" => (0, 65535), _ => (i32::MIN as i64, i32::MAX as i64) };
    let mut v = vec![(0, 1), (-2, 1), (-7, 7), (-127, 127), (0, 255), (-100, 100), (max - 3, max), (min, min + 5), (-1, 0), (3, 12)];
    v.retain(|&(lo, hi)| lo >= min && hi <= max && hi - lo <= cap);
    v
}

pub fn quant_space(part: &str) -> (crate::isolate::Space, Vec<(i64, i64)>) {
    let f: Vec<&str> = part.split('/').collect();
    let sup = supports(f[1], f[3].parse().unwrap());
    (crate::isolate::Space::new(&[FAMS.len() as u64, LOCS.len() as u64, SCALES.len() as u64, HINTS.len() as u64, sup.len() as u64]), sup)
}

/// `part` = "quant/<Sym>/<Pr>/<P>"
pub fn quant_part_run(part: &str, from: u64, to: u64, want: &str, sink: &mut ChildSink) {
    let f: Vec<&str> = part.split('/').collect();
    let key = format!("{}/{}/{}", f[1], f[2], f[3]);
    let (space, sup) = quant_space(part);
    for i in from..to {
        sink.begin_case(i);
        let k = space.decode(i);
        let d = Dist { fam: FAMS[k[0]], loc: LOCS[k[1]], scale: SCALES[k[2]], hint: HINTS[k[3]] };
        let (lo, hi) = sup[k[4]];
        let mut out = vec![];
        {
            let mut c = Case { out: &mut out, sink };
            match key.as_str() {
                "i32/u8/4" => quant_i32_u8_4(d, lo, hi, &mut c), "i32/u8/8" => quant_i32_u8_8(d, lo, hi, &mut c), "i32/u16/12" => quant_i32_u16_12(d, lo, hi, &mut c),
                "i8/u16/12" => quant_i8_u16_12(d, lo, hi, &mut c), "u8/u16/12" => quant_u8_u16_12(d, lo, hi, &mut c), "i16/u16/16" => quant_i16_u16_16(d, lo, hi, &mut c),
                "i32/u32/24" => quant_i32_u32_24(d, lo, hi, &mut c), "i32/u32/32" => quant_i32_u32_32(d, lo, hi, &mut c), "u16/u32/24" => quant_u16_u32_24(d, lo, hi, &mut c),
                other => panic!("HARNESS: unknown quant part {other}"),
            }
        }
        sink.n += 1;
        for fd in out {
            if fd.props.split(',').any(|p| p == want) {
                sink.violation(&fd.identity, &fd.detail, i);
            }
        }
    }
}
pub fn quant_case_desc(part: &str, i: u64) -> String {
    let (space, sup) = quant_space(part);
    let k = space.decode(i);
    format!("{:?} loc {} scale {} hint {:?} support {:?} ({part})", FAMS[k[0]], LOCS[k[1]], SCALES[k[2]], HINTS[k[3]], sup[k[4]])
}

// ------------------------------------------------------------------------------------------
// LeakyQuantizer::new / UniformModel::new with arbitrary supports (C19) and uniform models (C03/C05)

macro_rules! uniform_case_impl {
    ($fname:ident, $Pr:ty, $P:literal, $lookup:tt) => {
        pub fn $fname(range: usize, c: &mut Case) {
            let input = (range, stringify!($Pr), $P);
            let total: u128 = 1u128 << $P;
            let acceptable = range >= 2 && (range as u128) <= total;
            c.sink.count("uniform_ranges", 1);
            let m = match guarded(|| UniformModel::<$Pr, $P>::new(range)) {
                Outcome::Value(m) => m,
                Outcome::CleanPanic { .. } => { c.sink.count("constructor_panicked_cleanly", 1); return; }
                Outcome::OverflowPanic { msg, loc } => {
                    c.out.push(Finding { props: "C20", identity: format!("UniformModel::new | arithmetic overflow inside the library ({})", loc_file(&loc)), detail: format!("input {:?}: '{msg}' at {loc}", input) });
                    return;
                }
            };
            c.sink.count("models_built", 1);
            let class = if acceptable { "range within 2..=2^P" } else { "range outside 2..=2^P" };
            let tags: &'static str = if acceptable { "C03,C19" } else { "C19" };
            if range > 70000 {
                // accepted a huge range: cannot enumerate the support; it is invalid if range > 2^P
                if !acceptable { c.out.push(Finding { props: "C19", identity: "UniformModel::new | range larger than 2^P accepted".into(), detail: format!("{:?}", input) }); }
                return;
            }
            let support: Vec<usize> = (0..range).collect();
            let b = <$Pr>::BITS;
            let mut outside: Vec<usize> = vec![range, range + 1, usize::MAX];
            for k in [0usize, 1, range.saturating_sub(1)] {
                for sh in [b, 16, 32, 33] { if sh < 64 { let x = (1usize << sh).wrapping_add(k); if x >= range { outside.push(x); } } }
            }
            let rows = query(c, "UniformModel::new", class, &input, tags, || valid::<_, usize, $P>(&m, &support, &outside));
            if let Some(rows) = rows {
                // uniformity: all but the last symbol have the same probability, the last one at least as much
                let p0 = rows[0].2;
                if rows[..rows.len() - 1].iter().any(|r| r.2 != p0) || rows.last().unwrap().2 < p0 {
                    c.out.push(Finding { props: "C03", identity: "UniformModel::new | probabilities are not uniform".into(), detail: format!("{:?}: {:?}", input, rows.iter().map(|r| r.2).collect::<Vec<_>>()) });
                }
                if let Some(r) = query(c, "UniformModel::symbol_table", class, &input, "C05", || Ok(iter_rows::<_, usize, $P>(&m))) {
                    same(c, "symbol_table vs direct queries (uniform model)", &input, &rows, &r);
                }
                if let Some(g) = query(c, "to_generic_encoder_model", class, &input, "C05", || Ok(m.to_generic_encoder_model())) {
                    if let Some(r) = query(c, "to_generic_encoder_model", class, &input, "C05", || enc_rows::<_, usize, $P>(&g, &support)) {
                        same(c, "to_generic_encoder_model vs source model", &input, &rows, &r);
                    }
                }
                let qs = quantiles(&rows, $P);
                if let Some(g) = query(c, "to_generic_decoder_model", class, &input, "C05", || Ok(m.to_generic_decoder_model())) {
                    if query(c, "to_generic_decoder_model", class, &input, "C05", || check_dec::<_, usize, $P>(&g, &rows, &qs)).is_some() { c.sink.count("representation_comparisons", 1); }
                }
                uniform_case_impl!(@lookup $lookup, c, m, rows, qs, input, class, $P);
            }
        }
    };
    (@lookup true, $c:ident, $m:ident, $rows:ident, $qs:ident, $input:ident, $class:ident, $P:literal) => {
        if let Some(g) = query($c, "to_generic_lookup_decoder_model", $class, &$input, "C05", || Ok($m.to_generic_lookup_decoder_model())) {
            if query($c, "to_generic_lookup_decoder_model", $class, &$input, "C05", || check_dec::<_, usize, $P>(&g, &$rows, &$qs)).is_some() { $c.sink.count("representation_comparisons", 1); }
        }
    };
    (@lookup false, $c:ident, $m:ident, $rows:ident, $qs:ident, $input:ident, $class:ident, $P:literal) => {};
}
uniform_case_impl!(uniform_u8_3, u8, 3, true);
uniform_case_impl!(uniform_u8_8, u8, 8, true);
uniform_case_impl!(uniform_u16_12, u16, 12, true);
uniform_case_impl!(uniform_u16_16, u16, 16, true);
uniform_case_impl!(uniform_u32_24, u32, 24, false);
uniform_case_impl!(uniform_u32_32, u32, 32, false);
// (PRECISION == Probability::BITS == usize::BITS: 2^P does not fit the arithmetic's own integer type)
uniform_case_impl!(uniform_u64_64, u64, 64, false);
uniform_case_impl!(uniform_u64_40, u64, 40, false);
pub const UNIFORM_PARTS: [&str; 8] = ["u8/3", "u8/8", "u16/12", "u16/16", "u32/24", "u32/32", "u64/64", "u64/40"];

pub fn uniform_ranges(part: &str, thorough: bool) -> Vec<usize> {
    let f: Vec<&str> = part.split('/').collect();
    let p: u32 = f[2].parse().unwrap();
    let prb: u32 = match f[1] { "u8" => 8, "u16" => 16, "u64" => 64, _ => 32 };
    let mut v: Vec<usize> = vec![];
    let t = if p >= 64 { usize::MAX } else { 1usize << p };
    let small_all = if p <= 8 { t + 3 } else if thorough { 5000 } else { 600 };
    v.extend(0..=small_all.min(70000));
    for x in [t - 2, t - 1, t, t.saturating_add(1), t.saturating_add(2), t / 2, t / 2 + 1, t / 3, 65535, 65536, 65537] { if x <= 70000 || x >= t { v.push(x); } }
    // ranges congruent to small ones modulo 2^ProbabilityBits (aliasing candidates) and huge ones
    for k in [0usize, 1, 2, 3, 10] { if prb < 63 { v.push((1usize << prb) + k); } v.push((1usize << 32) + k); v.push((1usize << 33) + k); }
    v.push(usize::MAX);
    v.push(usize::MAX / 2);
    v.sort();
    v.dedup();
    v
}

/// `part` = "uniform/<Pr>/<P>/<q|t>"
pub fn uniform_part_run(part: &str, from: u64, to: u64, want: &str, sink: &mut ChildSink) {
    let f: Vec<&str> = part.split('/').collect();
    let key = format!("{}/{}", f[1], f[2]);
    let ranges = uniform_ranges(part, f[3] == "t");
    for i in from..to {
        sink.begin_case(i);
        let r = ranges[i as usize];
        let mut out = vec![];
        {
            let mut c = Case { out: &mut out, sink };
            match key.as_str() {
                "u8/3" => uniform_u8_3(r, &mut c), "u8/8" => uniform_u8_8(r, &mut c), "u16/12" => uniform_u16_12(r, &mut c),
                "u16/16" => uniform_u16_16(r, &mut c), "u32/24" => uniform_u32_24(r, &mut c), "u32/32" => uniform_u32_32(r, &mut c),
                "u64/64" => uniform_u64_64(r, &mut c), "u64/40" => uniform_u64_40(r, &mut c),
                other => panic!("HARNESS: unknown uniform part {other}"),
            }
        }
        sink.n += 1;
        for fd in out {
            if fd.props.split(',').any(|p| p == want) {
                sink.violation(&fd.identity, &fd.detail, i);
            }
        }
    }
}

/// C19: LeakyQuantizer::new over arbitrary (also empty / reversed / oversized) supports
macro_rules! qnew_case_impl {
    ($fname:ident, $Sym:ty, $Pr:ty, $P:literal) => {
        pub fn $fname(lo: i128, hi: i128, c: &mut Case) {
            if lo < <$Sym>::MIN as i128 || hi > <$Sym>::MAX as i128 || lo > <$Sym>::MAX as i128 || hi < <$Sym>::MIN as i128 { return; }
            let input = (lo, hi, stringify!($Sym), stringify!($Pr), $P);
            c.sink.count("quantizer_supports", 1);
            let size = hi - lo + 1;
            let acceptable = size >= 2 && size <= (1i128 << $P);
            let q = match guarded(|| LeakyQuantizer::<f64, $Sym, $Pr, $P>::new((lo as $Sym)..=(hi as $Sym))) {
                Outcome::Value(q) => q,
                Outcome::CleanPanic { .. } => {
                    c.sink.count("constructor_panicked_cleanly", 1);
                    if acceptable { c.sink.count("acceptable_supports_rejected", 1); }
                    return;
                }
                Outcome::OverflowPanic { msg, loc } => {
                    c.out.push(Finding { props: "C20", identity: format!("LeakyQuantizer::new | arithmetic overflow inside the library ({})", loc_file(&loc)), detail: format!("input {:?}: '{msg}' at {loc}", input) });
                    return;
                }
            };
            c.sink.count("models_built", 1);
            if !acceptable {
                c.out.push(Finding { props: "C19", identity: format!("LeakyQuantizer::new | support of a size outside 2..=2^P accepted ({})", if size > (1i128 << $P) { "too large" } else { "empty or single element" }), detail: format!("{:?}: size {size}", input) });
                if size > 70000 || size < 2 { return; }
            }
            if size > 70000 { return; }
            let d = Dist { fam: Fam::Gaussian, loc: (lo + hi) as f64 / 2.0, scale: (size as f64 / 4.0).max(0.5), hint: Hint::Exact };
            let m = q.quantize(d);
            let support: Vec<$Sym> = (lo..=hi).map(|x| x as $Sym).collect();
            let mut outside: Vec<$Sym> = vec![];
            for x in [lo - 1, hi + 1, <$Sym>::MIN as i128, <$Sym>::MAX as i128] { if (x < lo || x > hi) && x >= <$Sym>::MIN as i128 && x <= <$Sym>::MAX as i128 { outside.push(x as $Sym); } }
            let tags: &'static str = if acceptable { "C03,C19" } else { "C19" };
            query(c, "LeakyQuantizer::new", if acceptable { "support of 2..=2^P symbols" } else { "support of a size outside 2..=2^P" }, &input, tags, || valid::<_, $Sym, $P>(&m, &support, &outside));
        }
    };
}
qnew_case_impl!(qnew_i32_u16_12, i32, u16, 12);
qnew_case_impl!(qnew_i32_u8_8, i32, u8, 8);
qnew_case_impl!(qnew_i8_u32_24, i8, u32, 24);
qnew_case_impl!(qnew_i8_u8_4, i8, u8, 4);
qnew_case_impl!(qnew_u8_u8_8, u8, u8, 8);
qnew_case_impl!(qnew_u16_u8_8, u16, u8, 8);
qnew_case_impl!(qnew_i16_u16_16, i16, u16, 16);
qnew_case_impl!(qnew_u32_u16_16, u32, u16, 16);
qnew_case_impl!(qnew_i32_u32_32, i32, u32, 32);
pub const QNEW_PARTS: [&str; 9] = ["i32/u16/12", "i32/u8/8", "i8/u32/24", "i8/u8/4", "u8/u8/8", "u16/u8/8", "i16/u16/16", "u32/u16/16", "i32/u32/32"];

pub fn qnew_supports(part: &str) -> Vec<(i128, i128)> {
    let f: Vec<&str> = part.split('/').collect();
    let p: u32 = f[3].parse().unwrap();
    let prb: u32 = match f[2] { "u8" => 8, "u16" => 16, _ => 32 };
    let t = 1i128 << p;
    let mut v: Vec<(i128, i128)> = vec![];
    // every size 0..=2^P+2 for small P (anchored at 0 and at -3), boundary sizes otherwise
    let sizes: Vec<i128> = if p <= 8 { (0..=t + 2).collect() } else { vec![0, 1, 2, 3, t - 1, t, t + 1, t + 2, 200] };
    for s in sizes { v.push((0, s - 1)); v.push((-3, s - 4)); v.push((-100, s - 101)); }
    // sizes congruent to small ones modulo 2^ProbabilityBits, and modulo 2^32
    for k in [0i128, 1, 2, 3] { v.push((0, (1i128 << prb) + k - 1)); v.push((-5, (1i128 << prb) + k - 6)); v.push((0, (1i128 << 32) + k - 1)); }
    // reversed, extreme
    v.push((5, 3)); v.push((0, -1)); v.push((i32::MIN as i128, i32::MAX as i128)); v.push((-128, 127)); v.push((0, 255)); v.push((0, 65535)); v.push((-32768, 32767));
    v.push((i32::MAX as i128 - 1, i32::MAX as i128)); v.push((i32::MIN as i128, i32::MIN as i128 + 1)); v.push((0, u32::MAX as i128));
    v.sort();
    v.dedup();
    v
}

/// `part` = "qnew/<Sym>/<Pr>/<P>"
pub fn qnew_part_run(part: &str, from: u64, to: u64, want: &str, sink: &mut ChildSink) {
    let f: Vec<&str> = part.split('/').collect();
    let key = format!("{}/{}/{}", f[1], f[2], f[3]);
    let sup = qnew_supports(part);
    for i in from..to {
        sink.begin_case(i);
        let (lo, hi) = sup[i as usize];
        let mut out = vec![];
        {
            let mut c = Case { out: &mut out, sink };
            match key.as_str() {
                "i32/u16/12" => qnew_i32_u16_12(lo, hi, &mut c), "i32/u8/8" => qnew_i32_u8_8(lo, hi, &mut c), "i8/u32/24" => qnew_i8_u32_24(lo, hi, &mut c),
                "i8/u8/4" => qnew_i8_u8_4(lo, hi, &mut c), "u8/u8/8" => qnew_u8_u8_8(lo, hi, &mut c), "u16/u8/8" => qnew_u16_u8_8(lo, hi, &mut c),
                "i16/u16/16" => qnew_i16_u16_16(lo, hi, &mut c), "u32/u16/16" => qnew_u32_u16_16(lo, hi, &mut c), "i32/u32/32" => qnew_i32_u32_32(lo, hi, &mut c),
                other => panic!("HARNESS: unknown qnew part {other}"),
            }
        }
        sink.n += 1;
        for fd in out {
            if fd.props.split(',').any(|p| p == want) {
                sink.violation(&fd.identity, &fd.detail, i);
            }
        }
    }
}
