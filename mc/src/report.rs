//! Evidence, violations, known findings, replay files.
//!
//! Exit-code contract of every check (see DESIGN.md §2):
//!   0  property held on everything explored (possibly with KNOWN-FINDING lines)
//!   1  at least one violation that `known_findings.json` does not list (VIOLATION line printed)
//!   2  machinery failure (never a verdict)

use serde_json::{json, Map, Value};
use std::collections::BTreeMap;
use std::path::PathBuf;
use std::sync::Mutex;
use std::time::Instant;

#[derive(Clone, Copy, Debug, PartialEq, Eq)]
pub enum Tier {
    Quick,
    Thorough,
}

impl Tier {
    pub fn name(self) -> &'static str {
        match self {
            Tier::Quick => "quick",
            Tier::Thorough => "thorough",
        }
    }
    pub fn pick<T>(self, quick: T, thorough: T) -> T {
        match self {
            Tier::Quick => quick,
            Tier::Thorough => thorough,
        }
    }
}

/// One property violation, as found by an explorer.
#[derive(Clone, Debug)]
pub struct Violation {
    /// Identity used for matching against `known_findings.json`: `call site | input class`.
    /// Must be *specific*: a different way of breaking the same property gets a different identity.
    pub identity: String,
    /// Human readable one-liner (expected vs observed).
    pub detail: String,
    /// Self-contained replay case: `{"kind": <replay kind of the property module>, ...}`.
    pub case: Value,
}

pub fn verif_dir() -> PathBuf {
    if let Ok(d) = std::env::var("VERIF_DIR") {
        return PathBuf::from(d);
    }
    // binary lives in <verif>/mc/target/release/cvmc
    let exe = std::env::current_exe().expect("current_exe");
    let mut p = exe.as_path();
    for _ in 0..4 {
        p = p.parent().expect("exe path too short");
    }
    p.to_path_buf()
}

pub struct Report {
    pub id: &'static str,
    pub tier: Tier,
    pub seed: i64,
    start: Instant,
    inner: Mutex<Inner>,
}

#[derive(Default)]
struct Inner {
    states: u64,
    transitions: u64,
    traces: u64,
    counters: BTreeMap<String, u64>,
    samples: Vec<Value>,
    sections: Vec<Value>,
    /// identity -> (count, first violation)
    violations: BTreeMap<String, (u64, Violation)>,
    exhaustive: bool,
    caps: Vec<String>,
    assumptions: Vec<String>,
    bounds: Vec<String>,
    /// names of event counters that must be non-zero (vacuity guard)
    required: Vec<String>,
}

impl Report {
    pub fn new(id: &'static str, tier: Tier) -> Self {
        let seed = std::env::var("VERIF_SEED")
            .ok()
            .and_then(|s| s.parse().ok())
            .unwrap_or(0);
        let mut inner = Inner::default();
        inner.exhaustive = true;
        Report {
            id,
            tier,
            seed,
            start: Instant::now(),
            inner: Mutex::new(inner),
        }
    }

    pub fn add_states(&self, n: u64) {
        self.inner.lock().unwrap().states += n;
    }
    pub fn add_transitions(&self, n: u64) {
        self.inner.lock().unwrap().transitions += n;
    }
    pub fn add_traces(&self, n: u64) {
        self.inner.lock().unwrap().traces += n;
    }
    pub fn count(&self, name: &str, n: u64) {
        *self
            .inner
            .lock()
            .unwrap()
            .counters
            .entry(name.to_string())
            .or_insert(0) += n;
    }
    pub fn counter(&self, name: &str) -> u64 {
        self.inner
            .lock()
            .unwrap()
            .counters
            .get(name)
            .copied()
            .unwrap_or(0)
    }
    /// Declare that the named event counter must be > 0 at the end of the run (otherwise the
    /// run is vacuous with respect to its own mechanism and exits 2).
    pub fn require(&self, name: &str) {
        self.inner.lock().unwrap().required.push(name.to_string());
    }
    pub fn sample(&self, v: Value) {
        let mut g = self.inner.lock().unwrap();
        if g.samples.len() < 12 {
            g.samples.push(v);
        }
    }
    /// Per-configuration sub-result (type instantiation, alphabet, depth, counts).
    pub fn section(&self, v: Value) {
        self.inner.lock().unwrap().sections.push(v);
    }
    pub fn cap_hit(&self, what: impl Into<String>) {
        let mut g = self.inner.lock().unwrap();
        g.exhaustive = false;
        g.caps.push(what.into());
    }
    pub fn assume(&self, what: impl Into<String>) {
        self.inner.lock().unwrap().assumptions.push(what.into());
    }
    pub fn bound(&self, what: impl Into<String>) {
        self.inner.lock().unwrap().bounds.push(what.into());
    }
    pub fn violation(&self, v: Violation) {
        self.violation_n(v, 1);
    }
    pub fn violation_n(&self, v: Violation, n: u64) {
        let mut g = self.inner.lock().unwrap();
        let e = g.violations.entry(v.identity.clone()).or_insert((0, v));
        e.0 += n;
    }
    /// like `violation`, but reports a poisoned lock instead of panicking (used after an explorer panic)
    pub fn try_violation(&self, v: Violation) -> Result<(), ()> {
        if self.inner.is_poisoned() { return Err(()); }
        self.violation(v);
        Ok(())
    }
    pub fn violation_count(&self) -> u64 {
        self.inner
            .lock()
            .unwrap()
            .violations
            .values()
            .map(|v| v.0)
            .sum()
    }
    pub fn elapsed(&self) -> f64 {
        self.start.elapsed().as_secs_f64()
    }

    /// Writes evidence + replay files, prints VIOLATION / KNOWN-FINDING lines, returns exit code.
    pub fn finish(self) -> i32 {
        let dir = verif_dir();
        let known = load_known(&dir, self.id);
        let g = self.inner.into_inner().unwrap();
        let mut exit = 0;
        let mut n_known = 0u64;
        let mut n_new = 0u64;
        let mut viol_json = vec![];
        std::fs::create_dir_all(dir.join("replays")).ok();
        for (identity, (count, v)) in &g.violations {
            let listed = known.iter().find(|k| identity_matches(k, identity));
            let mut case = v.case.clone();
            if let Value::Object(m) = &mut case {
                m.insert("property".into(), json!(self.id));
                m.insert("identity".into(), json!(identity));
                m.insert("detail".into(), json!(v.detail));
            }
            let fname = format!("{}-{:016x}.json", self.id, fnv(identity.as_bytes()));
            let path = dir.join("replays").join(&fname);
            std::fs::write(&path, serde_json::to_string_pretty(&case).unwrap()).ok();
            if let Some(k) = listed {
                n_known += count;
                println!(
                    "KNOWN-FINDING: property={} {} [{} case(s) this run; first: {}]",
                    self.id, k, count, v.detail
                );
            } else {
                n_new += count;
                exit = 1;
                println!("VIOLATION property={} replay={}", self.id, path.display());
                println!("  identity: {identity}\n  cases: {count}\n  first: {}", v.detail);
            }
            viol_json.push(json!({"identity": identity, "cases": count, "first": v.detail,
                "known_finding": listed.is_some(), "replay": format!("replays/{fname}")}));
        }
        let mut vacuous = vec![];
        for r in &g.required {
            if g.counters.get(r).copied().unwrap_or(0) == 0 {
                vacuous.push(r.clone());
            }
        }
        let mut coverage = Map::new();
        coverage.insert("states".into(), json!(g.states.max(1)));
        coverage.insert("transitions".into(), json!(g.transitions.max(1)));
        coverage.insert("traces_validated_against_impl".into(), json!(g.traces));
        coverage.insert(
            "samples".into(),
            if g.samples.is_empty() {
                json!(["(no sample recorded)"])
            } else {
                Value::Array(g.samples.clone())
            },
        );
        coverage.insert("exhaustive".into(), json!(g.exhaustive));
        coverage.insert("caps_hit".into(), json!(g.caps));
        coverage.insert("bounds".into(), json!(g.bounds));
        coverage.insert("event_counters".into(), json!(g.counters));
        coverage.insert("configurations".into(), Value::Array(g.sections.clone()));
        coverage.insert("violation_classes".into(), Value::Array(viol_json));
        coverage.insert("known_finding_cases".into(), json!(n_known));
        coverage.insert(
            "explanation".into(),
            json!("every transition is a call of the real constriction method on a real object; \
                   states = distinct/visited implementation states, transitions = real method calls, \
                   traces_validated_against_impl = complete histories/cases executed on the \
                   implementation and compared with the reference model (all of them)"),
        );
        let ev = json!({
            "property_id": self.id,
            "tier": self.tier.name(),
            "seed": self.seed,
            "level": "model_checking",
            "coverage": Value::Object(coverage),
            "assumptions": g.assumptions,
            "wall_s": (self.start.elapsed().as_secs_f64() * 1000.0).round() / 1000.0,
            "violations": n_new as i64,
        });
        std::fs::create_dir_all(dir.join("evidence")).ok();
        let evpath = dir.join("evidence").join(format!("{}.json", self.id));
        if let Err(e) = std::fs::write(&evpath, serde_json::to_string_pretty(&ev).unwrap() + "\n") {
            eprintln!("MACHINERY: cannot write evidence {}: {e}", evpath.display());
            return 2;
        }
        println!(
            "{} {}: states={} transitions={} traces={} violations(new)={} known={} exhaustive={} wall={:.1}s",
            self.id,
            self.tier.name(),
            g.states,
            g.transitions,
            g.traces,
            n_new,
            n_known,
            g.exhaustive,
            self.start.elapsed().as_secs_f64()
        );
        if exit == 0 && !vacuous.is_empty() {
            eprintln!(
                "MACHINERY: vacuous run, required event counters are zero: {:?}",
                vacuous
            );
            return 2;
        }
        exit
    }
}

pub fn fnv(b: &[u8]) -> u64 {
    let mut h = 0xcbf29ce484222325u64;
    for &x in b {
        h ^= x as u64;
        h = h.wrapping_mul(0x100000001b3);
    }
    h
}

/// Known findings for a property: the `identity` strings listed in `known_findings.json`
/// under `"findings"`. Entries under `"fixed"` suppress nothing.
fn load_known(dir: &std::path::Path, id: &str) -> Vec<String> {
    let p = dir.join("known_findings.json");
    let Ok(s) = std::fs::read_to_string(&p) else {
        return vec![];
    };
    let Ok(v) = serde_json::from_str::<Value>(&s) else {
        eprintln!("MACHINERY: known_findings.json does not parse");
        std::process::exit(2);
    };
    let mut out = vec![];
    if let Some(a) = v.get("findings").and_then(|f| f.as_array()) {
        for f in a {
            if f.get("property").and_then(|p| p.as_str()) == Some(id) {
                if let Some(i) = f.get("identity").and_then(|i| i.as_str()) {
                    out.push(i.to_string());
                }
            }
        }
    }
    out
}

fn identity_matches(known: &str, identity: &str) -> bool {
    known == identity
}

/// Small helper to render words as hex strings in samples / replays.
pub fn hex<T: std::fmt::LowerHex>(v: &[T]) -> Vec<String> {
    v.iter().map(|w| format!("{:x}", w)).collect()
}
