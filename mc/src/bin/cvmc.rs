//! cvmc check <ID> [--tier quick|thorough]   |   cvmc replay <file.json>   |   cvmc child ...
use cvmc::report::Tier;

fn main() {
    let args: Vec<String> = std::env::args().collect();
    if args.len() < 2 {
        eprintln!("usage: cvmc check <ID> [--tier quick|thorough] | cvmc replay <file> | cvmc child <ID> <args..>");
        std::process::exit(2);
    }
    match args[1].as_str() {
        "check" => {
            let id = args.get(2).map(|s| s.as_str()).unwrap_or("");
            let mut tier = match std::env::var("VERIF_TIER").as_deref() {
                Ok("thorough") => Tier::Thorough,
                _ => Tier::Quick,
            };
            let mut i = 3;
            while i < args.len() {
                match args[i].as_str() {
                    "--tier" => {
                        tier = match args.get(i + 1).map(|s| s.as_str()) {
                            Some("quick") => Tier::Quick,
                            Some("thorough") => Tier::Thorough,
                            other => { eprintln!("bad tier {other:?}"); std::process::exit(2) }
                        };
                        i += 2;
                    }
                    "quick" => { tier = Tier::Quick; i += 1; }
                    "thorough" => { tier = Tier::Thorough; i += 1; }
                    other => { eprintln!("unknown argument {other}"); std::process::exit(2) }
                }
            }
            // A panic inside an explorer is a machinery failure, never a verdict.
            let r = std::panic::catch_unwind(|| cvmc::props::run(id, tier));
            match r {
                Ok(Some(code)) => std::process::exit(code),
                Ok(None) => { eprintln!("unknown property id {id:?}"); std::process::exit(2) }
                Err(_) => { eprintln!("MACHINERY: explorer for {id} panicked (see message above); no verdict"); std::process::exit(2) }
            }
        }
        "replay" => {
            let path = args.get(2).expect("replay file");
            let s = std::fs::read_to_string(path).unwrap_or_else(|e| { eprintln!("cannot read {path}: {e}"); std::process::exit(2) });
            let case: serde_json::Value = serde_json::from_str(&s).unwrap_or_else(|e| { eprintln!("bad json: {e}"); std::process::exit(2) });
            // run twice: the two observations must be identical (determinism of the harness)
            let a = cvmc::props::replay(&case);
            let b = cvmc::props::replay(&case);
            if a != b {
                eprintln!("MACHINERY: replay is not deterministic:\n{a:?}\n{b:?}");
                std::process::exit(2);
            }
            match a {
                Ok(msg) => { println!("REPLAY OK (property holds on this case): {msg}"); std::process::exit(0) }
                Err(msg) => { println!("REPLAY VIOLATION property={} :\n{msg}", case["property"].as_str().unwrap_or("?")); std::process::exit(1) }
            }
        }
        "child" => {
            let code = cvmc::props::child(&args[2..]);
            std::process::exit(code);
        }
        other => { eprintln!("unknown command {other}"); std::process::exit(2) }
    }
}
