//! cvmc check <ID> [--tier quick|thorough]   |   cvmc replay <file.json>   |   cvmc child ...
use cvmc::report::Tier;

/// Runs the explorer in a child process (same binary, CVMC_INNER=1) so that a process ABORT inside the
/// library (std's unsafe-precondition checks, a non-unwinding panic, a wild access) is observed and judged
/// instead of taking the check down with it: such an abort on an input the property covers is a violation
/// of the property being explored. Anything the supervisor cannot attribute to the library (allocation
/// failure, stack overflow, external kill) stays a machinery failure (exit 2).
fn supervise(id: &str, tier: Tier) -> i32 {
    use std::io::{BufRead, BufReader};
    use std::process::{Command, Stdio};
    let Some(idn) = cvmc::props::ALL.iter().find(|x| **x == id) else { eprintln!("unknown property id {id:?}"); return 2 };
    let exe = std::env::current_exe().expect("current exe");
    let mut child = match Command::new(exe).args(["check", id, "--tier", tier.name()]).env("CVMC_INNER", "1").stderr(Stdio::piped()).spawn() {
        Ok(c) => c,
        Err(e) => { eprintln!("MACHINERY: cannot start the explorer process: {e}"); return 2 }
    };
    let err = child.stderr.take().unwrap();
    let tail = std::thread::spawn(move || {
        let mut tail: std::collections::VecDeque<String> = Default::default();
        for line in BufReader::new(err).lines().map_while(Result::ok) {
            eprintln!("{line}");
            if tail.len() >= 40 { tail.pop_front(); }
            tail.push_back(line);
        }
        tail
    });
    let status = child.wait();
    let tail: Vec<String> = tail.join().map(|t| t.into_iter().collect()).unwrap_or_default();
    let status = match status { Ok(s) => s, Err(e) => { eprintln!("MACHINERY: waiting for the explorer failed: {e}"); return 2 } };
    if let Some(code) = status.code() {
        return code;
    }
    // killed by a signal
    use std::os::unix::process::ExitStatusExt;
    let sig = status.signal().unwrap_or(0);
    let text = tail.join("\n");
    let ub = text.contains("unsafe precondition(s) violated");
    let nounwind = text.contains("panic in a function that cannot unwind") || text.contains("non-unwinding panic");
    let lib_loc = tail.iter().rev().find_map(|l| l.find("/src/").filter(|_| !l.contains("/verif/mc/") && !l.contains("/rustc/") && !l.contains("/.cargo/")).map(|i| {
        let rest = &l[i + 1..];
        rest.split_whitespace().next().unwrap_or(rest).trim_end_matches(|c: char| c == ',' || c == ')').to_string()
    }));
    let machinery = text.contains("memory allocation of") || text.contains("has overflowed its stack") || sig == 9 || sig == 15;
    if machinery || !(ub || nounwind || sig == 11 || sig == 4 || sig == 7 || sig == 6) || (sig == 6 && !(ub || nounwind)) {
        eprintln!("MACHINERY: explorer for {id} was terminated by signal {sig} and the cause cannot be attributed to the library; no verdict");
        return 2;
    }
    let what = if ub { "std unsafe-precondition check failed" } else if nounwind { "non-unwinding panic" } else { "fatal signal" };
    let r = cvmc::report::Report::new(idn, tier);
    r.violation(cvmc::report::Violation {
        identity: format!("process abort inside constriction on an input the property covers | {} | {what}", lib_loc.clone().unwrap_or_else(|| "location unknown".into())),
        detail: format!("the explorer process for {id} died on signal {sig}; last messages: {}", tail.iter().rev().take(6).rev().cloned().collect::<Vec<_>>().join(" / ")),
        case: serde_json::json!({"kind": "none"}),
    });
    r.cap_hit(format!("exploration stopped by a process abort (signal {sig})"));
    r.bound("the exploration did not complete: the explorer process aborted; nothing beyond the violation is claimed");
    r.finish()
}

fn main() {
    let args: Vec<String> = std::env::args().collect();
    if args.len() < 2 {
        eprintln!("usage: cvmc check <ID> [--tier quick|thorough] | cvmc replay <file> | cvmc child <ID> <args..>");
        std::process::exit(2);
    }
    match args[1].as_str() {
        "check" => {
            let id = args.get(2).map(|s| s.as_str()).unwrap_or("");
            let mut tier = match std::env::var("VERIF_TIER").as_deref() {
                Ok("thorough") => Tier::Thorough,
                _ => Tier::Quick,
            };
            let mut i = 3;
            while i < args.len() {
                match args[i].as_str() {
                    "--tier" => {
                        tier = match args.get(i + 1).map(|s| s.as_str()) {
                            Some("quick") => Tier::Quick,
                            Some("thorough") => Tier::Thorough,
                            other => { eprintln!("bad tier {other:?}"); std::process::exit(2) }
                        };
                        i += 2;
                    }
                    "quick" => { tier = Tier::Quick; i += 1; }
                    "thorough" => { tier = Tier::Thorough; i += 1; }
                    other => { eprintln!("unknown argument {other}"); std::process::exit(2) }
                }
            }
            if std::env::var("CVMC_INNER").is_err() {
                std::process::exit(supervise(id, tier));
            }
            // A panic inside an explorer that is raised by harness code is a machinery failure, never a
            // verdict; one raised inside constriction is judged by props::run (run_guarded).
            let r = std::panic::catch_unwind(|| cvmc::props::run(id, tier));
            match r {
                Ok(Some(code)) => std::process::exit(code),
                Ok(None) => { eprintln!("unknown property id {id:?}"); std::process::exit(2) }
                Err(_) => { eprintln!("MACHINERY: explorer for {id} panicked (see message above); no verdict"); std::process::exit(2) }
            }
        }
        "replay" => {
            let path = args.get(2).expect("replay file");
            let s = std::fs::read_to_string(path).unwrap_or_else(|e| { eprintln!("cannot read {path}: {e}"); std::process::exit(2) });
            let case: serde_json::Value = serde_json::from_str(&s).unwrap_or_else(|e| { eprintln!("bad json: {e}"); std::process::exit(2) });
            // run twice: the two observations must be identical (determinism of the harness)
            let a = cvmc::props::replay(&case);
            let b = cvmc::props::replay(&case);
            if a != b {
                eprintln!("MACHINERY: replay is not deterministic:\n{a:?}\n{b:?}");
                std::process::exit(2);
            }
            match a {
                Ok(msg) => { println!("REPLAY OK (property holds on this case): {msg}"); std::process::exit(0) }
                Err(msg) => { println!("REPLAY VIOLATION property={} :\n{msg}", case["property"].as_str().unwrap_or("?")); std::process::exit(1) }
            }
        }
        "child" => {
            let code = cvmc::props::child(&args[2..]);
            std::process::exit(code);
        }
        other => { eprintln!("unknown command {other}"); std::process::exit(2) }
    }
}
