#!/bin/bash
# tools/coverage.sh <scratch-verif-copy> <outdir>  — NOT a registered check. Measures which lines of constriction the quick
# tier executes: builds the harness with -C instrument-coverage (nightly; llvm-tools of that toolchain), runs every quick
# check with one profile per process (the isolated children write their own), merges them and prints llvm-cov's report.
# Takes 1-2 h (instrumented code is 5-10x slower). Use a scratch copy (tools/mq_sync.sh), never /verif itself.
V="$1"; O="${2:-/tmp/cov}"; mkdir -p "$O"
B=$(dirname "$(rustup which --toolchain nightly rustc)")/../lib/rustlib/x86_64-unknown-linux-gnu/bin
cd "$V/mc" || exit 2
RUSTFLAGS="-C instrument-coverage" CARGO_TARGET_DIR="$O/target" CARGO_NET_OFFLINE=true cargo +nightly build --release --offline > "$O/build.log" 2>&1 || { tail -5 "$O/build.log"; exit 2; }
export VERIF_DIR="$V"; cd "$V"
for i in $(seq -w 1 20); do
  LLVM_PROFILE_FILE="$O/C$i-%p-%8m.profraw" "$O/target/release/cvmc" check C$i --tier quick > "$O/C$i.log" 2>&1; echo "C$i exit=$?"
  "$B/llvm-profdata" merge -sparse "$O"/*.profraw $( [ -f "$O/all.profdata" ] && echo "$O/all.profdata" ) -o "$O/all.tmp" && mv "$O/all.tmp" "$O/all.profdata" && rm -f "$O"/*.profraw
done
"$B/llvm-cov" report "$O/target/release/cvmc" -instr-profile="$O/all.profdata" --ignore-filename-regex='(\.cargo|rustc|verif/mc|library/)'
