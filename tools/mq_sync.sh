#!/bin/bash
# Scratch triage copy of the harness (never used for registered checks or evidence): /tmp/mq/verif builds against /tmp/mq/repo.
mkdir -p /tmp/mq/verif
rsync -a --delete --exclude mc/target --exclude .git --exclude replays --exclude evidence /verif/ /tmp/mq/verif/
mkdir -p /tmp/mq/verif/evidence /tmp/mq/verif/replays
sed -i 's|path = "/repo"|path = "/tmp/mq/repo"|' /tmp/mq/verif/mc/Cargo.toml
