#!/bin/bash
# (pyfront/target is NOT copied: cargo gives /repo and a scratch worktree the same package hash and judges freshness by mtime, so a
# copied target built from a patched /repo would be taken for an up-to-date build of the scratch tree.)
# Scratch triage copy of the harness (never used for registered checks or evidence): ${MQ:-/tmp/mq}/verif builds against ${MQ:-/tmp/mq}/repo.
mkdir -p ${MQ:-/tmp/mq}/verif
rsync -a --delete --exclude mc/target --exclude pyfront/target --exclude pyfront/pkg --exclude .git --exclude replays --exclude evidence /verif/ ${MQ:-/tmp/mq}/verif/
mkdir -p ${MQ:-/tmp/mq}/verif/evidence ${MQ:-/tmp/mq}/verif/replays
sed -i 's|path = "/repo"|path = "'"${MQ:-/tmp/mq}"'/repo"|' ${MQ:-/tmp/mq}/verif/mc/Cargo.toml
