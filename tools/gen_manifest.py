#!/usr/bin/env python3
"""Generates /verif/MANIFEST.json from the table below and validates it against the schema.
Edit CLAIMED / TEXT here, never MANIFEST.json by hand."""
import json, os, sys

HERE = os.path.dirname(os.path.dirname(os.path.abspath(__file__)))

# property id -> (technique, level text, level note, design ref)
TEXT = {
 "C01": ("exhaustive history DFS + all-states single-step sweep of the real AnsCoder vs a Vec reference stack",
         "Every operation history over {encode(letter), decode(matching model)} up to the stated depth, from the empty coder and from imported word strings, is executed on the real AnsCoder for (u8,u16),(u8,u32) (deep) and the rest of the type matrix (shallower); plus a single-step induction over ALL 2^16 head values of AnsCoder<u8,u16>. A bounded-exhaustive coverage statement for the listed instantiations, which is the right level for an arithmetic state machine whose rare events (flush/refill thresholds) become frequent at 8-bit words.",
         "Trusted: rustc, the harness' Vec reference stack; width-parametric source assumed to behave alike at wider types beyond the explored depth.", "§3 C01"),
 "C02": ("exhaustive symbol-sequence DFS on the real RangeEncoder/RangeDecoder, every node sealed and decoded",
         "All symbol sequences over mixed-precision alphabets up to the stated depth on 8-bit words with 16/32/64-bit state (where carries and inverted situations occur within depth 6) and shallower on the wide types; at every node the stream is sealed and fully decoded, clear() is compared with new(). Event counters prove inverted situations, both carry resolutions and two-word seals were explored.",
         "Trusted: rustc; Raw/Part hand-made models present the coder with arbitrary well-formed (cumulative, probability) pairs.", "§3 C02"),
}

CLAIMED = []  # filled below as modules land

NOT_YET = "check for this property is not built yet in this revision of /verif (work in progress); it will be decided by bounded exhaustive exploration as described in DESIGN.md"

def main():
    claimed = [l.strip() for l in open(os.path.join(HERE, "tools", "claimed.txt")) if l.strip() and not l.startswith("#")]
    props = [json.loads(l) for l in open(os.path.join(HERE, "properties.jsonl"))]
    checks, na = [], []
    for p in props:
        pid = p["id"]
        if pid in claimed:
            tech, text, note, ref = TEXT[pid]
            checks.append({
                "property_id": pid,
                "quick_cmd": f"./check {pid} quick",
                "thorough_cmd": f"./check {pid} thorough",
                "evidence_file": f"evidence/{pid}.json",
                "replay_cmd_template": "./check replay {path}",
                "engine": "cvmc",
                "level_claimed": {"category": "model_checking", "text": text, "design_ref": ref},
                "level_note": note,
                "technique": tech,
            })
        else:
            na.append({"property_id": pid, "reason": NOT_YET})
    hooks_commits = [l.strip() for l in open(os.path.join(HERE, "tools", "hook_commits.txt")) if l.strip()] if os.path.exists(os.path.join(HERE, "tools", "hook_commits.txt")) else []
    m = {
        "version": 1,
        "setup_cmd": "./check build",
        "hooks": {
            "guard": "constriction_verif",
            "enable": "RUSTFLAGS='--cfg constriction_verif' (set by ./check for the harness build; with no hook commits present the flag changes nothing)",
            "baseline_off_cmd": "cd /repo && cargo nextest run --workspace --no-fail-fast --tool-config-file pb:/w/lib/nextest.toml --profile pb --test-threads 8 --offline || cargo test --workspace --no-fail-fast --offline",
            "source_commits": hooks_commits,
            "add_only": True,
        },
        "engines": [{
            "name": "cvmc",
            "path": "mc/",
            "serves_properties": claimed,
            "kind_free_text": "own Rust explorer: stateless DFS over operation histories / explicit-state BFS with canonical keys / exhaustive sweeps of small state and input types, every transition a call of the real constriction method, stepped against reference models; child-process isolation for aborting cases",
        }],
        "checks": checks,
        "not_applicable": na,
        "notes": "See DESIGN.md. known_findings.json lists findings (none open) and repaired defects (fix: commits in /repo).",
    }
    out = os.path.join(HERE, "MANIFEST.json")
    json.dump(m, open(out, "w"), indent=1)
    try:
        import jsonschema
        jsonschema.validate(m, json.load(open("/root/.vp/MANIFEST.schema.json")))
        print("MANIFEST.json valid;", len(checks), "checks,", len(na), "not_applicable")
    except ImportError:
        print("jsonschema not available; wrote without validation")

if __name__ == "__main__":
    main()
