#!/usr/bin/env python3
"""Generates /verif/MANIFEST.json from the table below and validates it against the schema.
Edit CLAIMED / TEXT here, never MANIFEST.json by hand."""
import json, os, sys

HERE = os.path.dirname(os.path.dirname(os.path.abspath(__file__)))

# property id -> (technique, level text, level note, design ref)
TRUST = "Trusted: rustc + std, the harness' reference models (kept boring: Vec, u128 arithmetic, textbook formulas), the hand-made Raw/Part models (a coder only ever sees (left cumulative, probability), so they present every well-formed model at the listed precisions). Coverage is exhaustive for the instantiations, alphabets and depths named in the evidence and nothing beyond; wider types are explored shallower and rely on the source being width-parametric."

TEXT = {
 "C01": ("exhaustive history DFS + all-states single-step sweep of the real AnsCoder vs a Vec reference stack; boundary-head single-step sweep on the wider instantiations; inspection invariance and refused-write histories at/along every node",
         "Every operation history over {encode(letter), decode(matching model)} up to the stated depth, from the empty coder and from 50+ imported word strings, executed on the real AnsCoder for the whole (Word,State) matrix (deep on 8-bit words); re-import, clone and batch/reverse/fallible forms compared at every node; plus a single-step induction (decode(encode(s)) = s and encode(decode(s)) = s) over ALL 2^16 head values of AnsCoder<u8,u16>. Bounded-exhaustive coverage is the right level for an arithmetic state machine whose rare events (flush/refill thresholds) become frequent at 8-bit words. The single-step induction also runs from boundary head values (range ends, powers of two, refill and flush thresholds) on the six wider instantiations. At every node a temporary view / iterator that is dropped must leave the coder as it was; histories in which a bounded or failing backend refuses an encode must still pop in order.", TRUST, "§3 C01"),
 "C02": ("exhaustive symbol-sequence DFS on the real RangeEncoder/RangeDecoder, every node sealed and decoded; single-step synchronisation induction of encoder and decoder from arbitrary raw states",
         "All symbol sequences over mixed-precision alphabets up to the stated depth on 8-bit words with 16/32/64-bit state (where carries and inverted situations occur within depth 6) and shallower on wide types; at every node the stream is sealed and fully decoded through two decoder constructions, clear() is compared with new(). Event counters prove inverted situations, both carry resolutions and two-word seals were explored; a run without them exits 2. Single-step induction from raw states built with from_raw_parts (every lower x boundary ranges on (u8,u16), boundary x boundary on six wider instantiations) x all letters x points all over the interval: the encoder's next state is the textbook step, the decoder decodes the part containing its point, reports InvalidData exactly in the unusable top slice, and lands in the encoder's next state. An encoder inspected between symbols must continue like the uninspected one.", TRUST, "§3 C02"),
 "C03": ("exhaustive input sweep in isolated child processes: every float / fixed-point table, quantised distribution and uniform range of the stated spaces; validity + exact-invertibility oracle over all quantiles; long tables at tiny precisions; converted lookup models",
         "Every float table of length <= 3 (thorough 4) over 18 boundary floats (denormals, tails below resolution, 2^24/2^53, 1e+-300) as f32 and f64 at 12 (Probability,PRECISION) configurations through the fast, lazy, perfect, lookup and non-contiguous constructors; all u8 fixed-point tables of length <= 2 (3) at 5 precisions; 6 distribution families x 13 locations x 9 scales x 4 inverse hints x supports on 9 (Symbol,Probability,PRECISION) configurations; uniform ranges. Oracle: consecutive non-empty intervals tiling [0,2^P), nothing outside the support, no probability one, and quantile_function == left_cumulative_and_probability on ALL quantiles for P <= 12 (boundary quantiles + stride above). Aborts and hangs of a case are caught by process isolation with a watchdog and judged. Long float tables (more symbols than 2^PRECISION) at P = 2, 3, 4; lookup models obtained by conversion are judged as well.", TRUST + " Float parameter space is a grid (the quantile and symbol dimensions are exhaustive); the probability crate's cdf/inverse are black boxes.", "§3 C03"),
 "C05": ("exhaustive input sweep (same spaces as C03); every representation reachable from a model tabulated and compared row by row; eager/lazy cross coding",
         "For every model of the C03 sweep: direct queries vs symbol_table vs as_view vs to_generic_encoder/decoder/lookup_decoder_model vs to_lookup_decoder_model vs as_contiguous_categorical; eager vs lazy with the same-named constructor; lookup vs searched; contiguous vs non-contiguous with identity relabelling; encoder hash table vs decoder table.", TRUST, "§3 C05"),
 "C04": ("exhaustive input sweep: all word strings x all model sequences on the real AnsCoder, both raw-binary accessors; borrowing view followed by the consuming export on the same coder",
         "Every u8 word string of length <= 2 (thorough: 3) and longer strings over boundary words, for 7 (Word,State) instantiations; from_binary, decode with every model sequence over 15 models up to length 3-4, re-encode in reverse, compare into_binary AND get_binary AND num_valid_bits AND the raw coder state with the original.", TRUST, "§3 C04"),
 "C06": ("differential exhaustive walk: real coders vs independent textbook rANS / carry-propagating range coder at every node; documentation vectors; reading direction (reference words loaded back); the Python front end built from the same tree replayed against the Rust front end on an exhaustive set of small messages + the repository's documentation examples",
         "At every node of the ANS history walk and the range-coder sequence walk the words the implementation would export equal those of an independent reference written from the published algorithms and notes/range-coding.md; 14 byte-exact vectors from README/lib.rs/stream docs/test_docexamples.py are replayed. The reference's words are loaded back with from_compressed and must give the writer's state. Python front end (pyo3 bindings built from the working tree by the check driver): every message up to length 4 (thorough 6) over 15 models x {ANS, range coder} must give identical words in both front ends and decode back; all 129 test functions of tests/python/test_docexamples*.py / test_lazy_*.py are executed. If the bindings cannot be built this part is listed under caps_hit as not covered.", TRUST + "", "§3 C06"),
 "C07": ("exhaustive snapshot/seek-pair enumeration over 5 decoder kinds per coder on every message of the walk",
         "For every message up to the stated depth: pos() at every symbol boundary (also while words are held back), all ordered seek pairs with a decode in between, decode to the end/bottom, over owned/borrowed/consuming/reversed/temporary decoders; positions beyond the data must be refused and leave the decoder usable.", TRUST, "§3 C07"),
 "C08": ("twin execution at every node of the walks + explicit-state BFS of the bit-level coders",
         "8 inspection operations x {once, twice} on a clone at every node of the range and ANS walks (incl. inverted situation, empty coder, raw-binary loads, states with interior zero words); view == what finishing would return, full raw state unchanged, continued encoding identical to the untouched twin. Bit coders: observational oracle inside the C16 BFS.", TRUST, "§3 C08"),
 "C09": ("exhaustive insertion of impossible symbols at every position of every short history on 4 coder families; fault enumeration over every sink capacity and every failing call index; bounded reversed cursor; repeated refusals",
         "(A) 9 model types x dense out-of-support candidates incl. s + k*2^ProbabilityBits and s + k*2^32; (B) all histories of length <= 5 (thorough 7) over 4 symbols x every insertion position x 7-8 impossible symbols on AnsCoder, RangeEncoder, ChainCoder and the bit coders with a Huffman codebook: ImpossibleSymbol, complete coder state unchanged, continued history round-trips; (C) ANS coder over a bounded Cursor sink of EVERY capacity 0..=needed+1 and over a callback sink failing at EVERY call index: backend error, coder bit-identical, earlier symbols decode, encoding continues after room is made, a failing get_compressed leaves the coder intact. The fault enumeration also runs on a bounded Reverse<Cursor> and repeats the refused write before room is made. Model queries that panic on an out-of-support symbol are violations.", TRUST, "§3 C09"),
 "C10": ("exhaustive input sweep in isolated child processes: all short word strings x 100 model programs x 7 stream decoders + chain coder; outcome classification; a lookup model obtained by conversion at PRECISION == Probability::BITS among the decoder models",
         "Every u8 string of length <= 2 (thorough 3) plus truncations/extensions of valid streams x all ordered pairs of 10 decoder models (lookup, lazily quantised, quantised Gaussian, uniform, hand-made partitions; precision changing between symbols) alternating over 6 symbols, on AnsCoder (from_binary / from_compressed), RangeDecoder and ChainCoder at 2-3 state widths; u16 strings over boundary words. No panic/abort/hang, only the documented errors, every symbol inside the support. Process isolation turns aborts and hangs into judged outcomes.", TRUST, "§3 C10"),
 "C11": ("exhaustive symbol-sequence DFS; every node decoded under a family of appended suffixes and as first of two back-to-back messages",
         "At every node of the range-coder walk (S = 2W, 4W, 8W) the sealed words are decoded with 8 adversarial suffixes of S/W+2 words and with a second message appended via with_backend; alphabets are iterated by size so that the rare multi-zero-word seals are reached (counter required non-zero).", TRUST, "§3 C11"),
 "C12": ("analytic bound and its inductive step evaluated at every node/edge of the exhaustive walks; inspection invariance at every node",
         "The global size bound (num_valid_bits / num_bits / words) AND the per-step inequality of its proof (potential growth <= info + rounding term) are checked on every node and edge of the encode-only ANS walk and the range walk for all 7 instantiations, incl. precisions with zero headroom. A coder inspected between symbols must stay the coder the bound was derived for.", TRUST + " Bounds evaluated in f64 with 1e-6 bit tolerance.", "§3 C12"),
 "C13": ("exhaustive input sweep on the real ChainCoder: all word strings x all model sequences x 3 continuations; 8 precision schedules; single-step induction over ALL head values of ChainCoder<u8,u16> (hook verif_from_raw_parts)",
         "Every u8 string of length <= 2 (and longer strings over boundary words) x every model sequence of length 2-4 on 9 (Word,State,PRECISION) instantiations, from_binary and from_compressed, each followed by the three documented ways of re-importing remainders, re-encoding and reassembling; precision schedules P1->P2->P1 undone in reverse; documented errors are accepted, wrong reconstructions never. Plus a single-step induction from arbitrary states built with the guarded hook: for all 255 compressed heads x all valid remainders heads of ChainCoder<u8,u16,P=2|4|8> (boundary heads on the wider instantiations) x all letters x several stack tops, decode-then-encode and encode-then-decode restore the coder bit for bit, the decoded symbol is the one the reference chunk rule gives, failing steps leave the coder untouched, and the remainders-head invariant is re-established.", TRUST, "§3 C13"),
 "C14": ("exhaustive input sweep with an independent bit-buffer reference + differential single-bit-flip / model-replacement oracle; seek back after speculative decoding at every snapshot point; persistence of the out-of-data error",
         "For every data string and model sequence: symbol i equals what model i assigns to chunk i as located by an independent 20-line reference of the bit buffer; every single-bit flip and every model replacement changes at most the owning position and never the out-of-data index. After decoding i symbols, recording pos(), decoding on with another model and seeking back, every later position must decode as in the straight-through run; once the coder has reported that it ran out of data it must keep doing so.", TRUST, "§3 C14"),
 "C15": ("exhaustive enumeration of weight vectors; brute-force optimality oracle; reference Huffman with (weight,index) ties; deep trees with codewords of up to 199 bits",
         "All weight vectors of length <= 6-10 over small weight alphabets as u32/f64/f32, plus special vectors; prefix-freeness, Kraft equality, optimal cost (brute force over all full binary trees for n <= 6), exact tie-breaking, prefix == reversed suffix, decode, rejection of out-of-alphabet symbols, encoder/decoder agreement. Fibonacci / geometric weights as u64, u128 and f64 give codewords beyond 64 and 128 bits; exact Kraft check for any length.", TRUST, "§3 C15"),
 "C16": ("explicit-state BFS of the real StackCoder to a fixed point; exhaustive bit strings on the queue coder; exhaustive Exp-Golomb values; exact exhaustion obligation of the bit queue decoder",
         "All reachable states of StackCoder<u8/u16/u32> with up to 13-18 content bits under {write 0/1, read, export->re-import, inspect}, canonical key = full Debug representation + reference content, until the frontier empties; every bit string through QueueEncoder/QueueDecoder; every u8 pair and u16 value (boundary values of u32/u64) through Exp-Golomb on both coders; symbol codes interleaved with raw bits.", TRUST, "§3 C16"),
 "C18": ("size queries compared with the export at every node of the exhaustive walks; diagnostics vs textbook formulas on exhaustive small model spaces; raw-binary loads; bit-coder size and exhaustion queries through the C16 explorers",
         "(a) num_words/num_bits/is_empty/iter_compressed vs what exporting returns, and decoder exhaustion along the way (whole unread words => not exhausted; exact end => maybe exhausted), at every node of the range and ANS walks incl. raw-binary loads; (b) entropy, cross entropy and KL in both directions, floating-point symbol tables and probabilities for all 127 models at P=3 (contiguous and non-contiguous), P=4 models, full-precision and 24-bit models, uniform and quantised models x 5 reference distributions incl. zeros, in f64 and f32. from_binary of every short word string: num_valid_bits, emptiness, sizes and export. Bit stack len / is_empty at every BFS state and bit queue decoder maybe_exhausted after every bit of every bit string (whole words unread => not exhausted).", TRUST + " Relative tolerance 1e-9 (f64) / 1e-4 (f32).", "§3 C18"),
 "C19": ("exhaustive input sweep in isolated child processes over invalid and valid constructor inputs; outcome classification (Err / clean panic / valid model / invalid model / overflow / abort / hang); the Python front end's Categorical constructor over every short float table",
         "Every float table of length <= 2 (thorough 3) over 25 letters incl. -0.0, negative, NaN, +-inf entries x 7 normalization variants (none, exact, half, double, 0, NaN, negative); ALL u8 fixed-point tables of length <= 2 (thorough: 3) x infer_last x symbol lists of matching / shorter / longer length / with duplicates, at 5 precisions incl. PRECISION == Probability::BITS; u16 boundary tables; every support size 0..=2^P+2 for P <= 8 and sizes aliasing modulo 2^ProbabilityBits on 9 type combinations; uniform ranges incl. aliasing ones. Completeness: every table that denotes a valid model must be accepted (also with infer_last at full precision). Long float tables at tiny precisions (more symbols than 2^PRECISION). Through the Python front end: every table of length <= 3 over 16 boundary floats (f32/f64, fast/perfect/lazy): ValueError or a valid model.", TRUST, "§3 C19"),
 "C17": ("explicit-state BFS over (buffer, position) with full dedup to a fixed point on 4 cursor kinds; exhaustive op sequences on Vec/SmallVec; extend_from_iter as an operation on every sink",
         "Every reachable (buffer contents, position) state with buffer length <= 5 (thorough 7): each op executed on Cursor<Vec>, Cursor<&mut [W]>, Cursor<&[W]>, Reverse<Cursor> and the reference; reported remaining/space_left compared with the number of operations that actually succeed; fused end; into_reversed as a bisimulation; views/clones; Vec/SmallVec/iterator/callback adapters. extend_from_iter with 0-3 words is an operation of the alphabet on every sink and must equal the per-word loop, short-circuiting on the first refused word.", TRUST, "§3 C17"),
 "C20": ("hostile safe-API programs enumerated exhaustively in isolated child processes built with std's unsafe-precondition checks, overflow checks and debug assertions inside constriction; plus the C19 and C10 sweeps in classification mode; Huffman / bit-coder / Exp-Golomb / seek / chain-coder hostile families",
         "Every (buffer length <= 4, position, Cursor::buf_mut mutation, backend operation) combination; every user-written IterableEntropyModel table of <= 2 rows over boundary values (and truncated/overfull/non-monotone ones) through every conversion and then queried at every quantile; quantile_function at EVERY value of the probability type on 12 decoder models; AnsCoder::from_raw_parts from all 65536 head values; range coders from boundary raw parts; the complete C19 constructor sweep and C10 decoding sweep. Violation = abort (unsafe precondition violated, allocation failure), signal, hang, or an overflow panic raised inside the library; error values and other panics are fine. Added families: Huffman trees from every weight vector of length <= 5 with every symbol in and around the alphabet and every short bit string; bit coders and Exp-Golomb on arbitrary bits (every bit string of length <= 18 for u8); seek with every position and boundary states; ChainCoder constructors and operations in hostile orders.", TRUST + " UB verdicts are those of std's ub-checks on the executions enumerated (no ASan/Miri pass in the registered commands).", "§3 C20"),
}

CLAIMED = []  # filled below as modules land

NOT_YET = "check for this property is not built yet in this revision of /verif (work in progress); it will be decided by bounded exhaustive exploration as described in DESIGN.md"

def main():
    claimed = [l.strip() for l in open(os.path.join(HERE, "tools", "claimed.txt")) if l.strip() and not l.startswith("#")]
    props = [json.loads(l) for l in open(os.path.join(HERE, "properties.jsonl"))]
    checks, na = [], []
    for p in props:
        pid = p["id"]
        if pid in claimed:
            tech, text, note, ref = TEXT[pid]
            checks.append({
                "property_id": pid,
                "quick_cmd": f"./check {pid} quick",
                "thorough_cmd": f"./check {pid} thorough",
                "evidence_file": f"evidence/{pid}.json",
                "replay_cmd_template": "./check replay {path}",
                "engine": "cvmc",
                "level_claimed": {"category": "model_checking", "text": text, "design_ref": ref},
                "level_note": note,
                "technique": tech,
            })
        else:
            na.append({"property_id": pid, "reason": NOT_YET})
    hooks_commits = [l.strip() for l in open(os.path.join(HERE, "tools", "hook_commits.txt")) if l.strip()] if os.path.exists(os.path.join(HERE, "tools", "hook_commits.txt")) else []
    m = {
        "version": 1,
        "setup_cmd": "./check build",
        "hooks": {
            "guard": "constriction_verif",
            "enable": "cargo feature `constriction_verif` of the constriction crate (off by default); mc/Cargo.toml depends on /repo with features = [\"constriction_verif\"], so ./check builds /repo's working tree with the hook on; the repository's own test suite never enables it",
            "baseline_off_cmd": "cd /repo && cargo nextest run --workspace --no-fail-fast --tool-config-file pb:/w/lib/nextest.toml --profile pb --test-threads 8 --offline || cargo test --workspace --no-fail-fast --offline",
            "source_commits": hooks_commits,
            "add_only": True,
        },
        "engines": [{
            "name": "cvmc",
            "path": "mc/",
            "serves_properties": claimed,
            "kind_free_text": "own Rust explorer: stateless DFS over operation histories / explicit-state BFS with canonical keys / exhaustive sweeps of small state and input types, every transition a call of the real constriction method, stepped against reference models; child-process isolation for aborting cases",
        }],
        "checks": checks,
        "not_applicable": na,
        "notes": "See DESIGN.md. known_findings.json lists findings (none open) and repaired defects (fix: commits in /repo).",
    }
    out = os.path.join(HERE, "MANIFEST.json")
    json.dump(m, open(out, "w"), indent=1)
    try:
        import jsonschema
        jsonschema.validate(m, json.load(open("/root/.vp/MANIFEST.schema.json")))
        print("MANIFEST.json valid;", len(checks), "checks,", len(na), "not_applicable")
    except ImportError:
        print("jsonschema not available; wrote without validation")

if __name__ == "__main__":
    main()
