#!/bin/bash
# tools/triage.sh <worktree-root> <Cxx:name:ID,ID,...> ...  — confirm a sub-agent change in its worktree, then triage it in the scratch copy
root="$1"; shift
for spec in "$@"; do
  IFS=: read w n ids <<< "$spec"
  echo "== $w/$n"
  /verif/tools/confirm_seed.sh $root/$w $n
  /verif/tools/mq_run.sh $root/$w/out/$n.patch ${ids//,/ }
done
