#!/bin/bash
# tools/mq_run.sh <patch> <ID>...  — triage a seeded change in the scratch copy (/tmp/mq), leaving /repo untouched.
patch="$(realpath "$1")"; shift
git -C ${MQ:-/tmp/mq}/repo checkout -q -- . ; git -C ${MQ:-/tmp/mq}/repo apply "$patch" || { echo "patch does not apply"; exit 2; }
cd ${MQ:-/tmp/mq}/verif
for id in "$@"; do
  s=$(date +%s); out=$(timeout ${CHECK_TIMEOUT:-900} ./check "$id" "${TIER:-quick}" 2>&1); code=$?; e=$(date +%s)
  if [ $code -eq 1 ] && echo "$out" | grep -q "VIOLATION property=$id"; then
     echo "DETECTED $id ($((e-s))s): $(echo "$out" | grep 'identity:' | sed 's/^ *identity: //' | sort -u | head -4 | tr '\n' ';')"
  elif [ $code -eq 0 ]; then echo "missed   $id ($((e-s))s)"
  else echo "MACHINERY($code) $id: $(echo "$out" | tail -3 | tr '\n' ' ')"; fi
done
git -C ${MQ:-/tmp/mq}/repo checkout -q -- .
