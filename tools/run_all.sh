#!/bin/bash
# tools/run_all.sh [quick|thorough] [IDs...] — run the registered checks one after the other, print one summary line each
cd "$(dirname "$0")/.." || exit 2
tier="${1:-quick}"; shift
ids="$@"; [ -z "$ids" ] && ids=$(seq -f "C%02g" 1 20)
./check build || exit 2
for id in $ids; do
  s=$(date +%s); out=$(./check $id $tier 2>&1); c=$?; e=$(date +%s)
  echo "$id $tier exit=$c $((e-s))s $(echo "$out" | grep -c '^VIOLATION') violation line(s) | $(echo "$out" | grep "^$id $tier:" | tail -1)"
  [ $c -ne 0 ] && echo "$out" | grep -E "identity:|MACHINERY|first:" | cut -c1-300 | head -12
done
