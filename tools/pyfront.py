#!/usr/bin/env python3
"""Drives the Python front end (pyo3 bindings built from the working tree into /verif/pyfront/pkg).

  pyfront.py vectors <vectors.json>      replay every vector produced by `cvmc pyvectors` (the Rust front end's
                                         words for an exhaustive set of small messages) through the Python
                                         front end: encode -> words must be identical; decode the Rust words
                                         -> symbols must be identical
  pyfront.py docexamples <tests/python>  run every test_* function of the repository's own documentation
                                         example files (they assert byte-exact compressed words)
  pyfront.py constructors                every float table of length <= 3 over a boundary alphabet through
                                         Categorical(probabilities, lazy/perfect): ValueError or a valid model

Prints ONE line of JSON: {"checked": n, "failures": [{"what": ..., "detail": ...}, ...], "counters": {...}}.
Exit status 0 unless the driver itself is broken (then 2). Failures are verdicts for the caller, not errors here.
"""
import contextlib, importlib.util, io, itertools, json, math, os, sys, traceback

import numpy as np

try:
    import constriction
except Exception as e:  # the caller decides what a missing front end means
    print(json.dumps({"checked": 0, "failures": [], "counters": {}, "unavailable": repr(e)}))
    sys.exit(0)

M = constriction.stream.model


def build_model(spec):
    k = spec["kind"]
    if k == "categorical":
        dt = np.float32 if spec.get("f32") else np.float64
        kw = {}
        # "omit": arguments left to the binding's documented defaults (the model must still be the one named by lazy/perfect)
        if "lazy" not in spec.get("omit", []):
            kw["lazy"] = spec["lazy"]
        if "perfect" not in spec.get("omit", []):
            kw["perfect"] = spec["perfect"]
        with contextlib.redirect_stdout(io.StringIO()):  # (the binding prints a deprecation warning when both are omitted)
            return M.Categorical(np.array(spec["probs"], dtype=dt), **kw)
    if k == "gaussian":
        return M.QuantizedGaussian(spec["min"], spec["max"], spec["mean"], spec["std"])
    if k == "uniform":
        return M.Uniform(spec["size"])
    if k == "bernoulli":
        return M.Bernoulli(spec["p"], perfect=False)
    raise ValueError("unknown model kind " + k)


def run_vectors(path):
    cases = json.load(open(path))
    failures, n = [], 0
    counters = {"ans_vectors": 0, "range_vectors": 0, "symbols_encoded": 0}
    for c in cases:
        n += 1
        try:
            model = build_model(c["model"])
            syms = np.array(c["symbols"], dtype=np.int32)
            want = np.array(c["words"], dtype=np.uint32)
            if c["coder"] == "ans":
                counters["ans_vectors"] += 1
                enc = constriction.stream.stack.AnsCoder()
                enc.encode_reverse(syms, model)
                got = enc.get_compressed()
                dec = constriction.stream.stack.AnsCoder(want) if len(want) else constriction.stream.stack.AnsCoder()
                back = dec.decode(model, len(syms))
            else:
                counters["range_vectors"] += 1
                enc = constriction.stream.queue.RangeEncoder()
                enc.encode(syms, model)
                got = enc.get_compressed()
                dec = constriction.stream.queue.RangeDecoder(want)
                back = dec.decode(model, len(syms))
            counters["symbols_encoded"] += len(syms)
            # the same words handed over as non-contiguous numpy VIEWS (negative stride, stride 2) must be read in
            # logical order, not in memory order
            if len(want) >= 2 and n % 7 == 0:
                counters["view_vectors"] = counters.get("view_vectors", 0) + 1
                rev_view = want[::-1].copy()[::-1]
                strided = np.repeat(want, 2)[::2]
                for name, view in (("negative-stride view", rev_view), ("stride-2 view", strided)):
                    if c["coder"] == "ans":
                        d2 = constriction.stream.stack.AnsCoder(view)
                        same = np.array_equal(d2.get_compressed(), want)
                    else:
                        d2 = constriction.stream.queue.RangeDecoder(view)
                        same = True
                    b2 = d2.decode(model, len(syms))
                    if not same or len(b2) != len(syms) or not np.all(b2 == syms):
                        failures.append({"what": f"Python front end | {c['coder']} decoder | compressed words passed as a {name} are not read in logical order",
                                         "detail": f"model {c['model']} symbols {c['symbols']}: decoded {[int(x) for x in b2]}"})
            if len(got) != len(want) or not np.all(got == want):
                failures.append({"what": f"Python front end | {c['coder']} encoder | words differ from the Rust front end",
                                 "detail": f"model {c['model']} symbols {c['symbols']}: python {[int(x) for x in got]} rust {c['words']}"})
            elif len(back) != len(syms) or not np.all(back == syms):
                failures.append({"what": f"Python front end | {c['coder']} decoder | symbols decoded from the Rust front end's words differ",
                                 "detail": f"model {c['model']} symbols {c['symbols']}: decoded {[int(x) for x in back]}"})
        except BaseException as e:  # pyo3 turns Rust panics into BaseException subclasses
            failures.append({"what": f"Python front end | {c['coder']} | exception on a valid message",
                             "detail": f"model {c['model']} symbols {c['symbols']}: {type(e).__name__}: {e}"})
        if len(failures) > 40:
            break
    return n, failures, counters


def run_docexamples(testdir):
    failures, n = [], 0
    counters = {"doc_example_functions": 0, "doc_example_files": 0}
    for fname in sorted(os.listdir(testdir)):
        if not (fname.startswith("test_doc") or fname.startswith("test_lazy")) or not fname.endswith(".py"):
            continue
        spec = importlib.util.spec_from_file_location(fname[:-3], os.path.join(testdir, fname))
        mod = importlib.util.module_from_spec(spec)
        try:
            with contextlib.redirect_stdout(io.StringIO()):
                spec.loader.exec_module(mod)
        except BaseException as e:
            failures.append({"what": "Python front end | documentation examples | file cannot be imported", "detail": f"{fname}: {type(e).__name__}: {e}"})
            continue
        counters["doc_example_files"] += 1
        for name in sorted(dir(mod)):
            if not name.startswith("test_"):
                continue
            n += 1
            counters["doc_example_functions"] += 1
            try:
                with contextlib.redirect_stdout(io.StringIO()):
                    getattr(mod, name)()
            except BaseException as e:
                tb = traceback.extract_tb(e.__traceback__)
                where = f"{fname}:{tb[-1].lineno}" if tb else fname
                failures.append({"what": "Python front end | documentation example does not reproduce its documented output",
                                 "detail": f"{fname}::{name} at {where}: {type(e).__name__}: {str(e)[:300]}"})
    return n, failures, counters


def run_layouts():
    """Per-symbol model parameters given as numpy arrays: the words must depend on the VALUES, not on the memory
    layout of the arrays (C order, Fortran order, transposed / strided / reversed views of numerically equal data)."""
    failures, n = [], 0
    counters = {"layout_comparisons": 0}
    rng_tables = [
        [[0.3, 0.1, 0.1, 0.3, 0.2], [0.1, 0.4, 0.2, 0.1, 0.2], [0.4, 0.2, 0.1, 0.2, 0.1]],
        [[0.5, 0.5], [0.9, 0.1], [0.2, 0.8], [0.6, 0.4]],
        [[0.25, 0.25, 0.5], [0.1, 0.2, 0.7]],
    ]
    for table in rng_tables:
        for dtype in (np.float32, np.float64):
            base = np.array(table, dtype=dtype)
            nsym, k = base.shape
            layouts = {
                "C order": np.ascontiguousarray(base),
                "Fortran order": np.asfortranarray(base),
                "transposed view of the transposed copy": base.T.copy().T,
                "every second column of a wider array": np.repeat(base, 2, axis=1)[:, ::2],
                "rows reversed twice": base[::-1][::-1],
            }
            for msg in itertools.product(range(k), repeat=nsym):
                syms = np.array(msg, dtype=np.int32)
                for (lazy, perfect) in ((False, False), (False, True), (True, False)):
                    fam = M.Categorical(lazy=lazy, perfect=perfect)
                    ref = {}
                    for lname, arr in layouts.items():
                        n += 1
                        counters["layout_comparisons"] += 1
                        try:
                            a = constriction.stream.stack.AnsCoder(); a.encode_reverse(syms, fam, arr); wa = a.get_compressed()
                            r = constriction.stream.queue.RangeEncoder(); r.encode(syms, fam, arr); wr = r.get_compressed()
                            back = constriction.stream.stack.AnsCoder(wa).decode(fam, arr)
                        except (ValueError, TypeError):
                            continue  # a layout the binding refuses cleanly (ValueError / TypeError) is fine
                        except BaseException as e:
                            failures.append({"what": "Python front end | per-symbol parameter arrays | exception for a valid parameter array", "detail": f"{lname} {dtype.__name__} table {table}: {type(e).__name__}: {e}"})
                            continue
                        cur = ([int(x) for x in wa], [int(x) for x in wr])
                        if not np.array_equal(back, syms):
                            failures.append({"what": "Python front end | per-symbol parameter arrays | round trip fails", "detail": f"{lname} {dtype.__name__} table {table} symbols {list(msg)}"})
                        if not ref:
                            ref = {"name": lname, "words": cur}
                        elif cur != ref["words"]:
                            failures.append({"what": "Python front end | per-symbol parameter arrays | compressed words depend on the memory layout of a numerically identical parameter array",
                                             "detail": f"table {table} ({dtype.__name__}, lazy={lazy}, perfect={perfect}) symbols {list(msg)}: {ref['name']} gives {ref['words']}, {lname} gives {cur}"})
                    if len(failures) > 30:
                        return n, failures, counters
    # 1-D per-symbol parameters (means / standard deviations) as strided and reversed views
    gauss = M.QuantizedGaussian(-20, 20)
    means = np.array([1.5, -3.25, 7.0, 0.1], dtype=np.float64)
    stds = np.array([2.0, 0.5, 4.0, 1.0], dtype=np.float64)
    syms = np.array([2, -3, 9, 0], dtype=np.int32)
    views = {"contiguous": (means.copy(), stds.copy()), "stride 2": (np.repeat(means, 2)[::2], np.repeat(stds, 2)[::2]), "reversed twice": (means[::-1].copy()[::-1], stds[::-1].copy()[::-1])}
    ref = None
    for vname, (m, s_) in views.items():
        n += 1
        counters["layout_comparisons"] += 1
        try:
            a = constriction.stream.stack.AnsCoder(); a.encode_reverse(syms, gauss, m, s_); w = [int(x) for x in a.get_compressed()]
        except (ValueError, TypeError):
            continue
        if ref is None: ref = (vname, w)
        elif w != ref[1]:
            failures.append({"what": "Python front end | per-symbol parameter arrays | compressed words depend on the memory layout of a numerically identical parameter array", "detail": f"QuantizedGaussian means/stds as {vname}: {w} vs {ref[0]}: {ref[1]}"})
    return n, failures, counters


ALPHABET = [0.0, 5e-324, 1e-300, 1e-10, 0.1, 1.0 / 3.0, 1.0, 7.7, 1e30, 1e308,
            -0.0, -1e-300, -0.5, float("nan"), float("inf"), float("-inf")]


def valid_model(model, nsym):
    """C03's oracle through the Python front end: decoding every stretch of an all-purpose bit string and
    re-encoding must be lossless, and every symbol of the support must be encodable."""
    for s in range(nsym):
        enc = constriction.stream.stack.AnsCoder()
        enc.encode_reverse(np.array([s, s], dtype=np.int32), model)
        dec = constriction.stream.stack.AnsCoder(enc.get_compressed())
        back = dec.decode(model, 2)
        if not np.all(back == np.array([s, s], dtype=np.int32)):
            return f"symbol {s} does not round trip"
    enc = constriction.stream.stack.AnsCoder()
    try:
        enc.encode_reverse(np.array([nsym], dtype=np.int32), model)
        return f"symbol {nsym} outside the support is encodable"
    except (ValueError, KeyError):
        pass
    for words in ([0x12345678, 0x9abcdef0, 0x0fedcba9], [0, 0, 1], [0xffffffff, 0xffffffff, 0xffffffff]):
        dec = constriction.stream.stack.AnsCoder(np.array(words, dtype=np.uint32))
        syms = dec.decode(model, 5)
        if np.any(syms < 0) or np.any(syms >= nsym):
            return f"decoding arbitrary data yields a symbol outside 0..{nsym}: {syms}"
    return None


def run_constructors():
    failures, n = [], 0
    counters = {"tables": 0, "value_errors": 0, "models_built": 0}
    for length in range(0, 4):
        for idx in itertools.product(range(len(ALPHABET)), repeat=length):
            table = [ALPHABET[i] for i in idx]
            for dtype in (np.float64, np.float32):
                for (lazy, perfect) in ((False, False), (False, True), (True, False)):
                    n += 1
                    counters["tables"] += 1
                    with np.errstate(all="ignore"):
                        arr = np.array(table, dtype=dtype)
                    try:
                        model = M.Categorical(arr, lazy=lazy, perfect=perfect)
                    except ValueError:
                        counters["value_errors"] += 1
                        continue
                    except BaseException as e:
                        failures.append({"what": "Python front end | Categorical constructor | fails with something other than ValueError",
                                         "detail": f"{table} {dtype.__name__} lazy={lazy} perfect={perfect}: {type(e).__name__}: {str(e)[:200]}"})
                        continue
                    counters["models_built"] += 1
                    bad_input = length < 2 or any((not math.isfinite(float(x))) or float(x) < 0 for x in arr) or not math.isfinite(float(arr.sum())) or float(arr.sum()) <= 0
                    try:
                        why = valid_model(model, length)
                    except BaseException as e:
                        why = f"{type(e).__name__}: {str(e)[:200]}"
                    if why is not None:
                        failures.append({"what": "Python front end | Categorical constructor | returns a model that is not valid" + (" for invalid input" if bad_input else ""),
                                         "detail": f"{table} {dtype.__name__} lazy={lazy} perfect={perfect}: {why}"})
                    if len(failures) > 40:
                        return n, failures, counters
    return n, failures, counters


# ---------------------------------------------------------------------------------------------------------
# Parameterised families with arbitrary (also invalid) parameters: scalar constructor arguments and per-symbol
# parameter arrays. C19: any exception is a clean failure; a model / parameter set that is ACCEPTED must behave
# like a valid model: symbols of the support round-trip, arbitrary words decode into the support. A case that
# hangs is found by the caller through the progress markers written to stderr.
FAM_PARAMS = [0.0, -0.0, 1e-300, 1e-9, 0.3, 0.5, 1.0, 1.5, 3.0, 1e300, -0.25, -1.0, float("nan"), float("inf"), float("-inf")]
FAM_LOCS = [0.0, 0.7, -1e300, float("nan"), float("inf")]


def family_cases():
    cases = []
    for fam in ("gaussian", "laplace", "cauchy"):
        for loc in FAM_LOCS:
            for sc in FAM_PARAMS:
                for mode in ("scalar", "array", "array_scale_only"):
                    cases.append((fam, loc, sc, mode))
    for n_ in (0, 1, 10, -3):
        for p_ in FAM_PARAMS:
            for mode in ("scalar", "array"):
                cases.append(("binomial", n_, p_, mode))
    for p_ in FAM_PARAMS:
        for mode in ("scalar", "array"):
            cases.append(("bernoulli", 0, p_, mode))
    for size in (-1, 0, 1, 2, 3, 2**24 - 1, 2**24, 2**24 + 1, 2**31 - 1):
        cases.append(("uniform", 0, size, "scalar"))
        cases.append(("uniform", 0, size, "array"))
    return cases


def family_case(fam, a, b, mode):
    """returns None (fine) or a description of what is wrong"""
    lo, hi = -5, 5
    ans = constriction.stream.stack.AnsCoder
    if fam in ("gaussian", "laplace", "cauchy"):
        cls = {"gaussian": M.QuantizedGaussian, "laplace": M.QuantizedLaplace, "cauchy": M.QuantizedCauchy}[fam]
        support = (lo, hi)
        if mode == "scalar":
            model, params = cls(lo, hi, a, b), ()
        elif mode == "array":
            model, params = cls(lo, hi), (np.array([0.5, a], dtype=np.float64), np.array([1.0, b], dtype=np.float64))
        else:
            model, params = cls(lo, hi, a), (np.array([1.0, b], dtype=np.float64),)
        syms = np.array([lo, 2], dtype=np.int32)
    elif fam == "binomial":
        support = (0, max(a, 0))
        if mode == "scalar":
            model, params = M.Binomial(a, b), ()
        else:
            model, params = M.Binomial(a), (np.array([0.5, b], dtype=np.float64),)
        syms = np.array([0, max(a, 0)], dtype=np.int32)
    elif fam == "bernoulli":
        support = (0, 1)
        if mode == "scalar":
            model, params = M.Bernoulli(b, perfect=False), ()
        else:
            model, params = M.Bernoulli(perfect=False), (np.array([0.5, b], dtype=np.float64),)
        syms = np.array([0, 1], dtype=np.int32)
    else:
        support = (0, b - 1)
        if mode == "scalar":
            model, params = M.Uniform(b), ()
        else:
            model, params = M.Uniform(), (np.array([3, b], dtype=np.int32),)
            support = [(0, 2), (0, b - 1)]  # per-symbol supports
        syms = np.array([0, min(max(b - 1, 0), 2)], dtype=np.int32)
    enc = ans()
    enc.encode_reverse(syms, model, *params)
    words = enc.get_compressed()
    back = ans(words).decode(model, *params) if params else ans(words).decode(model, len(syms))
    if not np.array_equal(back, syms):
        return f"accepted, but symbols {list(syms)} decode as {list(back)}"
    for w in ([0x12345678, 0x9abcdef0, 0x0fedcba9, 0x13579bdf], [0, 0, 0, 1], [0xffffffff] * 4):
        d = ans(np.array(w, dtype=np.uint32))
        out = d.decode(model, *params) if params else d.decode(model, 2)
        sup = support if isinstance(support, list) else [support] * len(out)
        if any(int(o) < lo_ or int(o) > hi_ for o, (lo_, hi_) in zip(out, sup)):
            return f"accepted, but arbitrary words decode to {list(out)} outside the support {support}"
        # what was decoded must re-encode to the same words (a valid model is exactly invertible)
        e2 = ans(d.get_compressed()) if len(d.get_compressed()) else ans()
        e2.encode_reverse(out, model, *params)
        if not np.array_equal(e2.get_compressed(), np.array(w, dtype=np.uint32)):
            return f"accepted, but decoding arbitrary words and re-encoding the symbols {list(out)} does not restore the words"
    return None


def run_families(start, stop):
    failures, n = [], 0
    counters = {"family_cases": 0, "family_clean_failures": 0, "family_models_accepted": 0}
    cases = family_cases()
    devnull = open(os.devnull, "w")
    for i in range(start, min(stop, len(cases))):
        fam, a, b, mode = cases[i]
        sys.stderr.write(f"@{i}\n"); sys.stderr.flush()
        n += 1
        counters["family_cases"] += 1
        try:
            saved = os.dup(2); os.dup2(devnull.fileno(), 2)  # silence the panic backtraces of clean failures
            try:
                why = family_case(fam, a, b, mode)
            finally:
                os.dup2(saved, 2); os.close(saved)
        except BaseException as e:
            counters["family_clean_failures"] += 1
            continue
        counters["family_models_accepted"] += 1
        if why is not None:
            failures.append({"what": f"Python front end | {fam} model ({'constructor arguments' if mode == 'scalar' else 'per-symbol parameter arrays'}) | parameters are accepted but the model is not valid",
                             "detail": f"{fam}({a!r}, {b!r}) [{mode}]: {why}"})
    return n, failures, counters


# ------------------------------------------------------------------------------------------------------------
# The coders of the Python front end under the properties that the Rust front end is checked for.
# Every sweep is an exhaustive enumeration over a small alphabet of words / symbols / models / call forms.
WORDS = [0, 1, 2, 0x00010000, 0x12345678, 0x7fffffff, 0x80000000, 0xffffffff]
ANS = constriction.stream.stack.AnsCoder
RENC = constriction.stream.queue.RangeEncoder
RDEC = constriction.stream.queue.RangeDecoder
CHAIN = constriction.stream.chain.ChainCoder


class Quiet:
    """silences the panic backtraces that a caught PanicException leaves on stderr"""
    def __enter__(self):
        self.devnull = open(os.devnull, "w"); self.saved = os.dup(2); os.dup2(self.devnull.fileno(), 2)
    def __exit__(self, *a):
        os.dup2(self.saved, 2); os.close(self.saved); self.devnull.close()


def is_panic(e):
    return type(e).__name__ == "PanicException" or not isinstance(e, Exception)


def word_strings(min_len, max_len, alphabet=WORDS):
    for n in range(min_len, max_len + 1):
        for t in itertools.product(alphabet, repeat=n):
            yield np.array(t, dtype=np.uint32)


def coder_models():
    """(name, concrete model, family, parameter arrays for n symbols -> tuple, support (lo, hi))"""
    g_means = [0.4, -2.2, 7.5, 0.0, 1.1, -0.3, 2.9, -1.7]
    g_stds = [1.3, 0.2, 4.0, 1e-3, 30.0, 0.9, 2.5, 0.6]
    tables = [[0.2, 0.5, 0.3], [0.999, 0.0005, 0.0005], [0.1, 0.2, 0.7], [1 / 3, 1 / 3, 1 / 3]]
    return [
        ("categorical", M.Categorical(np.array([0.2, 0.5, 0.3]), perfect=False), M.Categorical(perfect=False),
         lambda n: (np.array([tables[i % 4] for i in range(n)], dtype=np.float64).reshape(n, 3),), (0, 2)),
        ("lazy categorical", M.Categorical(np.array([0.1, 0.2, 0.3, 0.4], dtype=np.float32), lazy=True), M.Categorical(lazy=True),
         lambda n: (np.array([tables[(i + 1) % 4] for i in range(n)], dtype=np.float32).reshape(n, 3),), (0, 3)),
        ("gaussian", M.QuantizedGaussian(-3, 3, 0.4, 1.3), M.QuantizedGaussian(-3, 3),
         lambda n: (np.array(g_means[:n]), np.array(g_stds[:n])), (-3, 3)),
        ("uniform", M.Uniform(5), M.Uniform(),
         lambda n: (np.array([5, 2, 7, 3, 2, 9, 4, 6][:n], dtype=np.int32),), (0, 8)),
        ("bernoulli", M.Bernoulli(0.3, perfect=False), M.Bernoulli(perfect=False),
         lambda n: (np.array([0.3, 0.999, 1e-9, 0.5, 0.7, 0.01, 0.25, 0.6][:n]),), (0, 1)),
        # families with ONE parameter fixed in the constructor and the other one delayed
        ("laplace, location fixed", M.QuantizedLaplace(-3, 3, -0.5, 1.2), M.QuantizedLaplace(-3, 3, -0.5),
         lambda n: (np.array([1.2, 0.1, 5.0, 0.7, 2.0, 0.3, 1.0, 9.0][:n]),), (-3, 3)),
        ("cauchy, scale fixed", M.QuantizedCauchy(-3, 3, 0.0, 0.7), M.QuantizedCauchy(-3, 3, scale=0.7),
         lambda n: (np.array([0.0, -2.5, 1.5, 0.2, -0.1, 3.0, -3.0, 0.9][:n]),), (-3, 3)),
        ("gaussian, location fixed at zero", M.QuantizedGaussian(-3, 3, 0.0, 1.0), M.QuantizedGaussian(-3, 3, 0.0),
         lambda n: (np.array([1.0, 0.1, 5.0, 0.7, 2.0, 0.3, 1.0, 9.0][:n]),), (-3, 3)),
        ("binomial, n fixed", M.Binomial(4, 0.3), M.Binomial(4),
         lambda n: (np.array([0.3, 0.0, 1.0, 0.5, 0.9, 0.01, 0.25, 0.6][:n]),), (0, 4)),
    ]


def decode_forms(coder, model, family, params, n):
    """the three documented ways of decoding n symbols"""
    yield "one symbol per call", lambda c: [int(c.decode(model)) for _ in range(n)]
    yield "decode(model, amt)", lambda c: [int(x) for x in c.decode(model, n)]
    yield "decode(family, parameter arrays)", lambda c: [int(x) for x in c.decode(family, *params(n))]


def run_decoders(max_len):
    """C10: any words, any decoder of the front end, any call form: symbols inside the support or the documented error"""
    failures, n = [], 0
    counters = {"py_decoder_cases": 0, "py_decoder_documented_errors": 0, "py_decoder_refused_constructions": 0, "py_decoder_symbols": 0}
    seen = set()
    def fail(what, detail):
        if what not in seen or len([f for f in failures if f["what"] == what]) < 3:
            failures.append({"what": what, "detail": detail})
        seen.add(what)
    decs = [("AnsCoder(words)", lambda w: ANS(w), ()), ("AnsCoder(words, seal=True)", lambda w: ANS(w, True), ()),
            ("RangeDecoder(words)", lambda w: RDEC(w), (AssertionError,)),
            ("ChainCoder(words)", lambda w: CHAIN(w, False, False), (AssertionError,)),
            ("ChainCoder(words, seal=True)", lambda w: CHAIN(w, False, True), (AssertionError,)),
            ("ChainCoder(words, is_remainders=True)", lambda w: CHAIN(w, True, False), (AssertionError,))]
    models = coder_models()
    with Quiet():
        for w in word_strings(0, max_len):
            for dname, make, allowed in decs:
                for mname, model, family, params, (lo, hi) in models:
                    for nsym in (1, 6):
                        for fname, run in decode_forms(None, model, family, params, nsym):
                            n += 1; counters["py_decoder_cases"] += 1
                            try:
                                c = make(w)
                            except Exception as e:
                                if is_panic(e):
                                    fail(f"Python front end | {dname} | construction from arbitrary words panics", f"words {[hex(int(x)) for x in w]}: {type(e).__name__}: {str(e)[:120]}")
                                else:
                                    counters["py_decoder_refused_constructions"] += 1
                                continue
                            except BaseException as e:
                                fail(f"Python front end | {dname} | construction from arbitrary words panics", f"words {[hex(int(x)) for x in w]}: {type(e).__name__}: {str(e)[:120]}")
                                continue
                            try:
                                out = run(c)
                            except BaseException as e:
                                if isinstance(e, allowed) and not is_panic(e):
                                    counters["py_decoder_documented_errors"] += 1
                                else:
                                    fail(f"Python front end | {dname}.decode, {fname} | arbitrary words make decoding panic or fail with an undocumented error",
                                         f"words {[hex(int(x)) for x in w]}, {mname} model, {nsym} symbol(s): {type(e).__name__}: {str(e)[:120]}")
                                continue
                            counters["py_decoder_symbols"] += len(out)
                            if len(out) != nsym or any(o < lo or o > hi for o in out):
                                fail(f"Python front end | {dname}.decode, {fname} | decoded symbol outside the support",
                                     f"words {[hex(int(x)) for x in w]}, {mname} model: {out}")
        # seek with ARBITRARY positions and states, then decode: an error or symbols of the support, never a panic
        states = [0, 1, 2**24, 2**31, 2**32 - 1, 2**32, 2**32 + 1, 2**63, 2**64 - 1, 2**64, -1]
        cat = models[0][1]
        counters["py_hostile_seeks"] = 0
        for w in word_strings(0, min(max_len, 2)):
            for pos in list(range(0, len(w) + 2)) + [2**31, 2**63, 2**64 - 1, -1]:
                for st in states:
                    for rng in ([None] + states[:7]):
                        n += 1; counters["py_hostile_seeks"] += 1
                        try:
                            if rng is None:
                                if len(w) and w[-1] == 0:
                                    continue
                                c = ANS(w) if len(w) else ANS()
                                c.seek(pos, st)
                            else:
                                c = RDEC(w)
                                c.seek(pos, (st, rng))
                        except Exception as e:
                            if is_panic(e):
                                fail(f"Python front end | {'AnsCoder' if rng is None else 'RangeDecoder'}.seek | arbitrary position / state panics", f"words {[hex(int(x)) for x in w]}, seek({pos}, {st}{'' if rng is None else ', ' + str(rng)}): {str(e)[:100]}")
                            continue
                        except BaseException as e:
                            fail(f"Python front end | {'AnsCoder' if rng is None else 'RangeDecoder'}.seek | arbitrary position / state panics", f"words {[hex(int(x)) for x in w]}, seek({pos}, {st}{'' if rng is None else ', ' + str(rng)}): {str(e)[:100]}")
                            continue
                        try:
                            out = [int(x) for x in c.decode(cat, 3)]
                            if any(o < 0 or o > 2 for o in out) or len(out) != 3:
                                fail(f"Python front end | {'AnsCoder' if rng is None else 'RangeDecoder'}.decode after seek | decoded symbol outside the support", f"words {[hex(int(x)) for x in w]}, seek({pos}, {st}, {rng}): {out}")
                        except AssertionError:
                            if rng is None:
                                fail("Python front end | AnsCoder.decode after seek | the ANS coder reports an error", f"words {[hex(int(x)) for x in w]}, seek({pos}, {st})")
                        except BaseException as e:
                            fail(f"Python front end | {'AnsCoder' if rng is None else 'RangeDecoder'}.decode after seek | arbitrary state makes decoding panic", f"words {[hex(int(x)) for x in w]}, seek({pos}, {st}, {rng}): {type(e).__name__}: {str(e)[:100]}")
    return n, failures, counters


def run_bitsback(max_len):
    """C04 through the Python front end: AnsCoder(words, seal=True) -> decode -> encode back -> get_compressed(unseal=True)"""
    failures, n = [], 0
    counters = {"py_bitsback_cases": 0, "py_bitsback_symbols": 0}
    models = coder_models()
    with Quiet():
        for w in word_strings(0, max_len):
            for sealed in (True, False):
                if not sealed and (len(w) == 0 or w[-1] == 0):
                    continue
                for mname, model, family, params, _ in models:
                    for nsym in (0, 1, 2, 5):
                        for fname, run in decode_forms(None, model, family, params, nsym):
                            n += 1; counters["py_bitsback_cases"] += 1
                            try:
                                c = ANS(w, True) if sealed else ANS(w)
                                bits0 = c.num_valid_bits() if sealed else None
                                syms = np.array(run(c), dtype=np.int32)
                                counters["py_bitsback_symbols"] += len(syms)
                                if fname == "decode(family, parameter arrays)":
                                    c.encode_reverse(syms, family, *params(nsym))
                                elif fname == "decode(model, amt)":
                                    c.encode_reverse(syms, model)
                                else:
                                    for x in syms[::-1]:
                                        c.encode_reverse(int(x), model)
                                back = c.get_compressed(unseal=True) if sealed else c.get_compressed()
                                if not np.array_equal(back, w):
                                    failures.append({"what": f"Python front end | AnsCoder, {fname} | decoding from arbitrary bits and encoding the symbols back does not restore the bits",
                                                     "detail": f"words {[hex(int(x)) for x in w]} (seal={sealed}), {mname} model, symbols {list(syms)}: got {[hex(int(x)) for x in back]}"})
                                if sealed and bits0 != 32 * len(w):
                                    failures.append({"what": "Python front end | AnsCoder.num_valid_bits | not the size of the sealed data", "detail": f"{len(w)} words: {bits0}"})
                            except BaseException as e:
                                failures.append({"what": f"Python front end | AnsCoder, {fname} | bits-back round trip raises", "detail": f"words {[hex(int(x)) for x in w]} (seal={sealed}), {mname} model: {type(e).__name__}: {str(e)[:120]}"})
                            if len(failures) > 40:
                                return n, failures, counters
    return n, failures, counters


def run_chain(max_len):
    """C13 through the Python front end: decode from arbitrary data, export the remainders, re-import, encode back"""
    failures, n = [], 0
    counters = {"py_chain_cases": 0, "py_chain_out_of_data": 0, "py_chain_restored": 0, "py_chain_refused_constructions": 0}
    models = coder_models()[:5] if max_len <= 3 else coder_models()
    def fail(what, detail):
        if len([f for f in failures if f["what"] == what]) < 3:
            failures.append({"what": what, "detail": detail})
    with Quiet():
        for w in word_strings(2, max_len):
            for sealed in (True, False):
                for mname, model, family, params, _ in models:
                    for nsym in (1, 3, 6):
                        for fname, run in decode_forms(None, model, family, params, nsym):
                            n += 1; counters["py_chain_cases"] += 1
                            try:
                                c = CHAIN(w, False, sealed)
                            except Exception as e:
                                if is_panic(e):
                                    fail("Python front end | ChainCoder(words) | construction panics", f"{[hex(int(x)) for x in w]}: {e}")
                                counters["py_chain_refused_constructions"] += 1
                                continue
                            try:
                                syms = np.array(run(c), dtype=np.int32)
                            except BaseException:
                                counters["py_chain_out_of_data"] += 1   # judged by the C10 sweep
                                continue
                            if len(syms) != nsym:
                                fail(f"Python front end | ChainCoder, {fname} | returns fewer symbols than asked for instead of reporting that the data ran out", f"words {[hex(int(x)) for x in w]} (seal={sealed}), {mname}: asked for {nsym}, got {list(syms)}")
                                continue
                            def encode_back(coder):
                                if fname == "decode(family, parameter arrays)":
                                    coder.encode_reverse(syms, family, *params(nsym))
                                elif fname == "decode(model, amt)":
                                    coder.encode_reverse(syms, model)
                                else:
                                    for x in syms[::-1]:
                                        coder.encode_reverse(int(x), model)
                            try:
                                # (a) on the same coder
                                twin = c.clone()
                                encode_back(twin)
                                d1, d2 = twin.get_data(unseal=sealed)
                                if not np.array_equal(np.concatenate([d1, d2]), w):
                                    fail(f"Python front end | ChainCoder, {fname} | decode then encode on the same coder does not restore the data",
                                         f"words {[hex(int(x)) for x in w]} (seal={sealed}), {mname}, symbols {list(syms)}: {[hex(int(x)) for x in np.concatenate([d1, d2])]}")
                                # (b) documented route: concatenated remainders
                                r1, r2 = c.get_remainders()
                                c2 = CHAIN(np.concatenate([r1, r2]), True, False)
                                encode_back(c2)
                                d1, d2 = c2.get_data(unseal=sealed)
                                if not np.array_equal(np.concatenate([d1, d2]), w):
                                    fail(f"Python front end | ChainCoder, {fname} | get_remainders -> ChainCoder(is_remainders=True) -> encode_reverse -> get_data does not restore the data",
                                         f"words {[hex(int(x)) for x in w]} (seal={sealed}), {mname}, symbols {list(syms)}: {[hex(int(x)) for x in np.concatenate([d1, d2])]}")
                                # (c) only the second item of the pair, the first one kept apart
                                c3 = CHAIN(r2, True, False)
                                encode_back(c3)
                                e1, e2 = c3.get_data(unseal=False) if len(r1) else c3.get_data(unseal=sealed)
                                got = np.concatenate([r1, e1, e2])
                                want = w if len(r1) == 0 or not sealed else None
                                if len(r1) and sealed:
                                    # the unused prefix r1 is the front of the sealed data; what c3 restores is the rest incl. the seal
                                    full = CHAIN(np.concatenate([r1, e1, e2]), False, False)
                                    f1, f2 = full.get_data(unseal=True)
                                    got, want = np.concatenate([f1, f2]), w
                                if not np.array_equal(got, want):
                                    fail(f"Python front end | ChainCoder, {fname} | re-importing only the second remainders item and keeping the first apart does not restore the data",
                                         f"words {[hex(int(x)) for x in w]} (seal={sealed}), {mname}, symbols {list(syms)}: {[hex(int(x)) for x in got]}")
                                counters["py_chain_restored"] += 1
                            except BaseException as e:
                                fail(f"Python front end | ChainCoder, {fname} | restoring the data raises", f"words {[hex(int(x)) for x in w]} (seal={sealed}), {mname}, symbols {list(syms)}: {type(e).__name__}: {str(e)[:160]}")
    return n, failures, counters


def small_messages(alphabet, max_len):
    for n in range(0, max_len + 1):
        for t in itertools.product(alphabet, repeat=n):
            yield list(t)


def run_seek(max_len):
    """C07 through the Python front end: snapshots of an encoder, every ordered pair of seeks on a decoder"""
    failures, n = [], 0
    counters = {"py_seek_messages": 0, "py_seek_pairs": 0, "py_seek_refused": 0}
    def fail(what, detail):
        if len([f for f in failures if f["what"] == what]) < 3:
            failures.append({"what": what, "detail": detail})
    cat = M.Categorical(np.array([0.2, 0.5, 0.3]), perfect=False)
    skew = M.Categorical(np.array([1e-7, 1.0 - 2e-7, 1e-7]), perfect=False)   # 24-bit and near-zero-bit symbols: words are emitted at irregular boundaries
    gauss = M.QuantizedGaussian(0, 2, 0.9, 0.7)
    programs = [("categorical", lambda i: cat), ("alternating skewed / gaussian", lambda i: skew if i % 2 == 0 else gauss), ("skewed", lambda i: skew)]
    with Quiet():
        for pname, model_at in programs:
            for msg in small_messages([0, 1, 2], max_len):
                counters["py_seek_messages"] += 1
                L = len(msg)
                # --- range coder: snapshot i lies in front of symbol i
                enc = RENC()
                snaps = []
                for i, sym in enumerate(msg):
                    snaps.append(enc.pos())
                    enc.encode(sym, model_at(i))
                snaps.append(enc.pos())
                words = enc.get_compressed()
                dec = RDEC(words)
                for i in range(L + 1):
                    for j in range(L + 1):
                        n += 1; counters["py_seek_pairs"] += 1
                        try:
                            dec.seek(*snaps[i])
                            got_i = [int(dec.decode(model_at(k))) for k in range(i, min(i + 1, L))]
                            dec.seek(*snaps[j])
                            got_j = [int(dec.decode(model_at(k))) for k in range(j, L)]
                        except BaseException as e:
                            fail("Python front end | RangeDecoder.seek | seeking to a recorded position raises", f"{pname}, message {msg}, snapshots {i} then {j}: {type(e).__name__}: {str(e)[:100]}")
                            dec = RDEC(words)
                            continue
                        if got_i != msg[i:i + 1] or got_j != msg[j:]:
                            fail("Python front end | RangeDecoder.seek | decoding after seek does not resume at the recorded position", f"{pname}, message {msg}, snapshots {i} then {j}: {got_i} / {got_j}")
                # a clone taken in the middle of the stream continues like the original
                for i in range(L + 1):
                    d1 = RDEC(words)
                    for k in range(i):
                        d1.decode(model_at(k))
                    d2 = d1.clone()
                    r1 = [int(d1.decode(model_at(k))) for k in range(i, L)]
                    r2 = [int(d2.decode(model_at(k))) for k in range(i, L)]
                    if r1 != msg[i:] or r2 != msg[i:] or d1.maybe_exhausted() != d2.maybe_exhausted():
                        fail("Python front end | RangeDecoder.clone | the clone does not continue like the original", f"{pname}, message {msg}, cloned after {i} symbols: {r1} / {r2}")
                # a position beyond the data is refused and leaves the decoder usable
                try:
                    dec.seek(len(words) + 1, snaps[0][1])
                    fail("Python front end | RangeDecoder.seek | a position beyond the data is accepted", f"{pname}, message {msg}")
                except Exception as e:
                    counters["py_seek_refused"] += 1
                    if is_panic(e): fail("Python front end | RangeDecoder.seek | a position beyond the data panics", f"{pname}, message {msg}: {e}")
                except BaseException as e:
                    fail("Python front end | RangeDecoder.seek | a position beyond the data panics", f"{pname}, message {msg}: {e}")
                try:
                    dec.seek(*snaps[0])
                    if [int(dec.decode(model_at(k))) for k in range(L)] != msg:
                        fail("Python front end | RangeDecoder.seek | decoder unusable after a refused seek", f"{pname}, message {msg}")
                except BaseException as e:
                    fail("Python front end | RangeDecoder.seek | decoder unusable after a refused seek", f"{pname}, message {msg}: {e}")
                # --- ANS: snapshot i is taken when symbols i.. are on the stack; seeking consumes
                coder = ANS()
                asn = [None] * (L + 1)
                asn[L] = coder.pos()
                for i in range(L - 1, -1, -1):
                    coder.encode_reverse(msg[i], model_at(i))
                    asn[i] = coder.pos()
                words = coder.get_compressed()
                for i in range(L + 1):
                    for j in range(i, L + 1):
                        n += 1; counters["py_seek_pairs"] += 1
                        try:
                            c = ANS(words) if len(words) else ANS()
                            c.seek(*asn[i])
                            # (seeking consumes: after a decode only a LATER snapshot can be reached)
                            got_i = [int(c.decode(model_at(k))) for k in range(i, min(i + 1, L))] if j > i else msg[i:i + 1]
                            c.seek(*asn[j])
                            got_j = [int(c.decode(model_at(k))) for k in range(j, L)]
                            if got_i != msg[i:i + 1] or got_j != msg[j:]:
                                fail("Python front end | AnsCoder.seek | decoding after seek does not resume at the recorded position", f"{pname}, message {msg}, snapshots {i} then {j}: {got_i} / {got_j}")
                            if not c.is_empty():
                                fail("Python front end | AnsCoder.seek | coder not empty after decoding everything beyond the snapshot", f"{pname}, message {msg}, snapshots {i} then {j}")
                        except BaseException as e:
                            fail("Python front end | AnsCoder.seek | seeking forward to a recorded position raises", f"{pname}, message {msg}, snapshots {i} then {j}: {type(e).__name__}: {str(e)[:100]}")
                # backward / beyond the data: refused, coder unchanged
                c = ANS(words) if len(words) else ANS()
                before = c.get_compressed()
                try:
                    c.seek(len(words) + 1, asn[0][1])
                    fail("Python front end | AnsCoder.seek | a position beyond the data is accepted", f"{pname}, message {msg}")
                except Exception as e:
                    counters["py_seek_refused"] += 1
                    if is_panic(e): fail("Python front end | AnsCoder.seek | a position beyond the data panics", f"{pname}, message {msg}: {e}")
                except BaseException as e:
                    fail("Python front end | AnsCoder.seek | a position beyond the data panics", f"{pname}, message {msg}: {e}")
                if not np.array_equal(c.get_compressed(), before):
                    fail("Python front end | AnsCoder.seek | a refused seek changes the coder", f"{pname}, message {msg}")
    return n, failures, counters


def run_impossible(max_len):
    """C09 through the Python front end: impossible symbols at every position of every short message"""
    failures, n = [], 0
    counters = {"py_impossible_insertions": 0, "py_impossible_batches": 0}
    def fail(what, detail):
        if len([f for f in failures if f["what"] == what]) < 3:
            failures.append({"what": what, "detail": detail})
    models = [("categorical", M.Categorical(np.array([0.2, 0.5, 0.3]), perfect=False), [0, 1, 2], [3, -1, 2**24, 2**24 + 1, 2**31 - 1, -2**31, 256, 65536 + 1]),
              ("gaussian", M.QuantizedGaussian(-3, 3, 0.4, 1.3), [-3, 0, 3], [4, -4, 2**24 - 3, 2**31 - 1, -2**31]),
              ("uniform", M.Uniform(5), [0, 4], [5, -1, 2**24, 2**24 + 4, 2**31 - 1]),
              ("bernoulli", M.Bernoulli(0.3, perfect=False), [0, 1], [2, -1, 2**24, 2**24 + 1])]
    data = np.array([0x12345678, 0x9abcdef0, 0x0fedcba9, 0x13579bdf, 0x2468ace0, 0xdeadbeef], dtype=np.uint32)
    def coders():
        yield "AnsCoder", lambda: ANS(), lambda c, s, m, *a: c.encode_reverse(s, m, *a), lambda c: [int(x) for x in c.get_compressed()], lambda c, m, k: [int(x) for x in c.decode(m, k)]
        yield "RangeEncoder", lambda: RENC(), lambda c, s, m, *a: c.encode(s, m, *a), lambda c: ([int(x) for x in c.get_compressed()], c.pos()), lambda c, m, k: [int(x) for x in c.get_decoder().decode(m, k)]
        yield "ChainCoder", lambda: CHAIN(data, True, False), lambda c, s, m, *a: c.encode_reverse(s, m, *a), lambda c: [[int(x) for x in a] for a in c.get_remainders()], None
    with Quiet():
        for mname, model, sup, imps in models:
            for cname, make, enc, state, dec in coders():
                for msg in small_messages(sup[:2], max_len):
                    for pos in range(len(msg) + 1):
                        for imp in imps:
                            n += 1; counters["py_impossible_insertions"] += 1
                            c = make()
                            try:
                                for s_ in msg[:pos]:
                                    enc(c, s_, model)
                                before = state(c)
                                try:
                                    enc(c, imp, model)
                                    fail(f"Python front end | {cname} | impossible symbol is accepted", f"{mname}: symbol {imp} after {msg[:pos]}")
                                    continue
                                except KeyError:
                                    pass
                                except BaseException as e:
                                    fail(f"Python front end | {cname} | impossible symbol does not raise the documented KeyError", f"{mname}: symbol {imp} after {msg[:pos]}: {type(e).__name__}: {str(e)[:100]}")
                                    continue
                                if state(c) != before:
                                    fail(f"Python front end | {cname} | refused symbol changes the coder", f"{mname}: symbol {imp} after {msg[:pos]}")
                                for s_ in msg[pos:]:
                                    enc(c, s_, model)
                                if dec is not None:
                                    want = msg[::-1] if cname == "AnsCoder" else msg
                                    got = dec(c, model, len(msg)) if len(msg) else []
                                    if got != want:
                                        fail(f"Python front end | {cname} | history with a refused symbol does not round-trip", f"{mname}: {msg} with {imp} refused at {pos}: {got}")
                            except BaseException as e:
                                fail(f"Python front end | {cname} | history with a refused symbol raises", f"{mname}: {msg} with {imp} at {pos}: {type(e).__name__}: {str(e)[:100]}")
                # batches with per-symbol parameters that contain an impossible symbol (Gaussian family): KeyError, and
                # the coder holds exactly the symbols coded before the refusal
                if mname == "gaussian":
                    famg = M.QuantizedGaussian(-3, 3)
                    mus, sds = np.array([0.4, -1.2, 2.0, 0.0]), np.array([1.3, 0.5, 3.0, 0.8])
                    for msg in small_messages([-3, 0], min(max_len, 3)):
                        for pos in range(len(msg) + 1):
                            n += 1; counters["py_impossible_batches"] += 1
                            batch = msg[:pos] + [imps[0]] + msg[pos:]
                            kk = len(batch)
                            c = make()
                            try:
                                try:
                                    enc(c, np.array(batch, dtype=np.int32), famg, mus[:kk], sds[:kk])
                                    fail(f"Python front end | {cname} | batch with per-symbol parameters and an impossible symbol is accepted", f"{batch}")
                                    continue
                                except KeyError:
                                    pass
                                ref = make()
                                if cname == "RangeEncoder":
                                    if pos: enc(ref, np.array(batch[:pos], dtype=np.int32), famg, mus[:pos], sds[:pos])
                                else:
                                    if kk - pos - 1: enc(ref, np.array(batch[pos + 1:], dtype=np.int32), famg, mus[pos + 1:kk], sds[pos + 1:kk])
                                # (what the property demands: earlier content intact, coder usable; whether the part of the batch
                                # that was coded before the refusal stays on the coder or the whole batch is rolled back is not specified)
                                if state(c) != state(ref) and state(c) != state(make()):
                                    fail(f"Python front end | {cname} | a refused batch with per-symbol parameters leaves neither the symbols coded before the refusal nor the coder as it was", f"{batch}")
                            except BaseException as e:
                                fail(f"Python front end | {cname} | batch with per-symbol parameters and an impossible symbol: undocumented failure", f"{batch}: {type(e).__name__}: {str(e)[:100]}")
                for msg in small_messages(sup[:2], min(max_len, 3)):
                    if cname != "ChainCoder":
                        break
                    for pos in range(len(msg) + 1):
                        n += 1; counters["py_impossible_batches"] += 1
                        batch = msg[:pos] + [imps[0]] + msg[pos:]
                        c = make(); ref = make()
                        try:
                            try:
                                enc(c, np.array(batch, dtype=np.int32), model)
                                fail("Python front end | ChainCoder | batch with an impossible symbol is accepted", f"{mname}: {batch}")
                                continue
                            except KeyError:
                                pass
                            if len(msg[pos:]):
                                enc(ref, np.array(msg[pos:], dtype=np.int32), model)
                            if state(c) != state(ref) and state(c) != state(make()):
                                fail("Python front end | ChainCoder | a refused batch leaves neither the symbols coded before the refusal nor the coder as it was", f"{mname}: batch {batch}")
                        except BaseException as e:
                            fail("Python front end | ChainCoder | batch with an impossible symbol: undocumented failure", f"{mname}: {batch}: {type(e).__name__}: {str(e)[:100]}")
                # batches with an impossible symbol: KeyError, and what is on the coder afterwards are the symbols that
                # precede the refused one in coding order
                if cname == "ChainCoder":
                    continue
                for msg in small_messages(sup[:2], min(max_len, 3)):
                    for pos in range(len(msg) + 1):
                        n += 1; counters["py_impossible_batches"] += 1
                        batch = msg[:pos] + [imps[0]] + msg[pos:]
                        c = make()
                        try:
                            try:
                                enc(c, np.array(batch, dtype=np.int32), model)
                                fail(f"Python front end | {cname} | batch with an impossible symbol is accepted", f"{mname}: {batch}")
                                continue
                            except KeyError:
                                pass
                            done = msg[pos:] if cname == "AnsCoder" else msg[:pos]   # coded before the refusal
                            ref = make()
                            if len(done):
                                enc(ref, np.array(done, dtype=np.int32), model)
                            same = state(c) == state(ref)
                            rolled_back = state(c) == state(make())
                            got = dec(c, model, len(done)) if len(done) and not rolled_back else ([] if rolled_back else [])
                            if not (rolled_back or (same and got == done)):
                                fail(f"Python front end | {cname} | a refused batch leaves neither the symbols coded before the refusal nor the coder as it was", f"{mname}: batch {batch}: decodes {got}, expected {done}")
                        except BaseException as e:
                            fail(f"Python front end | {cname} | batch with an impossible symbol: undocumented failure", f"{mname}: {batch}: {type(e).__name__}: {str(e)[:100]}")
        # refused batches on a coder that ALREADY HOLDS DATA, with enough 23-bit symbols in the batch to emit words before the
        # refusal: afterwards the coder holds the earlier data plus either nothing or exactly the part of the batch that was
        # coded before the refusal - and the earlier data still decodes
        skew = M.Categorical(np.array([1e-7, 1.0 - 2e-7, 1e-7]), perfect=False)
        counters["py_impossible_batches_on_used_coders"] = 0
        for cname, make, enc, state, dec in coders():
            for prefix in ([0, 2], [2, 0, 2, 0, 1, 2]):
                for k_before in (0, 1, 3, 5):
                    for k_after in (0, 1, 3, 5):
                        n += 1; counters["py_impossible_batches_on_used_coders"] += 1
                        before_part = [0, 2, 0, 2, 2][:k_before]; after_part = [2, 0, 2, 0, 0][:k_after]
                        batch = before_part + [7] + after_part
                        try:
                            c = make(); enc(c, np.array(prefix, dtype=np.int32), skew)
                            only_prefix = state(c)
                            try:
                                enc(c, np.array(batch, dtype=np.int32), skew)
                                fail(f"Python front end | {cname} | batch with an impossible symbol is accepted", f"skewed table: {batch}")
                                continue
                            except KeyError:
                                pass
                            done = after_part if cname != "RangeEncoder" else before_part   # coded before the refusal
                            ref = make(); enc(ref, np.array(prefix, dtype=np.int32), skew)
                            if len(done):
                                enc(ref, np.array(done, dtype=np.int32), skew)
                            st = state(c)
                            if st != only_prefix and st != state(ref):
                                fail(f"Python front end | {cname} | a refused batch on a coder that already holds data leaves neither the earlier data alone nor the earlier data plus the part coded before the refusal", f"prefix {prefix}, batch {batch}")
                            elif dec is not None:
                                kept = done if st == state(ref) and st != only_prefix else []
                                want = (kept + prefix) if cname == "AnsCoder" else (prefix + kept)
                                got = dec(c, skew, len(want)) if len(want) else []
                                if got != want:
                                    fail(f"Python front end | {cname} | data encoded before a refused batch no longer decodes", f"prefix {prefix}, batch {batch}: {got} instead of {want}")
                        except BaseException as e:
                            fail(f"Python front end | {cname} | batch with an impossible symbol on a used coder: undocumented failure", f"prefix {prefix}, batch {batch}: {type(e).__name__}: {str(e)[:100]}")
    return n, failures, counters


def run_sizes(max_len):
    """C08 / C18 through the Python front end: size queries vs the export, inspections change nothing"""
    failures, n = [], 0
    counters = {"py_size_nodes": 0}
    def fail(what, detail):
        if len([f for f in failures if f["what"] == what]) < 3:
            failures.append({"what": what, "detail": detail})
    cat = M.Categorical(np.array([0.2, 0.5, 0.3]), perfect=False)
    skew = M.Categorical(np.array([1e-7, 1.0 - 2e-7, 1e-7]), perfect=False)
    with Quiet():
        for msg in small_messages([0, 1, 2], max_len):
            for model in (cat, skew):
                n += 1; counters["py_size_nodes"] += 1
                a, a2 = ANS(), ANS()
                r, r2 = RENC(), RENC()
                for s_ in msg:
                    a.encode_reverse(s_, model); a2.encode_reverse(s_, model)
                    r.encode(s_, model); r2.encode(s_, model)
                    # inspect one twin between the symbols
                    a.get_compressed(); a.num_words(); a.num_bits(); a.num_valid_bits(); a.is_empty(); a.pos(); a.clone()
                    r.get_compressed(); r.num_words(); r.num_bits(); r.is_empty(); r.pos(); r.clone(); r.get_decoder()
                    a, r = a.clone(), r.clone()     # (go on with the clones: a clone is the coder)
                for name, c, twin in (("AnsCoder", a, a2), ("RangeEncoder", r, r2)):
                    w = c.get_compressed()
                    if not np.array_equal(w, twin.get_compressed()):
                        fail(f"Python front end | {name} | inspections between symbols change the output", f"message {msg}")
                    if c.num_words() != len(w) or c.num_bits() != 32 * len(w) or c.is_empty() != (len(w) == 0):
                        fail(f"Python front end | {name} | num_words / num_bits / is_empty disagree with get_compressed", f"message {msg}: {c.num_words()}, {c.num_bits()}, {c.is_empty()} vs {len(w)} words")
                    if not np.array_equal(c.get_compressed(), w):
                        fail(f"Python front end | {name}.get_compressed | second call returns something else", f"message {msg}")
                if len(msg):
                    d = r.get_decoder()
                    out = [int(x) for x in d.decode(model, len(msg))]
                    if out != msg:
                        fail("Python front end | RangeEncoder.get_decoder | does not decode the message", f"{msg}: {out}")
                    if not d.maybe_exhausted():
                        fail("Python front end | RangeDecoder.maybe_exhausted | false after decoding exactly the encoded symbols", f"message {msg}")
                    vb = a.num_valid_bits()
                    # (the top word of the 64-bit state holds the marker bit and up to 31 payload bits: num_bits - 32 <= valid < num_bits)
                    if (vb >= a.num_bits() or vb + 32 < a.num_bits()) and not (vb == 0 and a.num_bits() == 0):
                        fail("Python front end | AnsCoder.num_valid_bits | outside [num_bits - 32, num_bits)", f"message {msg}: {vb} vs {a.num_bits()}")
                a.clear(); r.clear()
                if not a.is_empty() or not r.is_empty() or len(a.get_compressed()) or len(r.get_compressed()):
                    fail("Python front end | clear | coder not empty afterwards", f"message {msg}")
        # coders loaded from words: raw binary data of every length (also ending in zero words) and compressed data
        for w in word_strings(0, min(max_len, 3)):
            n += 1; counters["py_size_nodes"] += 1
            try:
                c = ANS(w, True)
                if c.num_valid_bits() != 32 * len(w):
                    fail("Python front end | AnsCoder(words, seal=True).num_valid_bits | not the size of the data", f"words {[hex(int(x)) for x in w]}: {c.num_valid_bits()}")
                full = c.get_compressed()
                if c.num_words() != len(full) or c.num_bits() != 32 * len(full) or c.is_empty() != (len(full) == 0):
                    fail("Python front end | AnsCoder(words, seal=True) | num_words / num_bits / is_empty disagree with get_compressed", f"words {[hex(int(x)) for x in w]}: {c.num_words()}, {c.num_bits()}, {c.is_empty()} vs {len(full)} words")
                if len(c.get_compressed(unseal=True)) != len(w):
                    fail("Python front end | AnsCoder(words, seal=True).get_compressed(unseal=True) | not as long as the data", f"words {[hex(int(x)) for x in w]}")
                if len(w) and w[-1] != 0:
                    c = ANS(w)
                    if c.num_words() != len(w) or c.num_bits() != 32 * len(w) or c.is_empty() or not (32 * (len(w) - 1) < c.num_valid_bits() + 1 <= 32 * len(w)):
                        fail("Python front end | AnsCoder(words) | num_words / num_bits / num_valid_bits / is_empty disagree with the words", f"words {[hex(int(x)) for x in w]}: {c.num_words()}, {c.num_bits()}, {c.num_valid_bits()}, {c.is_empty()}")
                    d = RDEC(w)
                    if d.maybe_exhausted() and len(w) > 2:
                        fail("Python front end | RangeDecoder(words).maybe_exhausted | true although whole words are unread", f"words {[hex(int(x)) for x in w]}")
            except BaseException as e:
                fail("Python front end | size queries of a coder loaded from words | raises", f"words {[hex(int(x)) for x in w]}: {type(e).__name__}: {str(e)[:100]}")
    return n, failures, counters


def huffman_reference_cost(weights):
    import heapq
    h = list(weights); heapq.heapify(h); cost = 0.0
    while len(h) > 1:
        x, y = heapq.heappop(h), heapq.heappop(h); cost += x + y; heapq.heappush(h, x + y)
    return cost


def huffman_reference_lengths(weights):
    """code lengths of the Huffman code with ties broken by node index (leaves 0..n-1 in symbol order, then inner
    nodes in the order of their creation) - the rule the documentation promises"""
    import heapq
    n = len(weights)
    h = [(w, i) for i, w in enumerate(weights)]
    heapq.heapify(h)
    parent = {}
    nxt = n
    while len(h) > 1:
        a = heapq.heappop(h); b = heapq.heappop(h)
        parent[a[1]] = nxt; parent[b[1]] = nxt
        heapq.heappush(h, (a[0] + b[0], nxt)); nxt += 1
    out = []
    for i in range(n):
        d, x = 0, i
        while x in parent:
            x = parent[x]; d += 1
        out.append(d)
    return out


def run_symbol(max_len):
    """C15 / C16 through the Python front end: Huffman trees from every short weight vector, stack and queue coders"""
    failures, n = [], 0
    counters = {"py_huffman_books": 0, "py_symbol_messages": 0, "py_huffman_refused": 0}
    def fail(what, detail):
        if len([f for f in failures if f["what"] == what]) < 3:
            failures.append({"what": what, "detail": detail})
    S = constriction.symbol
    H = S.huffman
    letters = [0.0, 1.0, 2.0, 3.0, 0.5, 1e-30, -1.0, float("nan"), float("inf")]
    # longer vectors of small integers: sums of subtrees tie with single weights (2 + 3 == 5)
    tied = [tuple(float(x) for x in t) for kk in (4, 5) for t in itertools.product([1, 2, 3, 4, 5], repeat=kk)] if max_len >= 3 else []
    if max_len >= 4:
        tied += [tuple(float(x) for x in t) for t in itertools.product([1, 2, 4, 7], repeat=6)]
    with Quiet():
        for kk in list(range(1, max_len + 1)) + [0]:
            for wts in (itertools.product(letters, repeat=kk) if kk else tied):
                k = len(wts)
                for dt in (np.float32, np.float64):
                    n += 1
                    arr = np.array(wts, dtype=dt)
                    try:
                        eb, db = H.EncoderHuffmanTree(arr), H.DecoderHuffmanTree(arr)
                    except BaseException as e:
                        counters["py_huffman_refused"] += 1
                        if all(math.isfinite(x) and x >= 0 for x in wts):
                            fail("Python front end | HuffmanTree(probabilities) | valid weights are refused", f"{wts}: {type(e).__name__}: {str(e)[:100]}")
                        continue
                    counters["py_huffman_books"] += 1
                    # codeword lengths through the stack coder
                    lens = []
                    for sym in range(k):
                        st = S.StackCoder(); st.encode_symbol(sym, eb)
                        w, bits = st.get_compressed_and_bitrate()
                        lens.append(bits)
                        q = S.QueueEncoder(); q.encode_symbol(sym, eb)
                        qw, qbits = q.get_compressed_and_bitrate()
                        if qbits != bits:
                            fail("Python front end | Huffman code | stack and queue coder disagree on the codeword length", f"{wts}, symbol {sym}: {bits} vs {qbits}")
                    if k >= 2:
                        kraft = sum(2.0 ** -l for l in lens)
                        if kraft != 1.0 or min(lens) < 1:
                            fail("Python front end | Huffman code | Kraft sum is not one", f"{wts}: lengths {lens}")
                        # exact tie-breaking: the lengths are those of the (weight, index) rule, computed on the values
                        # the constructor received (in the array's own precision)
                        if all(math.isfinite(x) and x >= 0 for x in wts):
                            ref_lens = huffman_reference_lengths([arr.dtype.type(x) for x in arr])
                            if ref_lens != lens:
                                fail("Python front end | Huffman code | ties are not broken by symbol index (code lengths differ from the (weight, index) rule)", f"{wts} as {arr.dtype}: lengths {lens}, rule gives {ref_lens}")
                        cost = sum(float(arr[i]) * lens[i] for i in range(k))
                        ref = huffman_reference_cost([float(x) for x in arr]) if all(math.isfinite(x) and x >= 0 for x in wts) else cost
                        if abs(cost - ref) > 1e-6 * max(ref, 1e-300) + 1e-30:
                            fail("Python front end | Huffman code | not optimal", f"{wts}: lengths {lens} cost {cost}, optimum {ref}")
                    if kk == 0:
                        continue    # (the long tied vectors are there for the code lengths only)
                    # every message of up to 3 symbols over the alphabet (capped at 3 letters) through both coders
                    alpha = list(range(min(k, 3)))
                    for msg in small_messages(alpha, 3):
                        counters["py_symbol_messages"] += 1
                        st = S.StackCoder(); q = S.QueueEncoder()
                        for s_ in msg:
                            st.encode_symbol(s_, eb); q.encode_symbol(s_, eb)
                        # twins that are inspected between the symbols (C08)
                        st_i = S.StackCoder(); q_i = S.QueueEncoder()
                        for s_ in msg:
                            st_i.get_compressed_and_bitrate(); q_i.get_compressed_and_bitrate(); q_i.get_decoder()
                            st_i.encode_symbol(s_, eb); q_i.encode_symbol(s_, eb)
                            st_i.get_compressed_and_bitrate(); q_i.get_decoder(); q_i.get_compressed_and_bitrate()
                        for nm, x, y in (("StackCoder", st_i, st), ("QueueEncoder", q_i, q)):
                            (w1, b1), (w2, b2) = x.get_compressed_and_bitrate(), y.get_compressed_and_bitrate()
                            if b1 != b2 or not np.array_equal(w1, w2):
                                fail(f"Python front end | symbol.{nm} | inspections between symbols (get_compressed_and_bitrate, get_decoder) change the output", f"{wts}, {msg}: {list(w1)}/{b1} vs {list(w2)}/{b2}")
                        w, bits = st.get_compressed_and_bitrate()
                        if bits != sum(lens[s_] for s_ in msg):
                            fail("Python front end | StackCoder.get_compressed_and_bitrate | bit rate is not the sum of the codeword lengths", f"{wts}, {msg}: {bits}")
                        st2 = S.StackCoder(w) if len(w) else S.StackCoder()
                        try:
                            got = [st2.decode_symbol(db) for _ in msg]
                        except BaseException as e:
                            got = repr(e)
                        # a single-symbol alphabet has zero-length codewords: nothing to decode from
                        if got != msg[::-1] and not (k == 1):
                            fail("Python front end | StackCoder | exported and re-imported stack does not pop the symbols in reverse order", f"{wts}, {msg}: {got}")
                        qd = q.get_decoder()
                        try:
                            got = [qd.decode_symbol(db) for _ in msg]
                        except BaseException as e:
                            got = repr(e)
                        if got != msg and not (k == 1):
                            fail("Python front end | QueueEncoder/QueueDecoder | symbols do not come back in order", f"{wts}, {msg}: {got}")
                        qw, _ = q.get_compressed_and_bitrate()
                        qd2 = S.QueueDecoder(qw)
                        try:
                            got = [qd2.decode_symbol(db) for _ in msg]
                        except BaseException as e:
                            got = repr(e)
                        if got != msg and not (k == 1):
                            fail("Python front end | QueueDecoder(words) | symbols do not come back in order", f"{wts}, {msg}: {got}")
                    # symbols outside the alphabet are refused and leave the coder as it was
                    for bad in (k, k + 1, 2**31, 2**40):
                        st = S.StackCoder(); st.encode_symbol(0, eb)
                        before = st.get_compressed_and_bitrate()
                        try:
                            st.encode_symbol(bad, eb)
                            fail("Python front end | StackCoder.encode_symbol | symbol outside the Huffman alphabet is accepted", f"{wts}: symbol {bad}")
                        except Exception as e:
                            if is_panic(e): fail("Python front end | StackCoder.encode_symbol | symbol outside the Huffman alphabet panics", f"{wts}: symbol {bad}: {str(e)[:100]}")
                        except BaseException as e:
                            fail("Python front end | StackCoder.encode_symbol | symbol outside the Huffman alphabet panics", f"{wts}: symbol {bad}: {str(e)[:100]}")
                        after = st.get_compressed_and_bitrate()
                        if before[1] != after[1] or not np.array_equal(before[0], after[0]):
                            fail("Python front end | StackCoder.encode_symbol | refused symbol changes the coder", f"{wts}: symbol {bad}")
                        q = S.QueueEncoder(); q.encode_symbol(0, eb)
                        before = q.get_compressed_and_bitrate()
                        try:
                            q.encode_symbol(bad, eb)
                            fail("Python front end | QueueEncoder.encode_symbol | symbol outside the Huffman alphabet is accepted", f"{wts}: symbol {bad}")
                        except Exception as e:
                            if is_panic(e): fail("Python front end | QueueEncoder.encode_symbol | symbol outside the Huffman alphabet panics", f"{wts}: symbol {bad}: {str(e)[:100]}")
                        except BaseException as e:
                            fail("Python front end | QueueEncoder.encode_symbol | symbol outside the Huffman alphabet panics", f"{wts}: symbol {bad}: {str(e)[:100]}")
                        after = q.get_compressed_and_bitrate()
                        if before[1] != after[1] or not np.array_equal(before[0], after[0]):
                            fail("Python front end | QueueEncoder.encode_symbol | refused symbol changes the coder", f"{wts}: symbol {bad}")
                    if k >= 2:
                        # reading beyond the data: the documented ValueError, again and again
                        q = S.QueueEncoder(); q.encode_symbol(1, eb); qd = q.get_decoder(); st = S.StackCoder(); st.encode_symbol(1, eb)
                        for nm, c in (("QueueDecoder", qd), ("StackCoder", st)):
                            outs = []
                            for _ in range(40):
                                try:
                                    outs.append(c.decode_symbol(db))
                                except ValueError:
                                    outs.append("end")
                                except BaseException as e:
                                    outs.append(type(e).__name__)
                            if outs[0] != 1 or "end" not in outs or any(o != "end" for o in outs[outs.index("end"):]) or any(isinstance(o, str) and o != "end" for o in outs):
                                fail(f"Python front end | symbol.{nm}.decode_symbol | reading beyond the data is not reported with the documented ValueError, persistently", f"{wts}: {outs[:12]}")
        for w in word_strings(1, 2, [0, 1, 0x80000000, 0xffffffff]):
            n += 1
            try:
                S.StackCoder(w)
                if w[-1] == 0:
                    fail("Python front end | symbol.StackCoder(words) | words ending in a zero word are accepted", f"{[hex(int(x)) for x in w]}")
            except ValueError:
                if w[-1] != 0:
                    fail("Python front end | symbol.StackCoder(words) | valid words are refused", f"{[hex(int(x)) for x in w]}")
            except BaseException as e:
                fail("Python front end | symbol.StackCoder(words) | panics", f"{[hex(int(x)) for x in w]}: {e}")
    return n, failures, counters


def history_models():
    """keys -> (concrete model, family, per-symbol parameter row)"""
    g = [(0.4, 1.3), (-1.2, 0.5)]
    c = [[0.2, 0.5, 0.3], [0.6, 0.3, 0.1]]
    ms = {}
    for i, (mu, sd) in enumerate(g):
        ms[("g", i)] = (M.QuantizedGaussian(-3, 3, mu, sd), "g", (mu, sd))
    for i, t in enumerate(c):
        ms[("c", i)] = (M.Categorical(np.array(t), perfect=False), "c", t)
    fams = {"g": M.QuantizedGaussian(-3, 3), "c": M.Categorical(perfect=False)}
    def params(f, keys):
        if f == "g":
            return (np.array([ms[k][2][0] for k in keys]), np.array([ms[k][2][1] for k in keys]))
        return (np.array([ms[k][2] for k in keys], dtype=np.float64),)
    return ms, fams, params


def run_ans_histories(depth):
    """C01 through the Python front end: every history of pushes (3 call forms), pops (3 call forms), reloads and
    clones up to the given depth on AnsCoder, from the empty coder and from imported words; oracle: a Python list"""
    ms, fams, params = history_models()
    keys = list(ms)
    failures = []
    counters = {"py_ans_history_nodes": 0, "py_ans_history_pops": 0, "py_ans_history_reloads": 0, "py_ans_histories_drained": 0}
    def fail(what, detail):
        if len([f for f in failures if f["what"] == what]) < 3:
            failures.append({"what": what, "detail": detail})
    pushes = []
    for k in keys:
        for s_ in (0, 1):
            pushes.append((f"push {s_} with {k}", "one", [s_], [k]))
        pushes.append((f"push [0, 1, 1] iid with {k}", "iid", [0, 1, 1], [k, k, k]))
    for f in ("g", "c"):
        pushes.append((f"push [1, 0] with per-symbol parameters of family {f}", "par", [1, 0], [(f, 0), (f, 1)]))
        pushes.append((f"push [2] with per-symbol parameters of family {f} (one row)", "par", [2], [(f, 1)]))
    def apply_push(c, form, syms, ks):
        if form == "one":
            c.encode_reverse(syms[0], ms[ks[0]][0])
        elif form == "iid":
            c.encode_reverse(np.array(syms, dtype=np.int32), ms[ks[0]][0])
        else:
            c.encode_reverse(np.array(syms, dtype=np.int32), fams[ks[0][0]], *params(ks[0][0], ks))
    def drain(c, ref, init, hist):
        """pop everything one symbol at a time, then the words must be the initial ones"""
        for (s_, k) in reversed(ref):
            got = int(c.decode(ms[k][0]))
            if got != s_:
                fail("Python front end | AnsCoder | a pop does not return the most recent push", f"history {hist}: expected {s_} ({k}), got {got}")
                return
        w = c.get_compressed()
        if not np.array_equal(w, init):
            fail("Python front end | AnsCoder | after popping everything the words are not what they were before the pushes", f"history {hist}: {[hex(int(x)) for x in w]} vs {[hex(int(x)) for x in init]}")
        counters["py_ans_histories_drained"] += 1
    def rec(c, ref, init, hist, d):
        counters["py_ans_history_nodes"] += 1
        drain(c.clone(), ref, init, hist)
        if d == 0 or len(failures) > 30:
            return
        for name, form, syms, ks in pushes:
            c2 = c.clone()
            apply_push(c2, form, syms, ks)
            # an array is pushed in reverse: its first symbol ends up on top
            rec(c2, ref + list(zip(reversed(syms), reversed(ks))), init, hist + [name], d - 1)
        if ref:
            s_, k = ref[-1]
            c2 = c.clone()
            got = int(c2.decode(ms[k][0]))
            counters["py_ans_history_pops"] += 1
            if got != s_:
                fail("Python front end | AnsCoder.decode(model) | does not return the most recent push", f"history {hist}: expected {s_}, got {got}")
            else:
                rec(c2, ref[:-1], init, hist + ["pop one"], d - 1)
        if len(ref) >= 2 and ref[-1][1] == ref[-2][1]:
            c2 = c.clone()
            got = [int(x) for x in c2.decode(ms[ref[-1][1]][0], 2)]
            counters["py_ans_history_pops"] += 1
            if got != [ref[-1][0], ref[-2][0]]:
                fail("Python front end | AnsCoder.decode(model, 2) | does not return the two most recent pushes, most recent first", f"history {hist}: expected {[ref[-1][0], ref[-2][0]]}, got {got}")
            else:
                rec(c2, ref[:-2], init, hist + ["pop 2 iid"], d - 1)
        if len(ref) >= 2 and ref[-1][1][0] == ref[-2][1][0]:
            f = ref[-1][1][0]
            c2 = c.clone()
            got = [int(x) for x in c2.decode(fams[f], *params(f, [ref[-1][1], ref[-2][1]]))]
            counters["py_ans_history_pops"] += 1
            if got != [ref[-1][0], ref[-2][0]]:
                fail("Python front end | AnsCoder.decode(family, parameter arrays) | does not return the two most recent pushes with their own models", f"history {hist}: expected {[ref[-1][0], ref[-2][0]]}, got {got}")
            else:
                rec(c2, ref[:-2], init, hist + ["pop 2 with parameters"], d - 1)
        if (ref or len(init)) and hist[-1] != "clear":
            c2 = c.clone(); c2.clear()
            rec(c2, [], np.array([], dtype=np.uint32), hist + ["clear"], d - 1)
        if hist and hist[-1] != "reload":
            w = c.get_compressed()
            counters["py_ans_history_reloads"] += 1
            try:
                c2 = ANS(w) if len(w) else ANS()
            except BaseException as e:
                fail("Python front end | AnsCoder(get_compressed()) | exported words are refused", f"history {hist}: {e}")
                return
            rec(c2, ref, init, hist + ["reload"], d - 1)
    with Quiet():
        for init in ([], [0x12345678, 0x9abcdef1], [1], [0xffffffff, 0xffffffff, 0xffffffff]):
            init = np.array(init, dtype=np.uint32)
            try:
                rec(ANS(init) if len(init) else ANS(), [], init, [f"start from {[hex(int(x)) for x in init]}"], depth)
            except BaseException as e:
                fail("Python front end | AnsCoder | a valid history raises", f"{type(e).__name__}: {str(e)[:160]}")
    return counters["py_ans_history_nodes"], failures, counters


def run_range_histories(depth):
    """C02 through the Python front end: every sequence of encode calls (3 call forms) up to the given depth; at every
    node the words are decoded through get_decoder() and RangeDecoder(get_compressed()) in the call forms of the
    encoder and one symbol at a time"""
    ms, fams, params = history_models()
    keys = list(ms)
    # a skewed table (24-bit and near-zero-bit symbols): words are emitted at irregular boundaries and the encoder gets
    # into the situation in which finished words are held back for a carry; every node below is reached through clone()
    skew_t = [1e-7, 1.0 - 2e-7, 1e-7]
    ms[("s", 0)] = (M.Categorical(np.array(skew_t), perfect=False), "c", skew_t)
    failures = []
    counters = {"py_range_history_nodes": 0, "py_range_history_decodes": 0}
    def fail(what, detail):
        if len([f for f in failures if f["what"] == what]) < 3:
            failures.append({"what": what, "detail": detail})
    steps = []
    for k in keys:
        for s_ in (0, 1):
            steps.append((f"encode {s_} with {k}", "one", [s_], [k]))
        steps.append((f"encode [0, 1, 1] iid with {k}", "iid", [0, 1, 1], [k, k, k]))
    for f in ("g", "c"):
        steps.append((f"encode [1, 0] with per-symbol parameters of family {f}", "par", [1, 0], [(f, 0), (f, 1)]))
        steps.append((f"encode [2] with per-symbol parameters of family {f} (one row)", "par", [2], [(f, 1)]))
        steps.append((f"encode [] with per-symbol parameters of family {f} (no rows)", "par", [], []))
    steps.append(("encode [] iid", "iid", [], [keys[0]]))
    for s_ in (0, 1, 2):
        steps.append((f"encode {s_} with the skewed table", "one", [s_], [("s", 0)]))
    def check(enc, segs, hist):
        msg = [(s_, k) for (_, syms, ks) in segs for s_, k in zip(syms, ks)]
        for dname, dec in (("get_decoder()", enc.get_decoder()), ("RangeDecoder(get_compressed())", RDEC(enc.get_compressed()))):
            counters["py_range_history_decodes"] += 1
            try:
                got = [int(dec.decode(ms[k][0])) for (_, k) in msg]
            except BaseException as e:
                got = repr(e)
            if got != [s_ for s_, _ in msg]:
                fail(f"Python front end | RangeEncoder -> {dname} | decoding one symbol at a time does not give the message", f"history {hist}: {got}")
        dec = RDEC(enc.get_compressed())
        got = []
        try:
            for form, syms, ks in segs:
                if form == "one":
                    got.append(int(dec.decode(ms[ks[0]][0])))
                elif form == "iid":
                    got += [int(x) for x in dec.decode(ms[ks[0]][0], len(syms))]
                elif len(ks):
                    got += [int(x) for x in dec.decode(fams[ks[0][0]], *params(ks[0][0], ks))]
        except BaseException as e:
            got = repr(e)
        counters["py_range_history_decodes"] += 1
        if got != [s_ for s_, _ in msg]:
            fail("Python front end | RangeEncoder -> RangeDecoder | decoding in the call forms of the encoder does not give the message", f"history {hist}: {got}")
    def rec(enc, segs, hist, d):
        counters["py_range_history_nodes"] += 1
        check(enc, segs, hist)
        if d == 0 or len(failures) > 30:
            return
        for name, form, syms, ks in steps:
            e2 = enc.clone()
            try:
                if form == "one":
                    e2.encode(syms[0], ms[ks[0]][0])
                elif form == "iid":
                    e2.encode(np.array(syms, dtype=np.int32), ms[ks[0]][0])
                else:
                    f = ks[0][0] if ks else name.split("family ")[1][0]
                    pr = params(f, ks) if ks else ((np.zeros(0), np.zeros(0)) if f == "g" else (np.zeros((0, 3)),))
                    e2.encode(np.array(syms, dtype=np.int32), fams[f], *pr)
            except BaseException as e:
                fail("Python front end | RangeEncoder.encode | a valid call raises", f"history {hist + [name]}: {type(e).__name__}: {str(e)[:120]}")
                continue
            rec(e2, segs + [(form, syms, ks)], hist + [name], d - 1)
        # clear(): an encoder that was used (also one that is holding back words for a carry) becomes a fresh one
        if segs and hist[-1] != "clear":
            e2 = enc.clone(); e2.clear()
            if not e2.is_empty() or len(e2.get_compressed()):
                fail("Python front end | RangeEncoder.clear | the encoder is not empty afterwards", f"history {hist}")
            rec(e2, [], hist + ["clear"], d - 1)
    with Quiet():
        rec(RENC(), [], [], depth)
    return counters["py_range_history_nodes"], failures, counters


def run_callbacks(level):
    """C03 through the Python front end: CustomModel / ScipyModel with well-formed cdfs and ARBITRARY approximate
    inverses (the documentation: 'only used to speed up the function inversion'): exactly invertible, whole support
    encodable, arbitrary words decode into the support and re-encode to themselves"""
    import scipy.stats
    failures, n = [], 0
    counters = {"py_callback_models": 0, "py_callback_symbols_round_tripped": 0, "py_callback_words_inverted": 0}
    def fail(what, detail):
        if len([f for f in failures if f["what"] == what]) < 3:
            failures.append({"what": what, "detail": detail})
    def logistic(loc, scale):
        return lambda x, *a: 1.0 / (1.0 + math.exp(-max(min((x - loc) / scale, 700.0), -700.0)))
    cdfs = [("logistic(0.3, 1.7)", logistic(0.3, 1.7)), ("logistic(-40, 0.01)", logistic(-40.0, 0.01)), ("logistic(1e6, 3)", logistic(1e6, 3.0)),
            ("step at 0.5", lambda x, *a: 0.0 if x < 0.5 else 1.0), ("constant 0", lambda x, *a: 0.0), ("constant 1", lambda x, *a: 1.0), ("constant 0.5", lambda x, *a: 0.5),
            ("linear on [-5, 5]", lambda x, *a: min(max((x + 5.0) / 10.0, 0.0), 1.0))]
    def exact_logit(loc, scale):
        return lambda xi, *a: loc + scale * math.log(max(xi, 1e-300) / max(1.0 - xi, 1e-300))
    hints = [("exact-ish", exact_logit(0.3, 1.7)), ("constant 0", lambda xi, *a: 0.0), ("constant -1e9", lambda xi, *a: -1e9), ("constant 1e9", lambda xi, *a: 1e9),
             ("shifted by 1000", lambda xi, *a: exact_logit(0.3, 1.7)(xi) + 1000.0), ("nan", lambda xi, *a: float("nan")), ("inf", lambda xi, *a: float("inf")), ("-inf", lambda xi, *a: float("-inf"))]
    # (a support of more than 2^24 symbols cannot be given non-zero probabilities at 24 bits: a documented refusal)
    supports = [(-5, 5), (0, 1), (-100, 100), (-2**20, 2**20), (2**31 - 3, 2**31 - 1)] + ([(-2**31, -2**31 + 1), (2**31 - 2**23, 2**31 - 1), (-2**31, -2**31 + 2**23), (-2**23, 2**23 - 2)] if level >= 1 else [])
    words_list = [np.array(w, dtype=np.uint32) for w in ([0x12345678, 0x9abcdef0, 0x0fedcba9], [0, 0, 1], [0xffffffff] * 3, [1, 0x80000000])]
    def judge(name, model, lo, hi):
        counters["py_callback_models"] += 1
        span = hi - lo
        syms = sorted(set([lo, hi, lo + 1, hi - 1, lo + span // 2, lo + span // 3] + ([0, 1, -1] if lo <= -1 and hi >= 1 else []) + (list(range(lo, hi + 1)) if span <= 20 else [])))
        syms = [x for x in syms if lo <= x <= hi]
        for s_ in syms:
            c = ANS(); c.encode_reverse(s_, model)
            got = int(c.decode(model))
            counters["py_callback_symbols_round_tripped"] += 1
            if got != s_ or not c.is_empty():
                fail("Python front end | CustomModel / ScipyModel | a symbol of the support does not round-trip", f"{name}: {s_} -> {got}")
                return
        arr = np.array(syms, dtype=np.int32)
        r = RENC(); r.encode(arr, model)
        got = r.get_decoder().decode(model, len(arr))
        if not np.array_equal(got, arr):
            fail("Python front end | CustomModel / ScipyModel | range coder round trip over the support fails", f"{name}: {list(arr)} -> {list(got)}")
        for w in words_list:
            c = ANS(w, True)
            out = c.decode(model, 3)
            if any(int(o) < lo or int(o) > hi for o in out):
                fail("Python front end | CustomModel / ScipyModel | arbitrary words decode to a symbol outside the support", f"{name}: {list(out)}")
                continue
            c.encode_reverse(out, model)
            counters["py_callback_words_inverted"] += 1
            if not np.array_equal(c.get_compressed(unseal=True), w):
                fail("Python front end | CustomModel / ScipyModel | not exactly invertible: decoding arbitrary words and re-encoding does not restore them", f"{name}: words {[hex(int(x)) for x in w]} decode to {list(out)}")
    with Quiet():
        i = 0
        for cname, cdf in cdfs:
            for hname, hint in hints:
                for lo, hi in supports:
                    i += 1; n += 1
                    name = f"CustomModel(cdf = {cname}, approximate inverse = {hname}, {lo}, {hi})"
                    try:
                        judge(name, M.CustomModel(cdf, hint, lo, hi), lo, hi)
                    except BaseException as e:
                        fail("Python front end | CustomModel | a well-formed cdf with an arbitrary approximate inverse is refused or fails", f"{name}: {type(e).__name__}: {str(e)[:140]}")
        # a cdf / inverse may return any Python number: exact ints at the tails, numpy float32 / float64 scalars, bools.
        # Whatever the binding accepts must mean the same number (a refusal is fine as well)
        counters["py_callback_number_types"] = 0
        def step_cdf(x, *a):   # values exactly representable in float32
            return 0.0 if x < -2.5 else 0.25 if x < -0.5 else 0.5 if x < 0.5 else 0.75 if x < 2.5 else 1.0
        ref_model = M.CustomModel(step_cdf, lambda xi, *a: 0.0, -5, 5)
        msg_nt = np.array([-5, -3, -1, 0, 1, 3, 5, 0], dtype=np.int32)
        def words_for(model):
            a_ = ANS(); a_.encode_reverse(msg_nt, model); r_ = RENC(); r_.encode(msg_nt, model)
            return [int(x) for x in a_.get_compressed()], [int(x) for x in r_.get_compressed()], [int(x) for x in ANS(words_list[0], True).decode(model, 4)]
        want_nt = words_for(ref_model)
        conv = [("numpy.float32", np.float32), ("numpy.float64", np.float64), ("int where the value is integral", lambda v: int(v) if float(v).is_integer() else v),
                ("bool where the value is 0 or 1", lambda v: bool(v) if v in (0.0, 1.0) else v), ("numpy.float16", np.float16), ("fractions.Fraction", None)]
        import fractions
        for tname, f in conv:
            if f is None:
                f = lambda v: fractions.Fraction(v)
            for which in ("cdf", "inverse", "both"):
                n += 1; counters["py_callback_number_types"] += 1
                cdf_ = (lambda x, *a: f(step_cdf(x))) if which in ("cdf", "both") else step_cdf
                inv_ = (lambda xi, *a: f(0.0)) if which in ("inverse", "both") else (lambda xi, *a: 0.0)
                try:
                    got = words_for(M.CustomModel(cdf_, inv_, -5, 5))
                except BaseException:
                    continue    # refused
                if got != want_nt:
                    fail("Python front end | CustomModel | a callback result of another numeric type is accepted but read as a different number", f"{which} returning {tname}: {got} instead of {want_nt}")
        # callbacks that are not cdfs at all (C20 for the front end): any exception is fine, a symbol outside the
        # support or a crash of the interpreter is not
        counters["py_hostile_callbacks"] = 0
        class Boom(Exception):
            pass
        def raising(x, *a):
            raise Boom("cdf raised")
        hostile = [("constant 2", lambda x, *a: 2.0), ("constant -1", lambda x, *a: -1.0), ("nan", lambda x, *a: float("nan")), ("inf", lambda x, *a: float("inf")), ("-inf", lambda x, *a: float("-inf")),
                   ("1e300", lambda x, *a: 1e300), ("decreasing", lambda x, *a: 1.0 - logistic(0.0, 2.0)(x)), ("sawtooth", lambda x, *a: abs(x * 0.37) % 1.0), ("zig-zag", lambda x, *a: 0.9 if int(math.floor(x)) % 2 == 0 else 0.1),
                   ("returns a string", lambda x, *a: "0.5"), ("returns None", lambda x, *a: None), ("raises", raising), ("returns an int", lambda x, *a: 1), ("returns a numpy scalar", lambda x, *a: np.float32(0.5))]
        for cname, cdf in hostile:
            for hname, hint in hints[:4] + [("raises", raising), ("returns a string", lambda xi, *a: "x")]:
                for lo, hi in [(-5, 5), (0, 1), (-2**20, 2**20), (2**31 - 3, 2**31 - 1)]:
                    sys.stderr.write(f"@{n}\n")
                    n += 1; counters["py_hostile_callbacks"] += 1
                    try:
                        model = M.CustomModel(cdf, hint, lo, hi)
                        for w in words_list:
                            out = ANS(w, True).decode(model, 3)
                            if any(int(o) < lo or int(o) > hi for o in out):
                                fail("Python front end | CustomModel with a callback that is not a cdf | decodes a symbol outside the support", f"cdf = {cname}, inverse = {hname}, [{lo}, {hi}]: {list(out)}")
                            out = RDEC(w).decode(model, 3)
                            if any(int(o) < lo or int(o) > hi for o in out):
                                fail("Python front end | CustomModel with a callback that is not a cdf | decodes a symbol outside the support", f"cdf = {cname}, inverse = {hname}, [{lo}, {hi}]: {list(out)}")
                        c = ANS(); c.encode_reverse(np.array([lo, hi, lo], dtype=np.int32), model); c.get_compressed()
                        r = RENC(); r.encode(np.array([lo, hi, lo], dtype=np.int32), model); r.get_compressed()
                    except BaseException:
                        pass
        # RE-ENTRANCY: a cdf callback runs Python code while the coder is in the middle of an operation. Whatever it does
        # with the same coder, another coder or the same model at its j-th invocation must be refused (any exception,
        # swallowed by the callback) or be harmless: the outer operation completes as if the callback had done nothing,
        # and a mutating call on the coder that is busy must never succeed
        counters["py_reentrant_calls"] = 0; counters["py_reentrant_calls_refused"] = 0
        base_cdf = logistic(0.3, 1.7)
        msg_re = np.array([-2, 0, 1, 3, 0], dtype=np.int32)
        plain = M.CustomModel(base_cdf, lambda xi, *a: 0.0, -5, 5)
        def reference(kind):
            if kind == "ans encode":
                c = ANS(); c.encode_reverse(msg_re, plain); return [int(x) for x in c.get_compressed()]
            if kind == "range encode":
                c = RENC(); c.encode(msg_re, plain); return [int(x) for x in c.get_compressed()]
            c = ANS(words_list[0], True); return [int(x) for x in c.decode(plain, 4)] + [int(x) for x in c.get_compressed()]
        inner_ops = [("get_compressed on the busy coder", False, lambda c, m: c.get_compressed()), ("clone of the busy coder", False, lambda c, m: c.clone()),
                     ("num_words on the busy coder", False, lambda c, m: c.num_words()), ("pos on the busy coder", False, lambda c, m: c.pos()),
                     ("encode on the busy coder", True, lambda c, m: (c.encode_reverse(1, M.Uniform(4)) if hasattr(c, "encode_reverse") else c.encode(1, M.Uniform(4)))),
                     ("clear on the busy coder", True, lambda c, m: c.clear()),
                     ("decode on the busy coder", True, lambda c, m: c.decode(M.Uniform(4)) if hasattr(c, "decode") else c.clear()),
                     ("the same model on another coder", False, lambda c, m: ANS().encode_reverse(0, m)),
                     ("a new coder with another model", False, lambda c, m: ANS().encode_reverse(np.array([1, 2], dtype=np.int32), M.Uniform(4)))]
        for kind in ("ans encode", "range encode", "ans decode"):
            want = reference(kind)
            for oname, mutating, op in inner_ops:
                for j in (0, 1, 3, 6):
                    n += 1; counters["py_reentrant_calls"] += 1
                    box = {"calls": 0, "coder": None, "model": None, "inner_ok": False}
                    def cdf_re(x, *a):
                        i = box["calls"]; box["calls"] += 1
                        if i == j:
                            try:
                                op(box["coder"], box["model"]); box["inner_ok"] = True
                            except BaseException:
                                counters["py_reentrant_calls_refused"] += 1
                        return base_cdf(x)
                    model = M.CustomModel(cdf_re, lambda xi, *a: 0.0, -5, 5); box["model"] = model
                    try:
                        if kind == "ans encode":
                            c = ANS(); box["coder"] = c; c.encode_reverse(msg_re, model); got = [int(x) for x in c.get_compressed()]
                        elif kind == "range encode":
                            c = RENC(); box["coder"] = c; c.encode(msg_re, model); got = [int(x) for x in c.get_compressed()]
                        else:
                            c = ANS(words_list[0], True); box["coder"] = c; got = [int(x) for x in c.decode(model, 4)] + [int(x) for x in c.get_compressed()]
                    except BaseException as e:
                        fail("Python front end | re-entrant callback | the outer operation fails although the callback swallowed the inner refusal", f"{kind}, callback #{j} does: {oname}: {type(e).__name__}: {str(e)[:100]}")
                        continue
                    if mutating and box["inner_ok"]:
                        fail("Python front end | re-entrant callback | a mutating call on the coder that is in the middle of an operation succeeds", f"{kind}, callback #{j} does: {oname}")
                    elif got != want:
                        fail("Python front end | re-entrant callback | the outer operation's result differs from a run without re-entrancy", f"{kind}, callback #{j} does: {oname}: {got} instead of {want}")
        # per-symbol parameters for the callbacks
        fam = M.CustomModel(lambda x, loc, scale: 1.0 / (1.0 + math.exp(-max(min((x - loc) / scale, 700.0), -700.0))), lambda xi, loc, scale: loc, -20, 20)
        locs, scales = np.array([0.3, -7.7, 19.0, 2.0]), np.array([1.0, 0.01, 5.0, 30.0])
        for arr in itertools.product([-20, -8, 0, 20], repeat=4):
            n += 1
            arr = np.array(arr, dtype=np.int32)
            try:
                c = ANS(); c.encode_reverse(arr, fam, locs, scales)
                got = c.decode(fam, locs, scales)
                r = RENC(); r.encode(arr, fam, locs, scales)
                got2 = r.get_decoder().decode(fam, locs, scales)
                if not np.array_equal(got, arr) or not np.array_equal(got2, arr) or not c.is_empty():
                    fail("Python front end | CustomModel family with per-symbol parameters | round trip fails", f"{list(arr)} -> {list(got)} / {list(got2)}")
            except BaseException as e:
                fail("Python front end | CustomModel family with per-symbol parameters | round trip raises", f"{list(arr)}: {type(e).__name__}: {str(e)[:140]}")
        for dname, dist in (("norm(0.4, 1.3)", scipy.stats.norm(0.4, 1.3)), ("cauchy(6.7, 12.4)", scipy.stats.cauchy(6.7, 12.4)), ("laplace(-3, 0.2)", scipy.stats.laplace(-3.0, 0.2)),
                            ("norm(0, 1e-6)", scipy.stats.norm(0.0, 1e-6)), ("norm(1e5, 1)", scipy.stats.norm(1e5, 1.0)), ("binom(10, 0.3)", scipy.stats.binom(10, 0.3))):
            for lo, hi in ((-10, 10), (0, 10), (-100, 100)):
                n += 1
                name = f"ScipyModel({dname}, {lo}, {hi})"
                try:
                    judge(name, M.ScipyModel(dist, lo, hi), lo, hi)
                except BaseException as e:
                    fail("Python front end | ScipyModel | a scipy distribution is refused or fails", f"{name}: {type(e).__name__}: {str(e)[:140]}")
    return n, failures, counters


def as_views(a):
    """the same logical rank-1 array in other memory layouts: (name, array)"""
    a = np.asarray(a)
    out = [("contiguous", a)]
    if len(a) >= 1:
        out.append(("negative-stride view", a[::-1].copy()[::-1]))
        out.append(("stride-2 view", np.repeat(a, 2)[::2]))
        pad = np.concatenate([a[:1], a, a[:1]])
        out.append(("interior slice", pad[1:-1]))
    for _, v in out:
        assert np.array_equal(v, a)
    return out


def run_views(max_len):
    """the layout of an argument array is not part of its value: every constructor that takes compressed words and
    every call form that takes symbols or parameters must treat a view like a contiguous copy (C06: the words depend on
    the message only; listed under the properties of the coders as well)"""
    failures, n = [], 0
    counters = {"py_view_constructions": 0, "py_view_symbol_arrays": 0}
    def fail(what, detail):
        if len([f for f in failures if f["what"] == what]) < 3:
            failures.append({"what": what, "detail": detail})
    S = constriction.symbol
    cat = M.Categorical(np.array([0.2, 0.5, 0.3]), perfect=False)
    famg = M.QuantizedGaussian(-3, 3)
    book = S.huffman.DecoderHuffmanTree(np.array([0.3, 0.2, 0.4, 0.1]))
    makers = [("AnsCoder(words)", lambda w: [int(x) for x in ANS(w).decode(cat, 5)]),
              ("AnsCoder(words, seal=True)", lambda w: [int(x) for x in ANS(w, True).get_compressed(unseal=True)] + [int(x) for x in ANS(w, True).decode(cat, 5)]),
              ("RangeDecoder(words)", lambda w: [int(x) for x in RDEC(w).decode(cat, 3)]),
              ("ChainCoder(words)", lambda w: [[int(x) for x in a] for a in CHAIN(w, False, False).get_data()] + [[int(x) for x in CHAIN(w, False, False).decode(cat, 2)]]),
              ("ChainCoder(words, seal=True)", lambda w: [[int(x) for x in a] for a in CHAIN(w, False, True).get_data(unseal=True)]),
              ("ChainCoder(words, is_remainders=True)", lambda w: [[int(x) for x in a] for a in CHAIN(w, True, False).get_remainders()]),
              ("symbol.StackCoder(words)", lambda w: (lambda c: [c.decode_symbol(book) for _ in range(6)])(S.StackCoder(w))),
              ("symbol.QueueDecoder(words)", lambda w: (lambda c: [c.decode_symbol(book) for _ in range(6)])(S.QueueDecoder(w)))]
    with Quiet():
        for w in word_strings(1, max_len, [1, 2, 0x12345678, 0x80000000, 0xffffffff, 0xdeadbeef]):
            for mname, make in makers:
                try:
                    want = make(w)
                except Exception:
                    want = "refused"
                for vname, v in as_views(w)[1:]:
                    n += 1; counters["py_view_constructions"] += 1
                    try:
                        got = make(v)
                    except Exception:
                        got = "refused"
                    if got != want:
                        fail(f"Python front end | {mname} | a {vname} of the words is not read like a contiguous copy", f"words {[hex(int(x)) for x in w]}: {got} instead of {want}")
        # an argument array is a VALUE: writing to it after the call must not reach the object built from it
        counters["py_arguments_overwritten"] = 0
        def value_checks():
            for kw in ({"perfect": False}, {"perfect": True}, {"lazy": True}):
                for dt in (np.float64, np.float32):
                    yield (f"Categorical(probabilities, {kw}, {dt.__name__})", np.array([0.2, 0.5, 0.3], dtype=dt), np.array([0.7, 0.1, 0.2], dtype=dt), lambda a, kw=kw: M.Categorical(a, **kw),
                           lambda m: [int(x) for x in (lambda c: (c.encode_reverse(np.array([0, 1, 2, 1], dtype=np.int32), m), c.get_compressed())[1])(ANS())])
            yield ("AnsCoder(words)", np.array([0x12345678, 0x9abcdef1], dtype=np.uint32), np.array([7, 9], dtype=np.uint32), lambda a: ANS(a), lambda c: [int(x) for x in c.get_compressed()])
            yield ("AnsCoder(words, seal=True)", np.array([0x12345678, 0], dtype=np.uint32), np.array([7, 9], dtype=np.uint32), lambda a: ANS(a, True), lambda c: [int(x) for x in c.get_compressed()])
            yield ("RangeDecoder(words)", np.array([0x12345678, 0x9abcdef1], dtype=np.uint32), np.array([7, 9], dtype=np.uint32), lambda a: RDEC(a), lambda c: [int(x) for x in c.clone().decode(cat, 3)])
            yield ("ChainCoder(words, seal=True)", np.array([1, 2, 3, 4], dtype=np.uint32), np.array([9, 9, 9, 9], dtype=np.uint32), lambda a: CHAIN(a, False, True), lambda c: [[int(x) for x in t] for t in c.get_remainders()])
            yield ("symbol.StackCoder(words)", np.array([5, 6], dtype=np.uint32), np.array([9, 9], dtype=np.uint32), lambda a: S.StackCoder(a), lambda c: [int(x) for x in c.get_compressed_and_bitrate()[0]])
            yield ("symbol.huffman.EncoderHuffmanTree(probabilities)", np.array([0.1, 0.2, 0.7]), np.array([0.7, 0.2, 0.1]), lambda a: S.huffman.EncoderHuffmanTree(a),
                   lambda b: [(lambda st: (st.encode_symbol(i, b), st.get_compressed_and_bitrate()[1])[1])(S.StackCoder()) for i in range(3)])
        for name, arg, other, build, observe in value_checks():
            n += 1; counters["py_arguments_overwritten"] += 1
            try:
                obj = build(arg); want = observe(build(arg.copy()))
                arg[:] = other
                got = observe(obj)
                if got != want:
                    fail(f"Python front end | {name} | the object still refers to the caller's array after the constructor returned", f"after overwriting the array: {got} instead of {want}")
            except BaseException as e:
                fail(f"Python front end | {name} | the object still refers to the caller's array after the constructor returned", f"after overwriting the array: {type(e).__name__}: {str(e)[:100]}")
        # an array RETURNED by a coder is a value as well: using the coder afterwards must not change it (nor make it
        # point at freed memory), and writing to it must not change the coder
        counters["py_results_kept"] = 0
        def exports():
            yield "AnsCoder.get_compressed()", lambda: ANS(), lambda c, i: c.encode_reverse(np.array([i % 3, (i + 1) % 3, 2], dtype=np.int32), cat), lambda c: [c.get_compressed()]
            yield "AnsCoder.get_compressed(unseal=True)", lambda: ANS(np.array([0x12345678, 0x9abcdef0, 0], dtype=np.uint32), True), lambda c, i: (c.decode(cat, 2), c.encode_reverse(np.array([i % 3, 1], dtype=np.int32), cat))[1] if i else None, lambda c: [c.get_compressed()]
            yield "RangeEncoder.get_compressed()", lambda: RENC(), lambda c, i: c.encode(np.array([i % 3, (i + 1) % 3, 2], dtype=np.int32), cat), lambda c: [c.get_compressed()]
            yield "ChainCoder.get_remainders()", lambda: CHAIN(np.arange(1, 400, dtype=np.uint32), False, True), lambda c, i: c.decode(cat, 3), lambda c: list(c.get_remainders())
            yield "symbol.StackCoder.get_compressed_and_bitrate()", lambda: S.StackCoder(), lambda c, i: [c.encode_symbol((i + j) % 4, S.huffman.EncoderHuffmanTree(np.array([0.3, 0.2, 0.4, 0.1]))) for j in range(5)], lambda c: [c.get_compressed_and_bitrate()[0]]
            yield "symbol.QueueEncoder.get_compressed_and_bitrate()", lambda: S.QueueEncoder(), lambda c, i: [c.encode_symbol((i + j) % 4, S.huffman.EncoderHuffmanTree(np.array([0.3, 0.2, 0.4, 0.1]))) for j in range(5)], lambda c: [c.get_compressed_and_bitrate()[0]]
        for name, make, step, export in exports():
            n += 1; counters["py_results_kept"] += 1
            try:
                c = make()
                held = []
                for i in range(1, 40):
                    step(c, i)
                    arrs = export(c)
                    held.append((i, arrs, [a.copy() for a in arrs]))
                    # (a long-lived result must survive every later reallocation of the coder's buffer)
                    for (j, live, snap) in held[::7]:
                        for x, y in zip(live, snap):
                            if not np.array_equal(x, y):
                                fail(f"Python front end | {name} | a returned array changes when the coder is used afterwards", f"array taken after step {j} differs after step {i}")
                                raise StopIteration
                before = [a.copy() for a in export(c)]
                for a in export(c):
                    if a.flags.writeable and len(a):
                        a[:] = 0
                after = export(c)
                if any(not np.array_equal(x, y) for x, y in zip(before, after)):
                    fail(f"Python front end | {name} | writing to a returned array changes the coder", "")
            except StopIteration:
                pass
            except BaseException as e:
                fail(f"Python front end | {name} | a returned array changes when the coder is used afterwards", f"{type(e).__name__}: {str(e)[:100]}")
        # symbol and parameter arrays
        means, stds = np.array([0.4, -1.2, 2.0, 0.0]), np.array([1.3, 0.5, 3.0, 0.8])
        data = np.array([0x12345678, 0x9abcdef0, 0x0fedcba9, 0x13579bdf, 0x2468ace0, 0xdeadbeef], dtype=np.uint32)
        for k in range(0, 5):
            for msg in itertools.product([0, 1, 2], repeat=k):
                arr = np.array(msg, dtype=np.int32)
                def words_of(sym, mu, sd):
                    out = []
                    a = ANS(); a.encode_reverse(sym, cat); out.append([int(x) for x in a.get_compressed()])
                    r = RENC(); r.encode(sym, cat); out.append([int(x) for x in r.get_compressed()])
                    c = CHAIN(data, True, False); c.encode_reverse(sym, cat); out.append([[int(x) for x in t] for t in c.get_remainders()])
                    if len(sym) <= 4:
                        a = ANS(); a.encode_reverse(sym, famg, mu[:len(sym)], sd[:len(sym)]); out.append([int(x) for x in a.get_compressed()])
                        r = RENC(); r.encode(sym, famg, mu[:len(sym)], sd[:len(sym)]); out.append([int(x) for x in r.get_compressed()])
                        c = CHAIN(data, True, False); c.encode_reverse(sym, famg, mu[:len(sym)], sd[:len(sym)]); out.append([[int(x) for x in t] for t in c.get_remainders()])
                    return out
                want = words_of(arr, means, stds)
                for (vname, v), (_, vm), (_, vs) in zip(as_views(arr)[1:], as_views(means)[1:], as_views(stds)[1:]):
                    n += 1; counters["py_view_symbol_arrays"] += 1
                    try:
                        got = words_of(v, vm, vs)
                    except BaseException as e:
                        got = repr(e)
                    if got != want:
                        names = ["AnsCoder.encode_reverse(array, model)", "RangeEncoder.encode(array, model)", "ChainCoder.encode_reverse(array, model)",
                                 "AnsCoder.encode_reverse(array, family, parameter arrays)", "RangeEncoder.encode(array, family, parameter arrays)", "ChainCoder.encode_reverse(array, family, parameter arrays)"]
                        which = [names[i] for i in range(len(want))if not isinstance(got, str) and i < len(got) and got[i] != want[i]] or ["(raises)"]
                        fail(f"Python front end | {which[0]} | a {vname} of the symbols / parameters is not read like a contiguous copy", f"message {list(msg)}: {got} instead of {want}")
    return n, failures, counters


def run_misuse(level):
    """calls that the binding layer must refuse: a refused call raises and leaves the coder as it was (C09 through the
    Python front end): symbol / parameter arrays of different lengths, symbol arrays of a wider dtype holding values
    that do not fit, scalar symbols that do not fit"""
    failures, n = [], 0
    counters = {"py_misuse_calls": 0, "py_misuse_refused": 0}
    def fail(what, detail):
        if len([f for f in failures if f["what"] == what]) < 3:
            failures.append({"what": what, "detail": detail})
    cat = M.Categorical(np.array([0.2, 0.5, 0.3]), perfect=False)
    famg, famc = M.QuantizedGaussian(-3, 3), M.Categorical(perfect=False)
    means, stds = np.array([0.4, -1.2, 2.0, 0.0, 1.0]), np.array([1.3, 0.5, 3.0, 0.8, 1.0])
    tabs = np.array([[0.2, 0.5, 0.3], [0.6, 0.3, 0.1], [0.1, 0.1, 0.8], [0.3, 0.3, 0.4], [0.5, 0.25, 0.25]])
    data = np.array([0x12345678, 0x9abcdef0, 0x0fedcba9, 0x13579bdf, 0x2468ace0, 0xdeadbeef], dtype=np.uint32)
    coders = [("AnsCoder.encode_reverse", lambda: ANS(), lambda c, *a: c.encode_reverse(*a), lambda c: [int(x) for x in c.get_compressed()]),
              ("RangeEncoder.encode", lambda: RENC(), lambda c, *a: c.encode(*a), lambda c: ([int(x) for x in c.get_compressed()], c.pos())),
              ("ChainCoder.encode_reverse", lambda: CHAIN(data, True, False), lambda c, *a: c.encode_reverse(*a), lambda c: [[int(x) for x in t] for t in c.get_remainders()])]
    calls = []
    for ns in range(0, 5):
        for npar in range(0, 5):
            if ns != npar:
                calls.append((f"{ns} symbols with {npar} rows of Gaussian parameters", (np.array([0, 1, 2, 1][:ns], dtype=np.int32), famg, means[:npar], stds[:npar])))
                calls.append((f"{ns} symbols with {npar} rows of categorical parameters", (np.array([0, 1, 2, 1][:ns], dtype=np.int32), famc, tabs[:npar])))
    for nm in range(0, 4):
        for nsd in range(0, 4):
            if nm != nsd:
                calls.append((f"parameter arrays of lengths {nm} and {nsd}", (np.array([0, 1, 2, 1][:nm], dtype=np.int32), famg, means[:nm], stds[:nsd])))
    for big in (2**32 + 1, -2**32 + 2, 2**31, -2**31 - 1, 2**40):
        calls.append((f"int64 symbol array holding {big}", (np.array([1, big], dtype=np.int64), cat)))
        calls.append((f"int64 symbol array holding {big} with per-symbol parameters", (np.array([1, big], dtype=np.int64), famg, means[:2], stds[:2])))
        calls.append((f"scalar symbol {big}", (big, cat)))
    calls.append(("float symbol array [0.0, 1.5]", (np.array([0.0, 1.5]), cat)))
    calls.append(("uint32 symbol array holding 2^32 - 1", (np.array([1, 2**32 - 1], dtype=np.uint32), cat)))
    calls.append(("scalar symbol with parameter arrays", (1, famg, means[:1], stds[:1])))
    two = np.array([0, 1], dtype=np.int32)
    calls.append(("a concrete model with parameter arrays", (two, cat, means[:2])))
    calls.append(("a Gaussian family with only one of its two parameter arrays", (two, famg, means[:2])))
    calls.append(("a Gaussian family with three parameter arrays", (two, famg, means[:2], stds[:2], stds[:2])))
    calls.append(("a categorical family with a rank-1 probability array", (two, famc, np.array([0.5, 0.5]))))
    calls.append(("a categorical family with a rank-3 probability array", (two, famc, np.ones((2, 2, 2)) / 2)))
    calls.append(("a family without any parameters", (two, famg)))
    calls.append(("a categorical family with rows of zero entries", (two, famc, np.zeros((2, 0)))))
    calls.append(("a categorical family with rows of zero entries (float32)", (two, famc, np.zeros((2, 0), dtype=np.float32))))
    calls.append(("a categorical family with rows of one entry", (np.array([0, 0], dtype=np.int32), famc, np.ones((2, 1)))))
    calls.append(("a rank-2 symbol array", (np.array([[0, 1], [1, 2]], dtype=np.int32), cat)))
    with Quiet():
        for cname, make, enc, state in coders:
            for prefix in ([], [0, 2, 1]):
                for what, args in calls:
                    n += 1; counters["py_misuse_calls"] += 1
                    c = make()
                    for s_ in prefix:
                        enc(c, s_, cat)
                    before = state(c)
                    try:
                        enc(c, *args)
                        # accepted: then it must have coded what was asked for; the only acceptable reading of a wider dtype is the exact value
                        fail(f"Python front end | {cname} | a call that cannot be honoured is accepted", f"{what} (after {prefix})")
                        continue
                    except BaseException:
                        counters["py_misuse_refused"] += 1   # (an exception or a panic: both are refusals)
                    if state(c) != before:
                        fail(f"Python front end | {cname} | a refused call changes the coder", f"{what} (after {prefix})")
        # decoding calls that cannot be honoured: raise, decoder unchanged
        words = np.array([0x12345678, 0x9abcdef1, 0x0fedcba9, 0x13579bdf], dtype=np.uint32)
        cfam = M.CustomModel(lambda x, a, b: 0.5, lambda xi, a, b: 0.0, -3, 3)
        dcalls = [("a family without parameters", (famg,)), ("a Gaussian family with one of its two parameter arrays", (famg, means[:2])), ("parameter arrays of different lengths", (famg, means[:2], stds[:3])),
                  ("a categorical family with a rank-1 array", (famc, np.array([0.5, 0.5]))), ("a concrete model with a parameter array", (cat, means[:2])), ("a negative amount", (cat, -1)),
                  ("a concrete model with two extra arguments", (cat, 2, 3)), ("a callback family with parameter arrays of different lengths", (cfam, means[:2], stds[:3])),
                  ("a callback family with an integer where an array is expected", (cfam, 3, 4))]
        decs = [("AnsCoder.decode", lambda: ANS(words), lambda c: [int(x) for x in c.get_compressed()]),
                ("RangeDecoder.decode", lambda: RDEC(words), lambda c: [int(x) for x in c.clone().decode(cat, 3)]),
                ("ChainCoder.decode", lambda: CHAIN(np.concatenate([words, words]), False, True), lambda c: [[int(x) for x in t] for t in c.get_remainders()])]
        for dname, make, state in decs:
            for what, args in dcalls:
                n += 1; counters["py_misuse_calls"] += 1
                c = make(); before = state(c)
                try:
                    c.decode(*args)
                    fail(f"Python front end | {dname} | a call that cannot be honoured is accepted", what)
                    continue
                except BaseException:
                    counters["py_misuse_refused"] += 1
                if state(c) != before:
                    fail(f"Python front end | {dname} | a refused call changes the coder", what)
        # constructors and exports that must refuse
        S = constriction.symbol
        ctor = [("AnsCoder(seal=True) without data", lambda: ANS(None, True)), ("AnsCoder(words ending in a zero word)", lambda: ANS(np.array([5, 0], dtype=np.uint32))),
                ("ChainCoder(words, is_remainders=True, seal=True)", lambda: CHAIN(words, True, True)), ("ChainCoder(no words)", lambda: CHAIN(words[:0], False, False)),
                ("ChainCoder(words ending in a zero word)", lambda: CHAIN(np.array([5, 6, 7, 0], dtype=np.uint32), False, False)),
                ("ChainCoder(words ending in a zero word, is_remainders=True)", lambda: CHAIN(np.array([5, 6, 7, 0], dtype=np.uint32), True, False)),
                ("Categorical(lazy=True, perfect=True)", lambda: M.Categorical(np.array([0.5, 0.5]), lazy=True, perfect=True)),
                ("symbol.StackCoder(words ending in a zero word)", lambda: S.StackCoder(np.array([5, 0], dtype=np.uint32))),
                ("AnsCoder(words holding a fraction)", lambda: ANS(np.array([1.5, 2.0]))), ("AnsCoder(rank-2 words)", lambda: ANS(np.array([[1, 2], [3, 4]], dtype=np.uint32))),
                ("Uniform(-1)", lambda: ANS().encode_reverse(0, M.Uniform(-1))), ("QuantizedGaussian(5, -5)", lambda: ANS().encode_reverse(0, M.QuantizedGaussian(5, -5, 0.0, 1.0)))]
        for what, f in ctor:
            n += 1; counters["py_misuse_calls"] += 1
            try:
                f()
                fail("Python front end | constructors | an argument combination that cannot be honoured is accepted", what)
            except BaseException:
                counters["py_misuse_refused"] += 1     # (a panic is a clean refusal for a constructor, C19)
        # unsealing a coder that is not in a sealed state: refused, coder unchanged
        for init in ([], [0x12345678], [0x12345678, 0x9abcdef1], [2]):
            n += 1; counters["py_misuse_calls"] += 1
            c = ANS(np.array(init, dtype=np.uint32)) if init else ANS()
            before = [int(x) for x in c.get_compressed()]
            try:
                out = c.get_compressed(unseal=True)
                fail("Python front end | AnsCoder.get_compressed(unseal=True) | a coder that is not in a sealed state is unsealed", f"{[hex(x) for x in init]} -> {list(out)}")
            except AssertionError:
                counters["py_misuse_refused"] += 1
            except BaseException as e:
                fail("Python front end | AnsCoder.get_compressed(unseal=True) | undocumented failure on an unsealed coder", f"{[hex(x) for x in init]}: {type(e).__name__}")
            if [int(x) for x in c.get_compressed()] != before:
                fail("Python front end | AnsCoder.get_compressed(unseal=True) | a refused export changes the coder", f"{[hex(x) for x in init]}")
        # unsealing chain-coder data that was never sealed (last word neither 0 nor 1): refused, never a silently shortened result
        for w in word_strings(2, 3, [2, 0x12345678, 0xffffffff]):
            n += 1; counters["py_misuse_calls"] += 1
            try:
                c = CHAIN(w, False, False)
            except BaseException:
                continue
            before = [[int(x) for x in t] for t in c.get_remainders()]
            try:
                d1, d2 = c.get_data(unseal=True)
                fail("Python front end | ChainCoder.get_data(unseal=True) | data that was never sealed is 'unsealed' (a word is dropped) instead of refused", f"words {[hex(int(x)) for x in w]} -> {[hex(int(x)) for x in np.concatenate([d1, d2])]}")
            except AssertionError:
                counters["py_misuse_refused"] += 1
            except BaseException as e:
                fail("Python front end | ChainCoder.get_data(unseal=True) | undocumented failure", f"{type(e).__name__}: {str(e)[:80]}")
            if [[int(x) for x in t] for t in c.get_remainders()] != before:
                fail("Python front end | ChainCoder.get_data(unseal=True) | a refused export changes the coder", f"words {[hex(int(x)) for x in w]}")
        # a chain coder that holds a fractional number of words cannot be exported as data: refused, coder unchanged
        c = CHAIN(np.concatenate([words, words]), False, True)
        c.decode(cat)
        before = [[int(x) for x in t] for t in c.get_remainders()]
        n += 1; counters["py_misuse_calls"] += 1
        try:
            c.get_data()
            c.get_data(unseal=True)
        except AssertionError:
            counters["py_misuse_refused"] += 1
        except BaseException as e:
            fail("Python front end | ChainCoder.get_data | undocumented failure", f"{type(e).__name__}: {str(e)[:100]}")
        if [[int(x) for x in t] for t in c.get_remainders()] != before:
            fail("Python front end | ChainCoder.get_data | changes the coder", "")
    return n, failures, counters


def run_representations(level):
    """C05 through the Python front end: a concrete model, the same model with some parameters delayed, and with all
    parameters delayed are one model: identical words on both coders, for every message over the listed symbols"""
    failures, n = [], 0
    counters = {"py_representation_groups": 0, "py_representation_comparisons": 0}
    def fail(what, detail):
        if len([f for f in failures if f["what"] == what]) < 3:
            failures.append({"what": what, "detail": detail})
    def col(x, k, dt=np.float64):
        return np.array([x] * k, dtype=dt)
    groups = []   # (name, [(representation name, model, per-symbol parameter builder k -> tuple)], symbols)
    locs = [0.0, -1.5, 2.25, -40.0] + ([1e-9, 17.0, -0.0] if level else [])
    scales = [1.0, 0.3, 7.0] + ([1e-3, 100.0] if level else [])
    for fam, cls in (("QuantizedGaussian", M.QuantizedGaussian), ("QuantizedLaplace", M.QuantizedLaplace), ("QuantizedCauchy", M.QuantizedCauchy)):
        for lo, hi in ((-5, 5), (-60, 3)):
            for a in locs:
                for b in scales:
                    groups.append((f"{fam}({lo}, {hi}, {a}, {b})", [
                        ("all parameters in the constructor", cls(lo, hi, a, b), None),
                        ("location in the constructor, scale per symbol", cls(lo, hi, a), lambda k, b=b: (col(b, k),)),
                        ("scale in the constructor (keyword), location per symbol", cls(lo, hi, **{("std" if fam == "QuantizedGaussian" else "scale"): b}), lambda k, a=a: (col(a, k),)),
                        ("both per symbol", cls(lo, hi), lambda k, a=a, b=b: (col(a, k), col(b, k))),
                        ("both per symbol as float32 where exact", cls(lo, hi), (lambda k, a=a, b=b: (col(a, k, np.float32), col(b, k, np.float32))) if float(np.float32(a)) == a and float(np.float32(b)) == b else None),
                    ], [lo, hi, 0, -1]))
    for nn in (1, 5, 20):
        for pp in (0.0, 0.3, 0.5, 1.0, 1e-9):
            groups.append((f"Binomial({nn}, {pp})", [
                ("both in the constructor", M.Binomial(nn, pp), None),
                ("n in the constructor, p per symbol", M.Binomial(nn), lambda k, pp=pp: (col(pp, k),)),
                ("p in the constructor (keyword), n per symbol", M.Binomial(p=pp), lambda k, nn=nn: (col(nn, k, np.int32),)),
                ("both per symbol", M.Binomial(), lambda k, nn=nn, pp=pp: (col(nn, k, np.int32), col(pp, k))),
            ], [0, nn, nn // 2]))
    for pp in (0.3, 0.5, 1e-9, 0.999):
        groups.append((f"Bernoulli({pp})", [("in the constructor", M.Bernoulli(pp, perfect=False), None), ("per symbol", M.Bernoulli(perfect=False), lambda k, pp=pp: (col(pp, k),)),
                                          ("categorical table [1-p, p]", M.Categorical(np.array([1.0 - pp, pp]), perfect=False), None)], [0, 1]))
    with contextlib.redirect_stdout(io.StringIO()):   # (the binding prints a deprecation warning when `perfect` is omitted)
        for pp in (0.3, 0.5, 1e-9, 0.999, 1 / 3):
            groups.append((f"Bernoulli({pp}, perfect=True)", [("in the constructor", M.Bernoulli(pp, perfect=True), None), ("per symbol", M.Bernoulli(perfect=True), lambda k, pp=pp: (col(pp, k),)),
                                                            ("`perfect` left to its documented default (True)", M.Bernoulli(pp), None), ("family with `perfect` left to its default", M.Bernoulli(), lambda k, pp=pp: (col(pp, k),)),
                                                            ("categorical table [1-p, p], perfect", M.Categorical(np.array([1.0 - pp, pp]), perfect=True), None)], [0, 1]))
    for size in (2, 3, 10, 1000):
        groups.append((f"Uniform({size})", [("in the constructor", M.Uniform(size), None), ("per symbol", M.Uniform(), lambda k, size=size: (col(size, k, np.int32),))], [0, size - 1, 1]))
    for t in ([0.2, 0.5, 0.3], [1 / 3, 1 / 3, 1 / 3], [0.1, 0.2, 0.7], [0.999, 0.0005, 0.0005]):
        for kw in ({"perfect": False}, {"perfect": True}, {"lazy": True}):
            for dt in (np.float64, np.float32):
                groups.append((f"Categorical({t}, {kw}, {dt.__name__})", [("in the constructor", M.Categorical(np.array(t, dtype=dt), **kw), None),
                    ("per symbol", M.Categorical(**kw), lambda k, t=t, dt=dt: (np.array([t] * k, dtype=dt),))], [0, 1, 2]))
    for nsym in (7, 8, 9, 16, 17, 33):
        for kind in range(3):
            t = [[1.0 / (i + 3) for i in range(nsym)], [((i * 7919) % 13 + 1) * 0.013 for i in range(nsym)], [0.3 if i == 5 else 1e-3 * (i + 1) for i in range(nsym)]][kind]
            for kw in ({"perfect": False}, {"perfect": True}, {"lazy": True}):
                for dt in (np.float64, np.float32):
                    groups.append((f"Categorical(table of {nsym} entries #{kind}, {kw}, {dt.__name__})", [("in the constructor", M.Categorical(np.array(t, dtype=dt), **kw), None),
                        ("per symbol", M.Categorical(**kw), lambda k, t=t, dt=dt: (np.array([t] * k, dtype=dt),)),
                        ("per symbol, the rows in a Fortran-ordered array", M.Categorical(**kw), lambda k, t=t, dt=dt: (np.asfortranarray(np.array([t] * k, dtype=dt)),)),
                        ("in the constructor, the table normalised by the caller in its own precision", M.Categorical(np.array(t, dtype=dt), **kw), None)], [0, nsym - 1, 5]))
    with Quiet():
        for gname, reps, syms in groups:
            counters["py_representation_groups"] += 1
            syms = sorted(set(syms))
            for k in (1, 2, 3):
                for msg in itertools.product(syms, repeat=k):
                    arr = np.array(msg, dtype=np.int32)
                    want = None
                    for rname, model, par in reps:
                        if par is None and rname.startswith("both per symbol as float32"):
                            continue
                        n += 1; counters["py_representation_comparisons"] += 1
                        try:
                            a = ANS(); r = RENC()
                            if par is None:
                                a.encode_reverse(arr, model); r.encode(arr, model)
                            else:
                                a.encode_reverse(arr, model, *par(k)); r.encode(arr, model, *par(k))
                            got = ([int(x) for x in a.get_compressed()], [int(x) for x in r.get_compressed()])
                        except BaseException as e:
                            got = f"{type(e).__name__}: {str(e)[:100]}"
                        if want is None:
                            want, first = got, rname
                        elif got != want:
                            fail(f"Python front end | {gname.split('(')[0]} | '{rname}' is not the model of '{first}'", f"{gname}, message {list(msg)}: {got} instead of {want}")
    return n, failures, counters


def run_chain_locality(max_len):
    """C14 through the Python front end: symbol i depends only on model i and on one chunk of the data"""
    failures, n = [], 0
    counters = {"py_locality_data_strings": 0, "py_locality_model_replacements": 0, "py_locality_bit_flips": 0, "py_locality_out_of_data": 0}
    def fail(what, detail):
        if len([f for f in failures if f["what"] == what]) < 3:
            failures.append({"what": what, "detail": detail})
    base = [M.Categorical(np.array(t), perfect=False) for t in ([0.1, 0.7, 0.1, 0.1], [0.2, 0.2, 0.1, 0.5], [0.2, 0.1, 0.4, 0.3], [0.25, 0.25, 0.25, 0.25], [0.4, 0.3, 0.2, 0.1])]
    alts = [M.Categorical(np.array([0.09, 0.71, 0.1, 0.1]), perfect=False), M.QuantizedGaussian(0, 3, 1.2, 0.9), M.Uniform(4)]
    K = len(base)
    fam = M.Categorical(perfect=False)
    rows = np.array([[0.1, 0.7, 0.1, 0.1], [0.2, 0.2, 0.1, 0.5], [0.2, 0.1, 0.4, 0.3], [0.25, 0.25, 0.25, 0.25], [0.4, 0.3, 0.2, 0.1], [0.25, 0.25, 0.25, 0.25]])
    def decode_all(w, models):
        """(symbols decoded one per call, index at which the coder ran out of data or None)"""
        c = CHAIN(w, False, True)
        out = []
        for i, m in enumerate(models):
            try:
                out.append(int(c.decode(m)))
            except AssertionError:
                return out, i
        return out, None
    with Quiet():
        # (24 bits per symbol + two words for the heads: 7 words hold all 5 positions, shorter strings run out of data)
        alphabet = [0x12345678, 0xffffffff, 0, 0x80000001][:max_len]
        strings = list(word_strings(7, 7, alphabet)) + list(word_strings(3, 5, alphabet[:3]))
        for w in strings:
            counters["py_locality_data_strings"] += 1
            try:
                ref, stop = decode_all(w, base)
            except BaseException as e:
                fail("Python front end | ChainCoder locality | decoding raises something else than running out of data", f"words {[hex(int(x)) for x in w]}: {type(e).__name__}: {str(e)[:100]}")
                continue
            if stop is not None:
                counters["py_locality_out_of_data"] += 1
            else:
                counters["py_locality_complete_decodings"] = counters.get("py_locality_complete_decodings", 0) + 1
            # the three call forms agree
            try:
                c = CHAIN(w, False, True)
                fam = M.Categorical(perfect=False)
                rows = np.array([[0.1, 0.7, 0.1, 0.1], [0.2, 0.2, 0.1, 0.5], [0.2, 0.1, 0.4, 0.3], [0.25, 0.25, 0.25, 0.25], [0.4, 0.3, 0.2, 0.1]])
                k = len(ref)
                if k:
                    got = [int(x) for x in c.decode(fam, rows[:k])]
                    if got != ref:
                        fail("Python front end | ChainCoder.decode(family, parameter arrays) | differs from decoding one symbol per call with the same models", f"words {[hex(int(x)) for x in w]}: {got} vs {ref}")
            except BaseException as e:
                fail("Python front end | ChainCoder.decode(family, parameter arrays) | raises where one symbol per call works", f"words {[hex(int(x)) for x in w]}: {type(e).__name__}: {str(e)[:100]}")
            # how the decoding is split into calls, and which call form takes over, must not matter: the first j symbols
            # one per call, the rest in ONE call in family form / with (model, amt) where the models allow it
            for j in range(len(ref) + 1):
                rest = len(ref) - j
                if rest == 0:
                    continue
                n += 1; counters["py_locality_split_decodings"] = counters.get("py_locality_split_decodings", 0) + 1
                try:
                    c = CHAIN(w, False, True)
                    got = [int(c.decode(base[i])) for i in range(j)] + [int(x) for x in c.decode(fam, rows[j:len(ref)])]
                    if got != ref:
                        fail("Python front end | ChainCoder locality | splitting the decoding into calls changes the symbols", f"words {[hex(int(x)) for x in w]}, {j} symbols one per call, then {rest} in family form: {got} vs {ref}")
                    if stop is not None:
                        try:
                            c.decode(fam, rows[len(ref):len(ref) + 1])
                            fail("Python front end | ChainCoder locality | splitting the decoding into calls changes when the coder runs out of data", f"words {[hex(int(x)) for x in w]}: a symbol beyond position {stop}")
                        except AssertionError:
                            pass
                except BaseException as e:
                    fail("Python front end | ChainCoder locality | splitting the decoding into calls changes when the coder runs out of data", f"words {[hex(int(x)) for x in w]}, {j} symbols one per call, then {rest} in family form: {type(e).__name__}: {str(e)[:80]} (one symbol per call decodes {ref})")
            for j in range(K):
                for a in alts:
                    n += 1; counters["py_locality_model_replacements"] += 1
                    ms = list(base); ms[j] = a
                    got, stop2 = decode_all(w, ms)
                    if stop2 != stop:
                        fail("Python front end | ChainCoder locality | replacing one model changes when the coder runs out of data", f"words {[hex(int(x)) for x in w]}, position {j}: {stop} -> {stop2}")
                    elif any(got[i] != ref[i] for i in range(len(ref)) if i != j):
                        fail("Python front end | ChainCoder locality | replacing the model of one position changes another position", f"words {[hex(int(x)) for x in w]}, position {j}: {ref} -> {got}")
            for b in range(32 * len(w)):
                n += 1; counters["py_locality_bit_flips"] += 1
                w2 = w.copy(); w2[b // 32] ^= np.uint32(1 << (b % 32))
                got, stop2 = decode_all(w2, base)
                if stop2 != stop:
                    fail("Python front end | ChainCoder locality | flipping one bit of the data changes when the coder runs out of data", f"words {[hex(int(x)) for x in w]}, bit {b}: {stop} -> {stop2}")
                elif sum(1 for x, y in zip(got, ref) if x != y) > 1:
                    fail("Python front end | ChainCoder locality | flipping one bit of the data changes more than one position", f"words {[hex(int(x)) for x in w]}, bit {b}: {ref} -> {got}")
    return n, failures, counters


def run_bounds(level):
    """C12 through the Python front end: the size after n symbols stays within information content + n * rounding term
    + constant, for every call form, also when the coder is looked at on the way"""
    failures, n = [], 0
    counters = {"py_bound_checks": 0}
    def fail(what, detail):
        if len([f for f in failures if f["what"] == what]) < 3:
            failures.append({"what": what, "detail": detail})
    eps = math.log2(1 + 2.0 ** -8)      # 32-bit words, 64-bit state, 24-bit precision
    lengths = [1, 5, 40, 300] + ([2000] if level else [])
    cases = []   # (name, concrete model or None, family, parameter builder, symbols to cycle through, bits per symbol)
    for size in (2, 4, 256, 3, 10, 1000):
        per = math.floor(2 ** 24 / size)
        cases.append((f"Uniform({size})", M.Uniform(size), M.Uniform(), lambda k, size=size: (np.full(k, size, dtype=np.int32),), [0, size // 2, size - 2 if size > 2 else 0], -math.log2(per / 2 ** 24)))
    cases.append(("Bernoulli(0.5)", M.Bernoulli(0.5, perfect=False), M.Bernoulli(perfect=False), lambda k: (np.full(k, 0.5),), [0, 1], 1.0 + 1e-5))
    cases.append(("Categorical([0.5, 0.25, 0.25])", M.Categorical(np.array([0.5, 0.25, 0.25]), perfect=False), M.Categorical(perfect=False), lambda k: (np.array([[0.5, 0.25, 0.25]] * k),), [1, 2], 2.0 + 1e-5))
    cases.append(("QuantizedGaussian(-1, 0, -0.5, 1e6) (two equally likely symbols)", M.QuantizedGaussian(-1, 0, -0.5, 1e6), M.QuantizedGaussian(-1, 0), lambda k: (np.full(k, -0.5), np.full(k, 1e6)), [-1, 0], 1.0 + 1e-4))
    with Quiet():
        for name, model, fam, par, cyc, bits in cases:
            for L in lengths:
                msg = np.array([cyc[i % len(cyc)] for i in range(L)], dtype=np.int32)
                info = L * bits
                for form in ("one symbol per call", "array with one model", "array with per-symbol parameters", "one symbol per call, looked at after every symbol"):
                    if form.startswith("one symbol") and L > 300:
                        continue
                    n += 1; counters["py_bound_checks"] += 1
                    try:
                        a, r = ANS(), RENC()
                        if form.startswith("one symbol"):
                            for x in msg[::-1]:
                                a.encode_reverse(int(x), model)
                                if form.endswith("every symbol"): a.get_compressed(); a.num_bits()
                            for x in msg:
                                r.encode(int(x), model)
                                if form.endswith("every symbol"): r.get_compressed(); r.get_decoder(); r.num_bits()
                        elif form == "array with one model":
                            a.encode_reverse(msg, model); r.encode(msg, model)
                        else:
                            a.encode_reverse(msg, fam, *par(L)); r.encode(msg, fam, *par(L))
                        ab, av, rb = a.num_bits(), a.num_valid_bits(), r.num_bits()
                        if av > info + L * eps + 64 + 1e-6 or ab > info + L * eps + 96 + 1e-6:
                            fail("Python front end | AnsCoder | size exceeds information content + n * rounding term + constant", f"{name}, {L} symbols, {form}: {av} valid bits / {ab} bits, information content {info:.1f} bits")
                        if rb > info + L * eps + 64 + 2 * 32 + 1e-6:
                            fail("Python front end | RangeEncoder | size exceeds information content + n * rounding term + constant", f"{name}, {L} symbols, {form}: {rb} bits, information content {info:.1f} bits")
                        if len(a.get_compressed()) * 32 != ab or len(r.get_compressed()) * 32 != rb:
                            fail("Python front end | size bound | num_bits is not the size of the export", f"{name}, {L} symbols, {form}")
                    except BaseException as e:
                        fail("Python front end | size bound | encoding raises", f"{name}, {L} symbols, {form}: {type(e).__name__}: {str(e)[:100]}")
    return n, failures, counters


def run_chain_histories(depth):
    """C13 through the Python front end: every interleaving of decodes (3 call forms) and re-encodes (3 call forms) up to
    the given depth on a ChainCoder over sealed data; at every node a clone that encodes everything back returns the data"""
    ms, fams, params = history_models()
    keys = list(ms)
    failures = []
    counters = {"py_chain_history_nodes": 0, "py_chain_history_restored": 0, "py_chain_history_out_of_data": 0}
    def fail(what, detail):
        if len([f for f in failures if f["what"] == what]) < 3:
            failures.append({"what": what, "detail": detail})
    def restore(c, ref, w, hist):
        try:
            for (s_, k) in reversed(ref):
                c.encode_reverse(int(s_), ms[k][0])
            d1, d2 = c.get_data(unseal=True)
            if not np.array_equal(np.concatenate([d1, d2]), w):
                fail("Python front end | ChainCoder | encoding the decoded symbols back (most recent first) does not restore the data", f"history {hist}")
            else:
                counters["py_chain_history_restored"] += 1
        except BaseException as e:
            fail("Python front end | ChainCoder | encoding the decoded symbols back raises", f"history {hist}: {type(e).__name__}: {str(e)[:100]}")
    def rec(c, ref, w, hist, d):
        counters["py_chain_history_nodes"] += 1
        restore(c.clone(), ref, w, hist)
        if d == 0 or len(failures) > 20:
            return
        # decode: one symbol with each model; two symbols iid; two symbols with per-symbol parameters of each family
        steps = [("decode one with " + str(k), lambda c, k=k: [(int(c.decode(ms[k][0])), k)]) for k in keys]
        steps += [("decode 2 iid with " + str(k), lambda c, k=k: [(int(x), k) for x in c.decode(ms[k][0], 2)]) for k in keys[:2]]
        steps += [(f"decode 2 with parameters of family {f}", lambda c, f=f: [(int(x), (f, i)) for i, x in enumerate(c.decode(fams[f], *params(f, [(f, 0), (f, 1)])))]) for f in ("g", "c")]
        for name, step in steps:
            c2 = c.clone()
            try:
                got = step(c2)
            except AssertionError:
                counters["py_chain_history_out_of_data"] += 1
                continue
            except BaseException as e:
                fail("Python front end | ChainCoder.decode | undocumented failure", f"history {hist + [name]}: {type(e).__name__}: {str(e)[:100]}")
                continue
            rec(c2, ref + got, w, hist + [name], d - 1)
        # encode back: the most recent symbol alone; the two most recent as an iid array / with parameters when they fit
        if ref:
            s_, k = ref[-1]
            c2 = c.clone(); c2.encode_reverse(int(s_), ms[k][0])
            rec(c2, ref[:-1], w, hist + ["encode back one"], d - 1)
        if len(ref) >= 2 and ref[-1][1] == ref[-2][1]:
            c2 = c.clone(); c2.encode_reverse(np.array([ref[-2][0], ref[-1][0]], dtype=np.int32), ms[ref[-1][1]][0])
            rec(c2, ref[:-2], w, hist + ["encode back 2 iid"], d - 1)
        if len(ref) >= 2 and ref[-1][1][0] == ref[-2][1][0]:
            f = ref[-1][1][0]
            c2 = c.clone(); c2.encode_reverse(np.array([ref[-2][0], ref[-1][0]], dtype=np.int32), fams[f], *params(f, [ref[-2][1], ref[-1][1]]))
            rec(c2, ref[:-2], w, hist + ["encode back 2 with parameters"], d - 1)
    with Quiet():
        for w in ([0x12345678, 0x9abcdef0, 0x0fedcba9, 0x13579bdf, 0x2468ace0, 0xdeadbeef, 0x00000000, 0xffffffff], [0] * 6, [0xffffffff] * 7, [1, 2, 3]):
            w = np.array(w, dtype=np.uint32)
            try:
                rec(CHAIN(w, False, True), [], w, [f"{len(w)} words"], depth)
            except BaseException as e:
                fail("Python front end | ChainCoder | a valid history raises", f"{type(e).__name__}: {str(e)[:160]}")
    return counters["py_chain_history_nodes"], failures, counters


def main():
    cmd = sys.argv[1]
    if cmd == "vectors":
        n, f, c = run_vectors(sys.argv[2])
    elif cmd == "docexamples":
        n, f, c = run_docexamples(sys.argv[2])
    elif cmd == "families":
        n, f, c = run_families(int(sys.argv[2]), int(sys.argv[3]))
        c["family_total"] = len(family_cases())
    elif cmd == "layouts":
        n, f, c = run_layouts()
    elif cmd == "constructors":
        n, f, c = run_constructors()
    elif cmd == "decoders":
        n, f, c = run_decoders(int(sys.argv[2]))
    elif cmd == "bitsback":
        n, f, c = run_bitsback(int(sys.argv[2]))
    elif cmd == "chain":
        n, f, c = run_chain(int(sys.argv[2]))
    elif cmd == "ans_histories":
        n, f, c = run_ans_histories(int(sys.argv[2]))
    elif cmd == "range_histories":
        n, f, c = run_range_histories(int(sys.argv[2]))
    elif cmd == "callbacks":
        n, f, c = run_callbacks(int(sys.argv[2]))
    elif cmd == "views":
        n, f, c = run_views(int(sys.argv[2]))
    elif cmd == "misuse":
        n, f, c = run_misuse(int(sys.argv[2]))
    elif cmd == "representations":
        n, f, c = run_representations(int(sys.argv[2]))
    elif cmd == "chain_locality":
        n, f, c = run_chain_locality(int(sys.argv[2]))
    elif cmd == "bounds":
        n, f, c = run_bounds(int(sys.argv[2]))
    elif cmd == "chain_histories":
        n, f, c = run_chain_histories(int(sys.argv[2]))
    elif cmd == "seek":
        n, f, c = run_seek(int(sys.argv[2]))
    elif cmd == "impossible":
        n, f, c = run_impossible(int(sys.argv[2]))
    elif cmd == "sizes":
        n, f, c = run_sizes(int(sys.argv[2]))
    elif cmd == "symbol":
        n, f, c = run_symbol(int(sys.argv[2]))
    else:
        print("unknown command", file=sys.stderr)
        sys.exit(2)
    print(json.dumps({"checked": n, "failures": f, "counters": c}))


if __name__ == "__main__":
    try:
        main()
    except SystemExit:
        raise
    except BaseException:
        traceback.print_exc()
        sys.exit(2)
