#!/usr/bin/env python3
"""Drives the Python front end (pyo3 bindings built from the working tree into /verif/pyfront/pkg).

  pyfront.py vectors <vectors.json>      replay every vector produced by `cvmc pyvectors` (the Rust front end's
                                         words for an exhaustive set of small messages) through the Python
                                         front end: encode -> words must be identical; decode the Rust words
                                         -> symbols must be identical
  pyfront.py docexamples <tests/python>  run every test_* function of the repository's own documentation
                                         example files (they assert byte-exact compressed words)
  pyfront.py constructors                every float table of length <= 3 over a boundary alphabet through
                                         Categorical(probabilities, lazy/perfect): ValueError or a valid model

Prints ONE line of JSON: {"checked": n, "failures": [{"what": ..., "detail": ...}, ...], "counters": {...}}.
Exit status 0 unless the driver itself is broken (then 2). Failures are verdicts for the caller, not errors here.
"""
import contextlib, importlib.util, io, itertools, json, math, os, sys, traceback

import numpy as np

try:
    import constriction
except Exception as e:  # the caller decides what a missing front end means
    print(json.dumps({"checked": 0, "failures": [], "counters": {}, "unavailable": repr(e)}))
    sys.exit(0)

M = constriction.stream.model


def build_model(spec):
    k = spec["kind"]
    if k == "categorical":
        dt = np.float32 if spec.get("f32") else np.float64
        kw = {}
        # "omit": arguments left to the binding's documented defaults (the model must still be the one named by lazy/perfect)
        if "lazy" not in spec.get("omit", []):
            kw["lazy"] = spec["lazy"]
        if "perfect" not in spec.get("omit", []):
            kw["perfect"] = spec["perfect"]
        with contextlib.redirect_stdout(io.StringIO()):  # (the binding prints a deprecation warning when both are omitted)
            return M.Categorical(np.array(spec["probs"], dtype=dt), **kw)
    if k == "gaussian":
        return M.QuantizedGaussian(spec["min"], spec["max"], spec["mean"], spec["std"])
    if k == "uniform":
        return M.Uniform(spec["size"])
    if k == "bernoulli":
        return M.Bernoulli(spec["p"], perfect=False)
    raise ValueError("unknown model kind " + k)


def run_vectors(path):
    cases = json.load(open(path))
    failures, n = [], 0
    counters = {"ans_vectors": 0, "range_vectors": 0, "symbols_encoded": 0}
    for c in cases:
        n += 1
        try:
            model = build_model(c["model"])
            syms = np.array(c["symbols"], dtype=np.int32)
            want = np.array(c["words"], dtype=np.uint32)
            if c["coder"] == "ans":
                counters["ans_vectors"] += 1
                enc = constriction.stream.stack.AnsCoder()
                enc.encode_reverse(syms, model)
                got = enc.get_compressed()
                dec = constriction.stream.stack.AnsCoder(want) if len(want) else constriction.stream.stack.AnsCoder()
                back = dec.decode(model, len(syms))
            else:
                counters["range_vectors"] += 1
                enc = constriction.stream.queue.RangeEncoder()
                enc.encode(syms, model)
                got = enc.get_compressed()
                dec = constriction.stream.queue.RangeDecoder(want)
                back = dec.decode(model, len(syms))
            counters["symbols_encoded"] += len(syms)
            # the same words handed over as non-contiguous numpy VIEWS (negative stride, stride 2) must be read in
            # logical order, not in memory order
            if len(want) >= 2 and n % 7 == 0:
                counters["view_vectors"] = counters.get("view_vectors", 0) + 1
                rev_view = want[::-1].copy()[::-1]
                strided = np.repeat(want, 2)[::2]
                for name, view in (("negative-stride view", rev_view), ("stride-2 view", strided)):
                    if c["coder"] == "ans":
                        d2 = constriction.stream.stack.AnsCoder(view)
                        same = np.array_equal(d2.get_compressed(), want)
                    else:
                        d2 = constriction.stream.queue.RangeDecoder(view)
                        same = True
                    b2 = d2.decode(model, len(syms))
                    if not same or len(b2) != len(syms) or not np.all(b2 == syms):
                        failures.append({"what": f"Python front end | {c['coder']} decoder | compressed words passed as a {name} are not read in logical order",
                                         "detail": f"model {c['model']} symbols {c['symbols']}: decoded {[int(x) for x in b2]}"})
            if len(got) != len(want) or not np.all(got == want):
                failures.append({"what": f"Python front end | {c['coder']} encoder | words differ from the Rust front end",
                                 "detail": f"model {c['model']} symbols {c['symbols']}: python {[int(x) for x in got]} rust {c['words']}"})
            elif len(back) != len(syms) or not np.all(back == syms):
                failures.append({"what": f"Python front end | {c['coder']} decoder | symbols decoded from the Rust front end's words differ",
                                 "detail": f"model {c['model']} symbols {c['symbols']}: decoded {[int(x) for x in back]}"})
        except BaseException as e:  # pyo3 turns Rust panics into BaseException subclasses
            failures.append({"what": f"Python front end | {c['coder']} | exception on a valid message",
                             "detail": f"model {c['model']} symbols {c['symbols']}: {type(e).__name__}: {e}"})
        if len(failures) > 40:
            break
    return n, failures, counters


def run_docexamples(testdir):
    failures, n = [], 0
    counters = {"doc_example_functions": 0, "doc_example_files": 0}
    for fname in sorted(os.listdir(testdir)):
        if not (fname.startswith("test_doc") or fname.startswith("test_lazy")) or not fname.endswith(".py"):
            continue
        spec = importlib.util.spec_from_file_location(fname[:-3], os.path.join(testdir, fname))
        mod = importlib.util.module_from_spec(spec)
        try:
            with contextlib.redirect_stdout(io.StringIO()):
                spec.loader.exec_module(mod)
        except BaseException as e:
            failures.append({"what": "Python front end | documentation examples | file cannot be imported", "detail": f"{fname}: {type(e).__name__}: {e}"})
            continue
        counters["doc_example_files"] += 1
        for name in sorted(dir(mod)):
            if not name.startswith("test_"):
                continue
            n += 1
            counters["doc_example_functions"] += 1
            try:
                with contextlib.redirect_stdout(io.StringIO()):
                    getattr(mod, name)()
            except BaseException as e:
                tb = traceback.extract_tb(e.__traceback__)
                where = f"{fname}:{tb[-1].lineno}" if tb else fname
                failures.append({"what": "Python front end | documentation example does not reproduce its documented output",
                                 "detail": f"{fname}::{name} at {where}: {type(e).__name__}: {str(e)[:300]}"})
    return n, failures, counters


def run_layouts():
    """Per-symbol model parameters given as numpy arrays: the words must depend on the VALUES, not on the memory
    layout of the arrays (C order, Fortran order, transposed / strided / reversed views of numerically equal data)."""
    failures, n = [], 0
    counters = {"layout_comparisons": 0}
    rng_tables = [
        [[0.3, 0.1, 0.1, 0.3, 0.2], [0.1, 0.4, 0.2, 0.1, 0.2], [0.4, 0.2, 0.1, 0.2, 0.1]],
        [[0.5, 0.5], [0.9, 0.1], [0.2, 0.8], [0.6, 0.4]],
        [[0.25, 0.25, 0.5], [0.1, 0.2, 0.7]],
    ]
    for table in rng_tables:
        for dtype in (np.float32, np.float64):
            base = np.array(table, dtype=dtype)
            nsym, k = base.shape
            layouts = {
                "C order": np.ascontiguousarray(base),
                "Fortran order": np.asfortranarray(base),
                "transposed view of the transposed copy": base.T.copy().T,
                "every second column of a wider array": np.repeat(base, 2, axis=1)[:, ::2],
                "rows reversed twice": base[::-1][::-1],
            }
            for msg in itertools.product(range(k), repeat=nsym):
                syms = np.array(msg, dtype=np.int32)
                for (lazy, perfect) in ((False, False), (False, True), (True, False)):
                    fam = M.Categorical(lazy=lazy, perfect=perfect)
                    ref = {}
                    for lname, arr in layouts.items():
                        n += 1
                        counters["layout_comparisons"] += 1
                        try:
                            a = constriction.stream.stack.AnsCoder(); a.encode_reverse(syms, fam, arr); wa = a.get_compressed()
                            r = constriction.stream.queue.RangeEncoder(); r.encode(syms, fam, arr); wr = r.get_compressed()
                            back = constriction.stream.stack.AnsCoder(wa).decode(fam, arr)
                        except (ValueError, TypeError):
                            continue  # a layout the binding refuses cleanly (ValueError / TypeError) is fine
                        except BaseException as e:
                            failures.append({"what": "Python front end | per-symbol parameter arrays | exception for a valid parameter array", "detail": f"{lname} {dtype.__name__} table {table}: {type(e).__name__}: {e}"})
                            continue
                        cur = ([int(x) for x in wa], [int(x) for x in wr])
                        if not np.array_equal(back, syms):
                            failures.append({"what": "Python front end | per-symbol parameter arrays | round trip fails", "detail": f"{lname} {dtype.__name__} table {table} symbols {list(msg)}"})
                        if not ref:
                            ref = {"name": lname, "words": cur}
                        elif cur != ref["words"]:
                            failures.append({"what": "Python front end | per-symbol parameter arrays | compressed words depend on the memory layout of a numerically identical parameter array",
                                             "detail": f"table {table} ({dtype.__name__}, lazy={lazy}, perfect={perfect}) symbols {list(msg)}: {ref['name']} gives {ref['words']}, {lname} gives {cur}"})
                    if len(failures) > 30:
                        return n, failures, counters
    # 1-D per-symbol parameters (means / standard deviations) as strided and reversed views
    gauss = M.QuantizedGaussian(-20, 20)
    means = np.array([1.5, -3.25, 7.0, 0.1], dtype=np.float64)
    stds = np.array([2.0, 0.5, 4.0, 1.0], dtype=np.float64)
    syms = np.array([2, -3, 9, 0], dtype=np.int32)
    views = {"contiguous": (means.copy(), stds.copy()), "stride 2": (np.repeat(means, 2)[::2], np.repeat(stds, 2)[::2]), "reversed twice": (means[::-1].copy()[::-1], stds[::-1].copy()[::-1])}
    ref = None
    for vname, (m, s_) in views.items():
        n += 1
        counters["layout_comparisons"] += 1
        try:
            a = constriction.stream.stack.AnsCoder(); a.encode_reverse(syms, gauss, m, s_); w = [int(x) for x in a.get_compressed()]
        except (ValueError, TypeError):
            continue
        if ref is None: ref = (vname, w)
        elif w != ref[1]:
            failures.append({"what": "Python front end | per-symbol parameter arrays | compressed words depend on the memory layout of a numerically identical parameter array", "detail": f"QuantizedGaussian means/stds as {vname}: {w} vs {ref[0]}: {ref[1]}"})
    return n, failures, counters


ALPHABET = [0.0, 5e-324, 1e-300, 1e-10, 0.1, 1.0 / 3.0, 1.0, 7.7, 1e30, 1e308,
            -0.0, -1e-300, -0.5, float("nan"), float("inf"), float("-inf")]


def valid_model(model, nsym):
    """C03's oracle through the Python front end: decoding every stretch of an all-purpose bit string and
    re-encoding must be lossless, and every symbol of the support must be encodable."""
    for s in range(nsym):
        enc = constriction.stream.stack.AnsCoder()
        enc.encode_reverse(np.array([s, s], dtype=np.int32), model)
        dec = constriction.stream.stack.AnsCoder(enc.get_compressed())
        back = dec.decode(model, 2)
        if not np.all(back == np.array([s, s], dtype=np.int32)):
            return f"symbol {s} does not round trip"
    enc = constriction.stream.stack.AnsCoder()
    try:
        enc.encode_reverse(np.array([nsym], dtype=np.int32), model)
        return f"symbol {nsym} outside the support is encodable"
    except (ValueError, KeyError):
        pass
    for words in ([0x12345678, 0x9abcdef0, 0x0fedcba9], [0, 0, 1], [0xffffffff, 0xffffffff, 0xffffffff]):
        dec = constriction.stream.stack.AnsCoder(np.array(words, dtype=np.uint32))
        syms = dec.decode(model, 5)
        if np.any(syms < 0) or np.any(syms >= nsym):
            return f"decoding arbitrary data yields a symbol outside 0..{nsym}: {syms}"
    return None


def run_constructors():
    failures, n = [], 0
    counters = {"tables": 0, "value_errors": 0, "models_built": 0}
    for length in range(0, 4):
        for idx in itertools.product(range(len(ALPHABET)), repeat=length):
            table = [ALPHABET[i] for i in idx]
            for dtype in (np.float64, np.float32):
                for (lazy, perfect) in ((False, False), (False, True), (True, False)):
                    n += 1
                    counters["tables"] += 1
                    with np.errstate(all="ignore"):
                        arr = np.array(table, dtype=dtype)
                    try:
                        model = M.Categorical(arr, lazy=lazy, perfect=perfect)
                    except ValueError:
                        counters["value_errors"] += 1
                        continue
                    except BaseException as e:
                        failures.append({"what": "Python front end | Categorical constructor | fails with something other than ValueError",
                                         "detail": f"{table} {dtype.__name__} lazy={lazy} perfect={perfect}: {type(e).__name__}: {str(e)[:200]}"})
                        continue
                    counters["models_built"] += 1
                    bad_input = length < 2 or any((not math.isfinite(float(x))) or float(x) < 0 for x in arr) or not math.isfinite(float(arr.sum())) or float(arr.sum()) <= 0
                    try:
                        why = valid_model(model, length)
                    except BaseException as e:
                        why = f"{type(e).__name__}: {str(e)[:200]}"
                    if why is not None:
                        failures.append({"what": "Python front end | Categorical constructor | returns a model that is not valid" + (" for invalid input" if bad_input else ""),
                                         "detail": f"{table} {dtype.__name__} lazy={lazy} perfect={perfect}: {why}"})
                    if len(failures) > 40:
                        return n, failures, counters
    return n, failures, counters


# ---------------------------------------------------------------------------------------------------------
# Parameterised families with arbitrary (also invalid) parameters: scalar constructor arguments and per-symbol
# parameter arrays. C19: any exception is a clean failure; a model / parameter set that is ACCEPTED must behave
# like a valid model: symbols of the support round-trip, arbitrary words decode into the support. A case that
# hangs is found by the caller through the progress markers written to stderr.
FAM_PARAMS = [0.0, -0.0, 1e-300, 1e-9, 0.3, 0.5, 1.0, 1.5, 3.0, 1e300, -0.25, -1.0, float("nan"), float("inf"), float("-inf")]
FAM_LOCS = [0.0, 0.7, -1e300, float("nan"), float("inf")]


def family_cases():
    cases = []
    for fam in ("gaussian", "laplace", "cauchy"):
        for loc in FAM_LOCS:
            for sc in FAM_PARAMS:
                for mode in ("scalar", "array", "array_scale_only"):
                    cases.append((fam, loc, sc, mode))
    for n_ in (0, 1, 10, -3):
        for p_ in FAM_PARAMS:
            for mode in ("scalar", "array"):
                cases.append(("binomial", n_, p_, mode))
    for p_ in FAM_PARAMS:
        for mode in ("scalar", "array"):
            cases.append(("bernoulli", 0, p_, mode))
    for size in (-1, 0, 1, 2, 3, 2**24 - 1, 2**24, 2**24 + 1, 2**31 - 1):
        cases.append(("uniform", 0, size, "scalar"))
        cases.append(("uniform", 0, size, "array"))
    return cases


def family_case(fam, a, b, mode):
    """returns None (fine) or a description of what is wrong"""
    lo, hi = -5, 5
    ans = constriction.stream.stack.AnsCoder
    if fam in ("gaussian", "laplace", "cauchy"):
        cls = {"gaussian": M.QuantizedGaussian, "laplace": M.QuantizedLaplace, "cauchy": M.QuantizedCauchy}[fam]
        support = (lo, hi)
        if mode == "scalar":
            model, params = cls(lo, hi, a, b), ()
        elif mode == "array":
            model, params = cls(lo, hi), (np.array([0.5, a], dtype=np.float64), np.array([1.0, b], dtype=np.float64))
        else:
            model, params = cls(lo, hi, a), (np.array([1.0, b], dtype=np.float64),)
        syms = np.array([lo, 2], dtype=np.int32)
    elif fam == "binomial":
        support = (0, max(a, 0))
        if mode == "scalar":
            model, params = M.Binomial(a, b), ()
        else:
            model, params = M.Binomial(a), (np.array([0.5, b], dtype=np.float64),)
        syms = np.array([0, max(a, 0)], dtype=np.int32)
    elif fam == "bernoulli":
        support = (0, 1)
        if mode == "scalar":
            model, params = M.Bernoulli(b, perfect=False), ()
        else:
            model, params = M.Bernoulli(perfect=False), (np.array([0.5, b], dtype=np.float64),)
        syms = np.array([0, 1], dtype=np.int32)
    else:
        support = (0, b - 1)
        if mode == "scalar":
            model, params = M.Uniform(b), ()
        else:
            model, params = M.Uniform(), (np.array([3, b], dtype=np.int32),)
            support = [(0, 2), (0, b - 1)]  # per-symbol supports
        syms = np.array([0, min(max(b - 1, 0), 2)], dtype=np.int32)
    enc = ans()
    enc.encode_reverse(syms, model, *params)
    words = enc.get_compressed()
    back = ans(words).decode(model, *params) if params else ans(words).decode(model, len(syms))
    if not np.array_equal(back, syms):
        return f"accepted, but symbols {list(syms)} decode as {list(back)}"
    for w in ([0x12345678, 0x9abcdef0, 0x0fedcba9, 0x13579bdf], [0, 0, 0, 1], [0xffffffff] * 4):
        d = ans(np.array(w, dtype=np.uint32))
        out = d.decode(model, *params) if params else d.decode(model, 2)
        sup = support if isinstance(support, list) else [support] * len(out)
        if any(int(o) < lo_ or int(o) > hi_ for o, (lo_, hi_) in zip(out, sup)):
            return f"accepted, but arbitrary words decode to {list(out)} outside the support {support}"
        # what was decoded must re-encode to the same words (a valid model is exactly invertible)
        e2 = ans(d.get_compressed()) if len(d.get_compressed()) else ans()
        e2.encode_reverse(out, model, *params)
        if not np.array_equal(e2.get_compressed(), np.array(w, dtype=np.uint32)):
            return f"accepted, but decoding arbitrary words and re-encoding the symbols {list(out)} does not restore the words"
    return None


def run_families(start, stop):
    failures, n = [], 0
    counters = {"family_cases": 0, "family_clean_failures": 0, "family_models_accepted": 0}
    cases = family_cases()
    devnull = open(os.devnull, "w")
    for i in range(start, min(stop, len(cases))):
        fam, a, b, mode = cases[i]
        sys.stderr.write(f"@{i}\n"); sys.stderr.flush()
        n += 1
        counters["family_cases"] += 1
        try:
            saved = os.dup(2); os.dup2(devnull.fileno(), 2)  # silence the panic backtraces of clean failures
            try:
                why = family_case(fam, a, b, mode)
            finally:
                os.dup2(saved, 2); os.close(saved)
        except BaseException as e:
            counters["family_clean_failures"] += 1
            continue
        counters["family_models_accepted"] += 1
        if why is not None:
            failures.append({"what": f"Python front end | {fam} model ({'constructor arguments' if mode == 'scalar' else 'per-symbol parameter arrays'}) | parameters are accepted but the model is not valid",
                             "detail": f"{fam}({a!r}, {b!r}) [{mode}]: {why}"})
    return n, failures, counters


def main():
    cmd = sys.argv[1]
    if cmd == "vectors":
        n, f, c = run_vectors(sys.argv[2])
    elif cmd == "docexamples":
        n, f, c = run_docexamples(sys.argv[2])
    elif cmd == "families":
        n, f, c = run_families(int(sys.argv[2]), int(sys.argv[3]))
        c["family_total"] = len(family_cases())
    elif cmd == "layouts":
        n, f, c = run_layouts()
    elif cmd == "constructors":
        n, f, c = run_constructors()
    else:
        print("unknown command", file=sys.stderr)
        sys.exit(2)
    print(json.dumps({"checked": n, "failures": f, "counters": c}))


if __name__ == "__main__":
    try:
        main()
    except SystemExit:
        raise
    except BaseException:
        traceback.print_exc()
        sys.exit(2)
