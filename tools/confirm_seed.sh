#!/bin/bash
# tools/confirm_seed.sh <worktree> <name(a|b)>  — confirm a sub-agent's seeded change in ITS scratch worktree:
#   (1) patch applies to a clean checkout, (2) baseline suite passes with it, (3) demo fails with it, (4) demo passes without it.
# Prints one summary line; never touches /repo.
wt="$1"; n="$2"
export CARGO_NET_OFFLINE=true CARGO_TARGET_DIR=${CONFIRM_TARGET:-/tmp/wt/target_confirm}
cd "$wt" || exit 2
git checkout -q -- . ; rm -f tests/seed_demo.rs
[ -f out/$n.patch ] || { echo "$wt $n: no patch"; exit 2; }
git apply --check out/$n.patch || { echo "$wt $n: PATCH DOES NOT APPLY"; exit 1; }
git apply out/$n.patch
if git diff --name-only | grep -qv '^src/'; then echo "$wt $n: patch touches non-src files: $(git diff --name-only | tr '\n' ' ')"; fi
base=$(cargo nextest run --workspace --no-fail-fast --tool-config-file pb:/w/lib/nextest.toml --profile pb --test-threads 8 --offline 2>&1 | grep -E "^\s*Summary|tests run" | tail -1)
cp out/${n}_demo.rs tests/seed_demo.rs
cargo test --offline --test seed_demo > out/${n}_demo_with.log 2>&1; with=$?
git checkout -q -- .
cargo test --offline --test seed_demo > out/${n}_demo_without.log 2>&1; without=$?
rm -f tests/seed_demo.rs
echo "$wt $n: baseline[$base] demo_with_change_exit=$with demo_without_change_exit=$without lines=$(grep -c '^[+-][^+-]' out/$n.patch)"
