#!/bin/bash
# tools/run_seeds.sh [seed-dir ...] — the recorded verdicts: for every seeded change apply its patch to /repo
# (tools/mutant.sh), run the quick checks listed in its meta.json (OWN_ONLY=1: only the check of the property it breaks), restore /repo, and store the result lines in
# seeded/<id>/detection.txt. Nothing else may use /repo or /verif/mc while this runs.
cd "$(dirname "$0")/.." || exit 2
seeds="$@"; [ -z "$seeds" ] && seeds=$(ls -d seeded/*/)
for d in $seeds; do
  d=${d%/}
  [ -e "${SEED_STOP_FILE:-/tmp/official/STOP}" ] && { echo "stop file present: stopping before $d"; break; }
  [ -z "$FORCE" ] && [ -s "$d/detection.txt" ] && continue
  if [ -n "$OWN_ONLY" ]; then
    ids=$(python3 -c "import json; print(json.load(open('$d/meta.json'))['breaks_property'])") || continue
  else
    ids=$(python3 -c "import json; print(' '.join(json.load(open('$d/meta.json'))['checks_run']))") || continue
  fi
  echo "== $d ($ids)"
  tools/mutant.sh $d/patch.diff $ids 2>&1 | tee $d/detection.txt
done
./check build >/dev/null 2>&1
