#!/bin/bash
# tools/mutant.sh <patch.diff> <ID> [<ID>...]  — apply a seeded change to /repo, run the quick checks, restore /repo.
# Prints one line per check: DETECTED / missed.  Never leaves /repo modified.
patch="$(realpath "$1")"; shift
cd /verif || exit 2
if [ -n "$(git -C /repo status --porcelain --untracked-files=no)" ]; then echo "/repo not clean"; exit 2; fi
git -C /repo apply "$patch" || { echo "patch does not apply"; exit 2; }
trap 'git -C /repo checkout -- . ' EXIT
for id in "$@"; do
  out=$(timeout ${CHECK_TIMEOUT:-600} ./check "$id" "${TIER:-quick}" 2>&1); code=$?
  if [ $code -eq 1 ] && echo "$out" | grep -q "VIOLATION property=$id"; then
     echo "DETECTED $id: $(echo "$out" | grep -m1 'identity:' | sed 's/^ *//')"
  elif [ $code -eq 0 ]; then echo "missed   $id"
  else echo "MACHINERY($code) $id: $(echo "$out" | grep -v "^panicked" | tail -6 | tr "\n" " ")"; fi
done
