#!/usr/bin/env python3
"""Prints a markdown table of all seeded changes with the verdicts recorded by tools/run_seeds.sh (seeded/*/detection.txt)."""
import glob, json, os, re
rows = []
for d in sorted(glob.glob(os.path.join(os.path.dirname(os.path.dirname(os.path.abspath(__file__))), "seeded", "*", ""))):
    d = d.rstrip("/")
    m = json.load(open(os.path.join(d, "meta.json")))
    det = os.path.join(d, "detection.txt")
    verdicts = []
    if os.path.exists(det):
        for l in open(det):
            mm = re.match(r"(DETECTED|missed|MACHINERY\(\d+\))\s+(C\d\d)", l)
            if mm:
                verdicts.append((mm.group(2), mm.group(1)))
    own = m["breaks_property"]
    caught = [p for p, v in verdicts if v == "DETECTED"]
    missed = [p for p, v in verdicts if v != "DETECTED"]
    rows.append((m["id"], own, "yes" if own in caught else ("NO" if own in missed else "-"), " ".join(caught), " ".join(missed)))
print("| seed | property | own check | caught by | silent |")
print("|---|---|---|---|---|")
for r in rows:
    print("| " + " | ".join(r) + " |")
tot = len(rows); own = sum(1 for r in rows if r[2] == "yes"); anyc = sum(1 for r in rows if r[3])
print(f"\n{tot} seeded changes; {anyc} reported by at least one check, {own} by the check of their own property.")
