#!/usr/bin/env python3
"""split a unified diff into per-(file,hunk) patches: split_patch.py in.patch outdir"""
import sys,os,re
src=open(sys.argv[1]).read().splitlines(keepends=True)
out=sys.argv[2]; os.makedirs(out,exist_ok=True)
files=[];cur=None
for ln in src:
    if ln.startswith('diff --git'):
        cur={'head':[ln],'hunks':[]};files.append(cur)
    elif ln.startswith('@@'):
        cur['hunks'].append([ln])
    elif cur['hunks']:
        cur['hunks'][-1].append(ln)
    else:
        cur['head'].append(ln)
for f in files:
    name=re.search(r' b/(.*)$',f['head'][0]).group(1).replace('/','_')
    for i,h in enumerate(f['hunks']):
        open(os.path.join(out,f'{name}.h{i}.patch'),'w').write(''.join(f['head'])+''.join(h))
        print(f'{name}.h{i}', h[0].strip())
