#!/bin/bash
# tools/confirm_pyseed.sh <worktree> <name(a|b)>  — confirm a sub-agent's change to the PYTHON binding layer in ITS scratch
# worktree: (1) patch applies, (2) Rust baseline passes with it, (3) bindings build with it, the repository's Python doc
# examples pass with it, (4) the Python demo fails with it and (5) passes without it. Never touches /repo.
wt="$1"; n="$2"
export CARGO_NET_OFFLINE=true PYO3_PYTHON=/opt/veriftools/pyvenv/bin/python
T=${CONFIRM_TARGET:-/tmp/wt/target_confirm}; TP=${CONFIRM_TARGET_PY:-/tmp/wt/target_confirm_py}
ext=/tmp/wt/pyext_confirm_$$; mkdir -p $ext
cd "$wt" || exit 2
git checkout -q -- .
[ -f out/$n.patch ] || { echo "$wt $n: no patch"; exit 2; }
git apply --check out/$n.patch || { echo "$wt $n: PATCH DOES NOT APPLY"; exit 1; }
git apply out/$n.patch
base=$(CARGO_TARGET_DIR=$T cargo nextest run --workspace --no-fail-fast --tool-config-file pb:/w/lib/nextest.toml --profile pb --test-threads 8 --offline 2>&1 | grep -E "^\s*Summary|tests run" | tail -1)
CARGO_TARGET_DIR=$TP cargo build --release --features pybindings --offline > out/${n}_pybuild.log 2>&1 || { echo "$wt $n: BINDINGS DO NOT BUILD"; git checkout -q -- .; exit 1; }
cp $TP/release/libconstriction.so $ext/constriction.so
PYTHONPATH=$ext PYTHONWARNINGS=ignore timeout 300 python3-vt out/${n}_demo.py > out/${n}_demo_with.log 2>&1; with=$?
doc=$(cd tests/python && PYTHONPATH=$ext PYTHONWARNINGS=ignore timeout 600 python3-vt - <<'PY' 2>&1 | tail -1
import importlib.util, glob, sys, io, contextlib
ok = bad = 0
for f in sorted(glob.glob("test_docexamples*.py") + glob.glob("test_lazy_*.py")):
    spec = importlib.util.spec_from_file_location("m", f); m = importlib.util.module_from_spec(spec)
    try:
        with contextlib.redirect_stdout(io.StringIO()): spec.loader.exec_module(m)
    except BaseException as e:
        bad += 1; continue
    for k in dir(m):
        if k.startswith("test_"):
            try:
                with contextlib.redirect_stdout(io.StringIO()): getattr(m, k)()
                ok += 1
            except BaseException as e:
                bad += 1
print(f"docexamples ok={ok} failed={bad}")
PY
)
git checkout -q -- .
CARGO_TARGET_DIR=$TP cargo build --release --features pybindings --offline > /dev/null 2>&1
cp $TP/release/libconstriction.so $ext/constriction.so
PYTHONPATH=$ext PYTHONWARNINGS=ignore timeout 300 python3-vt out/${n}_demo.py > out/${n}_demo_without.log 2>&1; without=$?
rm -rf $ext
echo "$wt $n: baseline[$base] [$doc] demo_with_change_exit=$with demo_without_change_exit=$without lines=$(grep -c '^[+-][^+-]' out/$n.patch)"
